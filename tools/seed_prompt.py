#!/usr/bin/env python3
"""Prints the prompt given to a fresh sub-agent that seeds a property-breaking change (nothing from /verif but the property text)."""
import json, sys
pid = sys.argv[1]
d = sys.argv[2] if len(sys.argv) > 2 else "/tmp/seed-" + pid
p = [json.loads(l) for l in open("/verif/properties.jsonl") if json.loads(l)["id"] == pid][0]
# second-round prompts steer away from mechanisms earlier sub-agents already used (their own summaries, nothing from the checks)
import glob, re
avoid = ""
if "--avoid" in sys.argv:
    prev = []
    for mf in sorted(glob.glob("/verif/seeded/%s-*/meta.json" % pid)):
        m = json.load(open(mf))
        prev.append("   - " + ", ".join(m.get("files", [])) + ": " + re.sub(r"\s+", " ", str(m.get("summary", "")))[:220])
    if prev:
        avoid = "\nOther people have already explored the following mechanisms; do NOT reuse them, find different code sites and different kinds of slips:\n" + "\n".join(prev) + "\n"
print(f"""You are working in a scratch git worktree of the Go repository ObolNetwork/charon (Ethereum distributed-validator middleware) at {d}. Work ONLY inside {d}. Never read or modify /repo or /verif (they are off limits), and do not look for any verification harness: your work must be independent.

Environment: no network. Before every go command: `export GOFLAGS=-mod=mod GOPROXY=off` (do NOT set GOTOOLCHAIN or GOSUMDB). `go version` inside the worktree must report go1.26.0. If `git status` shows go.sum/go.mod modified by a go command, restore them (`git checkout go.mod go.sum`).

Here is a semantic property that the code base is supposed to satisfy:

TITLE: {p['title']}
STATEMENT: {p['statement']}
QUANTIFIED OVER: {p['quantifier']['text']}
RELEVANT FILES (starting points): {', '.join(p['anchors']['files'])}

Your task: produce TWO different, independent changes (call them seed 1 and seed 2) to the non-test source code, each of which BREAKS this property, while the code still compiles and the existing test suite still passes (at minimum `go test -count=1 ./<every package you touched>/...` plus packages that obviously depend on the touched code; run them and report the commands). Requirements for each change:
 - It must be realistic: the kind of slip a refactor, optimisation, off-by-one, missed case or wrong-variable edit introduces. Keep it small (a few lines).
 - It must need something SPECIFIC to manifest: a particular interleaving or delivery order, a crash or fault at a particular point, a multi-step sequence of operations, an unusual input or configuration, or two cooperating sites that each look fine alone. It must NOT be something ordinary use or the happy path would expose at once (the existing tests must stay green!).
 - Do not edit or delete existing tests. Do not touch test helpers in a way that hides the change.
 - The two seeds should break the property through different mechanisms / code sites.{avoid}
For each seed provide a demonstration: a Go test (a new file named zz_seed_demo_test.go placed in the appropriate package directory, internal or external test package as needed) that FAILS with the change applied and PASSES on the original code. The demonstration should exercise the real code (the property's behaviour), be deterministic, and run in under a minute.

Procedure per seed k in {{1,2}} (start each from a clean tree: `git checkout -- . && git clean -fdq -e SEED`):
 1. Make the change. Build: `go build ./...`. Run the existing tests of touched and dependent packages; they must pass.
 2. Write the demonstration test; confirm it FAILS with the change.
 3. `mkdir -p {d}/SEED/k`; save `git diff -- . ':(exclude)*zz_seed_demo_test.go'` as {d}/SEED/k/patch.diff (source change only, must apply with `git apply` on the original tree); copy the demo to {d}/SEED/k/zz_seed_demo_test.go and note in meta.json the package directory it belongs in.
 4. Revert the source change only (`git apply -R SEED/k/patch.diff`), confirm the demonstration PASSES on the original code.
 5. Write {d}/SEED/k/meta.json with keys: property ("{pid}"), summary (what was changed and why it breaks the property), needs (what specific schedule / fault / input / sequence it needs to manifest), files (changed files), demo_pkg_dir (directory for zz_seed_demo_test.go relative to repo root), demo_run (exact go test command for the demo), tests_run (commands you ran for the existing suite and their result).
Finish with the tree clean except for the SEED directory (`git status --short` shows only SEED/). In your final answer, summarise each seed in 3-4 lines (what, where, what it needs to manifest, demo result with/without). Do not pad; no other output is needed.""")
