#!/usr/bin/env python3
"""Regenerates /verif/MANIFEST.json from props.py (single source of truth for the registered checks)."""
import json, os, sys
VERIF = os.path.dirname(os.path.dirname(os.path.abspath(__file__)))
sys.path.insert(0, VERIF)
from props import PROPS, NOT_APPLICABLE, ENGINES  # noqa

ALL = ["C%02d" % i for i in range(1, 21)]
checks = []
for pid in sorted(PROPS):
    c = PROPS[pid]
    checks.append({
        "property_id": pid,
        "quick_cmd": "./check %s --tier quick" % pid,
        "thorough_cmd": "./check %s --tier thorough" % pid,
        "evidence_file": "/verif/evidence/%s.json" % pid,
        "replay_cmd_template": "./check %s --replay {path}" % pid,
        "engine": c.get("engine", "rapid"),
        "level_claimed": {"category": c["level"], "text": c["level_text"], "design_ref": c.get("design_ref", "DESIGN.md section 3, " + pid)},
        "level_note": c["level_note"],
        "technique": c["technique"],
    })
na = [{"property_id": p, "reason": NOT_APPLICABLE.get(p, "check not built yet in this session; nothing is claimed for it")} for p in ALL if p not in PROPS]
doc = {
    "version": 1,
    "setup_cmd": "./check --setup",
    "hooks": {
        "guard": "verif",
        "enable": "no source hooks: checks compile /repo's working tree through an external module (replace => /repo) or, for in-package checks, go test -overlay/-modfile; the build tag 'verif' is reserved and unused",
        "baseline_off_cmd": "cd /repo && go test -vet=off -count=1 -timeout 25m ./...",
        "source_commits": [],
        "add_only": True,
    },
    "engines": ENGINES,
    "checks": checks,
    "not_applicable": na,
    "notes": "Every check is property-based testing / fuzzing (pgregory.net/rapid v1.3.0, testing/synctest bubbles, native go fuzz in thorough tiers). Exit 2 = inconclusive, never a violation. known_findings.json lists fixed and open findings.",
}
with open(os.path.join(VERIF, "MANIFEST.json"), "w") as f:
    json.dump(doc, f, indent=1)
    f.write("\n")
print("claimed:", len(checks), "not_applicable:", len(na))
