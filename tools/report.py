#!/usr/bin/env python3
"""Regenerates the generated part of DESIGN.md (section 9: sensitivity and seeded-change results) between the markers."""
import json, glob, os, re
V = "/verif"
out = []
out.append("### 9.1 Scratch mutations (sensitivity), per property\n")
out.append("Each mutation is a regex edit applied to a throw-away copy of the repository (`tools/sens.py`, definitions in `sensitivity/<ID>.json`, raw results in `sensitivity/results/<ID>.txt`); "
           "\"red\" = the quick tier of the named check exits 1 with a VIOLATION line, \"green\" = it stays silent. Greens are listed with the reason.\n")
out.append("| property | mutations | red | green (reason) |\n|---|---|---|---|")
for f in sorted(glob.glob(V + "/sensitivity/C*.json")):
    pid = os.path.basename(f)[:-5]
    muts = json.load(open(f))
    notes = {m["name"]: m.get("note", "") for m in muts}
    res = {}
    rf = V + "/sensitivity/results/%s.txt" % pid
    if os.path.exists(rf):
        for line in open(rf):
            m = re.match(r"(.+?)\s+(C\d\d=.*)$", line.rstrip("\n"))
            if not m:
                continue
            res[m.group(1).strip()] = m.group(2)
    red = 0
    greens = []
    for name in notes:
        r = res.get(name)
        if r is None:
            greens.append("%s — not run" % name)
            continue
        own = re.findall(r"(C\d\d)=(red|green|inconclusive)", r)
        if any(v == "red" for _, v in own):
            red += 1
        elif any(v == "inconclusive" for _, v in own):
            greens.append("%s — INCONCLUSIVE run (%s)" % (name, notes[name] or "build or budget"))
        else:
            greens.append("%s — %s" % (name, notes[name] or "see section 9.3"))
    out.append("| %s | %d | %d | %s |" % (pid, len(notes), red, "; ".join(greens) if greens else "—"))
out.append("")
out.append("### 9.2 Seeded changes written by independent sub-agents\n")
out.append("Each change was produced by a fresh sub-agent that saw only the property text and its own scratch worktree, compiles, keeps the touched packages' existing tests green, and comes with a demonstration test that fails with the change and passes without it "
           "(all three re-confirmed by `tools/seed_verify.py`). Stored under `seeded/<name>/`.\n")
out.append("| seed | site | what it needs to manifest | quick check result |\n|---|---|---|---|")
for d in sorted(glob.glob(V + "/seeded/C*")):
    name = os.path.basename(d)
    m = json.load(open(d + "/meta.json"))
    files = ", ".join(m.get("files", []))[:80]
    needs = re.sub(r"\s+", " ", str(m.get("needs", "")))[:260]
    chk = "; ".join("%s: %s" % (k, v.get("result")) for k, v in m.get("checks", {}).items())
    out.append("| %s | %s | %s | %s |" % (name, files, needs.replace("|", "/"), chk))
text = "\n".join(out) + "\n"
p = V + "/DESIGN.md"
s = open(p).read()
a, b = "<!-- BEGIN GENERATED RESULTS -->", "<!-- END GENERATED RESULTS -->"
if a in s:
    s = s[:s.index(a) + len(a)] + "\n" + text + s[s.index(b):]
    open(p, "w").write(s)
    print("DESIGN.md updated")
else:
    print(text)
