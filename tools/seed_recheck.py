#!/usr/bin/env python3
"""Re-runs the registered checks against already confirmed seeds and refreshes meta.json's "checks".
usage: tools/seed_recheck.py <seed name> [<seed name> ...] [--checks C02,C03] [--tier quick]"""
import json, os, re, shutil, subprocess, sys, tempfile, time
VERIF = os.path.dirname(os.path.dirname(os.path.abspath(__file__)))

def sh(cmd, cwd=None, env=None, timeout=6000):
    e = dict(os.environ, GOFLAGS="-mod=mod", GOPROXY="off")
    if env: e.update(env)
    p = subprocess.run(cmd, shell=True, cwd=cwd, env=e, stdout=subprocess.PIPE, stderr=subprocess.STDOUT, text=True, timeout=timeout)
    return p.returncode, p.stdout

def main():
    args = sys.argv[1:]
    checks = None; tier = "quick"
    if "--checks" in args:
        i = args.index("--checks"); checks = args[i + 1].split(","); del args[i:i + 2]
    if "--tier" in args:
        i = args.index("--tier"); tier = args[i + 1]; del args[i:i + 2]
    for name in args:
        sd = os.path.join(VERIF, "seeded", name)
        meta = json.load(open(sd + "/meta.json"))
        cs = [meta["property"]] if checks == ["SELF"] else (checks or [k for k in meta.get("checks", {}).keys() if k != "SELF"] or [meta["property"]])
        root = tempfile.mkdtemp(prefix="seedr-", dir="/tmp")
        try:
            sh("rsync -a --exclude .git /repo/ %s/repo/" % root)
            rc, out = sh("patch -p1 -s < %s" % (sd + "/patch.diff"), cwd=root + "/repo")
            if rc != 0:
                print(name, "PATCH FAILED", out[-300:]); continue
            sh("rsync -a --exclude .git --exclude .build --exclude .work --exclude replays --exclude evidence --exclude seeded /verif/ %s/verif/" % root)
            os.makedirs(root + "/verif/replays", exist_ok=True)
            meta.setdefault("checks", {})
            for c in cs:
                t0 = time.time()
                rc, out = sh("./check %s --tier %s" % (c, tier), cwd=root + "/verif", env={"VERIF_REPO": root + "/repo"})
                first = ""
                for line in out.splitlines():
                    if re.search(r"_test.go:\d+: ", line) and "[rapid] draw" not in line and not first:
                        first = line.strip()[:300]
                meta["checks"][c] = {"tier": tier, "result": {0: "green (missed)", 1: "red (caught)"}.get(rc, "inconclusive"), "wall_s": round(time.time() - t0), "first_message": first if rc == 1 else (out.strip().splitlines() or [""])[-1][:200]}
                print(name, c, meta["checks"][c]["result"], flush=True)
            json.dump(meta, open(sd + "/meta.json", "w"), indent=1)
        finally:
            shutil.rmtree(root, ignore_errors=True)

if __name__ == "__main__":
    main()
