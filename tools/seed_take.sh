#!/bin/bash
# usage: tools/seed_take.sh <PROP> <n1> <n2> [extra check ids]  -- verify /tmp/seed-<PROP>/SEED/{1,2} as <PROP>-<n1>, <PROP>-<n2>, then remove the worktree
P=$1; A=$2; B=$3; EXTRA=${4:-}
cd /verif
for k in 1 2; do
  N=$A; [ $k = 2 ] && N=$B
  if [ -f /tmp/seed-$P/SEED/$k/patch.diff ]; then
    python3 tools/seed_verify.py /tmp/seed-$P/SEED/$k $P-$N ${EXTRA:+--checks $P,$EXTRA} > /tmp/seedtake-$P-$N.log 2>&1
    tail -25 /tmp/seedtake-$P-$N.log
  else echo "no seed $k for $P"; fi
done
git -C /repo worktree remove --force /tmp/seed-$P && echo removed worktree $P
