#!/bin/bash
# usage: tools/soak.sh <tier> <seed-from> <seed-to> [ids...]   — runs checks repeatedly on the unchanged tree, logs anything that is not OK
tier=$1; from=$2; to=$3; shift 3
ids=${@:-$(cd /verif && python3 -c "import props;print(' '.join(sorted(props.PROPS)))")}
log=/verif/soak-$tier.log
for seed in $(seq $from $to); do
  for id in $ids; do
    out=$(cd /verif && ./check $id --tier $tier --seed $seed 2>&1 | tail -3)
    last=$(echo "$out" | tail -1)
    echo "$(date -u +%H:%M:%S) seed=$seed $last" >> $log
    case "$last" in OK*) ;; *) echo "$out" >> $log.bad; echo "---- $id seed=$seed" >> $log.bad;; esac
  done
done
