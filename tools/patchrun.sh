#!/bin/bash
# usage: tools/patchrun.sh <patch file> <check-id> [check args...]   run a check of the working /verif (a scratch copy of it) against a scratch copy of /repo with the seed's patch applied
set -u
S=$1; ID=$2; shift 2
D=$(mktemp -d /tmp/seedrun-XXXXXX)
rsync -a --exclude .git /repo/ $D/repo/
rsync -a --exclude .git --exclude .build --exclude .work --exclude replays --exclude evidence --exclude seeded /verif/ $D/verif/
mkdir -p $D/verif/replays $D/verif/evidence
(cd $D/repo && patch -p1 -s < $S) || { echo "PATCH FAILED"; rm -rf $D; exit 9; }
cd $D/verif && VERIF_REPO=$D/repo ./check "$ID" "$@" 2>&1 | tail -${MUT_TAIL:-12}
echo "exit=${PIPESTATUS[0]}"
rm -rf $D
