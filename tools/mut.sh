#!/bin/bash
# usage: tools/mut.sh <ID> <file-in-repo> <python-regex> <replacement>   (sensitivity: mutate, run quick, revert)
set -u
ID=$1; F=$2; PAT=$3; REP=$4
cd /repo || exit 9
git diff --quiet || { echo "repo dirty"; exit 9; }
python3 - "$F" "$PAT" "$REP" <<'PY'
import re,sys
f,pat,rep=sys.argv[1:4]
s=open(f).read()
n,c=re.subn(pat,rep,s,count=1,flags=re.S)
if c!=1: print("MUTATION DID NOT APPLY"); sys.exit(3)
open(f,'w').write(n)
PY
rc=$?
if [ $rc -ne 0 ]; then git checkout -- .; exit $rc; fi
git diff --stat | cat
cd /verif && ./check "$ID" "${@:5}" | tail -${MUT_TAIL:-8}
echo "exit=${PIPESTATUS[0]}"
git -C /repo checkout -- .
