#!/usr/bin/env python3
"""Runs the repository's own suite once and reports every test of /root/.vp/BASELINE.json's stable_pass list that did not pass."""
import json, subprocess, sys, os
base = json.load(open("/root/.vp/BASELINE.json"))
want = set(base["stable_pass"])
env = dict(os.environ, GOFLAGS="-mod=mod", GOPROXY="off")
p = subprocess.run("cd /repo && go test -json -vet=off -count=1 -timeout 25m ./...", shell=True, env=env, stdout=subprocess.PIPE, stderr=subprocess.STDOUT, text=True)
status = {}
for line in p.stdout.splitlines():
    try:
        e = json.loads(line)
    except ValueError:
        continue
    if e.get("Test") and e.get("Action") in ("pass", "fail", "skip"):
        status[e["Package"] + "::" + e["Test"]] = e["Action"]
bad = sorted(t for t in want if status.get(t) != "pass")
print("stable_pass tests:", len(want), "not passing now:", len(bad))
for t in bad[:60]:
    print("  ", t, status.get(t))
subprocess.run("git -C /repo status --short", shell=True)
sys.exit(1 if bad else 0)
