#!/usr/bin/env python3
"""Confirms a seeded change and runs the registered checks against it.
usage: tools/seed_verify.py <seed dir containing patch.diff, zz_seed_demo_test.go, meta.json> <name> [--checks C02,C03] [--tier quick]
Steps (all in throw-away copies under /tmp, /repo is never touched):
 1. repo+patch: go build ./..., existing tests of the touched packages pass
 2. repo+patch+demo: demo FAILS;  repo+demo: demo PASSES
 3. repo+patch: ./check <ids> -> red/green
Then copies patch, demo and meta (extended with what was run) to /verif/seeded/<name>/."""
import json, os, re, shutil, subprocess, sys, tempfile, time
VERIF = os.path.dirname(os.path.dirname(os.path.abspath(__file__)))

def sh(cmd, cwd=None, env=None, timeout=3000):
    e = dict(os.environ, GOFLAGS="-mod=mod", GOPROXY="off")
    if env: e.update(env)
    p = subprocess.run(cmd, shell=True, cwd=cwd, env=e, stdout=subprocess.PIPE, stderr=subprocess.STDOUT, text=True, timeout=timeout)
    return p.returncode, p.stdout

def main():
    sd, name = sys.argv[1], sys.argv[2]
    checks = None; tier = "quick"
    if "--checks" in sys.argv: checks = sys.argv[sys.argv.index("--checks") + 1].split(",")
    if "--tier" in sys.argv: tier = sys.argv[sys.argv.index("--tier") + 1]
    meta = json.load(open(os.path.join(sd, "meta.json")))
    checks = checks or [meta["property"]]
    root = tempfile.mkdtemp(prefix="seedv-", dir="/tmp")
    res = {"confirmed_by_builder": {}}
    try:
        sh("rsync -a --exclude .git /repo/ %s/repo/" % root)
        rc, out = sh("git apply --unsafe-paths --directory=%s/repo %s 2>&1 || (cd %s/repo && patch -p1 < %s)" % (root, os.path.abspath(sd + "/patch.diff"), root, os.path.abspath(sd + "/patch.diff")))
        files = re.findall(r"^\+\+\+ b/(\S+)", open(sd + "/patch.diff").read(), flags=re.M)
        pkgs = sorted({"./" + os.path.dirname(f) + "/..." for f in files})
        rc, out = sh("go build ./... && go test -count=1 %s" % " ".join(pkgs), cwd=root + "/repo")
        res["confirmed_by_builder"]["build_and_existing_tests_with_patch"] = "pass" if rc == 0 else "FAIL: " + out[-600:]
        demo_dir = meta.get("demo_pkg_dir", "").strip("/")
        demo_run = meta.get("demo_run", "")
        demo_run = re.sub(r"^cd \S+ && ", "", demo_run)
        demo_run = re.sub(r"^\s*export [^;&]*(&&|;)\s*", "", demo_run)
        demo_run = re.sub(r"(export )?GOFLAGS=\S+ |(export )?GOPROXY=\S+ |; ", "", demo_run)
        # with patch
        shutil.copy(sd + "/zz_seed_demo_test.go", os.path.join(root, "repo", demo_dir, "zz_seed_demo_test.go"))
        rc1, out1 = sh(demo_run, cwd=root + "/repo")
        res["confirmed_by_builder"]["demo_with_patch"] = "fails (as required)" if rc1 != 0 else "PASSES (seed not confirmed)"
        # without patch
        sh("rsync -a --exclude .git /repo/ %s/orig/" % root)
        shutil.copy(sd + "/zz_seed_demo_test.go", os.path.join(root, "orig", demo_dir, "zz_seed_demo_test.go"))
        rc2, out2 = sh(demo_run, cwd=root + "/orig")
        res["confirmed_by_builder"]["demo_without_patch"] = "passes (as required)" if rc2 == 0 else "FAILS: " + out2[-600:]
        os.remove(os.path.join(root, "repo", demo_dir, "zz_seed_demo_test.go"))
        # our checks
        sh("rsync -a --exclude .git --exclude .build --exclude .work --exclude replays --exclude evidence --exclude seeded /verif/ %s/verif/" % root)
        os.makedirs(root + "/verif/replays", exist_ok=True)
        res["checks"] = {}
        for c in checks:
            t0 = time.time()
            rc, out = sh("./check %s --tier %s" % (c, tier), cwd=root + "/verif", env={"VERIF_REPO": root + "/repo"})
            first = ""
            for line in out.splitlines():
                if re.search(r"_test.go:\d+: ", line) and "[rapid] draw" not in line and not first:
                    first = line.strip()[:300]
            res["checks"][c] = {"tier": tier, "result": {0: "green (missed)", 1: "red (caught)"}.get(rc, "inconclusive"), "wall_s": round(time.time() - t0), "first_message": first if rc == 1 else out.strip().splitlines()[-1][:200]}
        meta.update(res)
        dst = os.path.join(VERIF, "seeded", name)
        os.makedirs(dst, exist_ok=True)
        shutil.copy(sd + "/patch.diff", dst + "/patch.diff")
        shutil.copy(sd + "/zz_seed_demo_test.go", dst + "/zz_seed_demo_test.go")
        json.dump(meta, open(dst + "/meta.json", "w"), indent=1)
        print(name, json.dumps(res, indent=1))
    finally:
        shutil.rmtree(root, ignore_errors=True)

if __name__ == "__main__":
    main()
