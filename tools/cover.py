#!/usr/bin/env python3
"""Blind-spot finder (development aid, not a registered check): builds a property's check binaries with Go coverage
instrumentation over the charon packages of the property's anchor files, runs the quick-tier jobs with a reduced case
count and lists, per anchor file, the functions that no job ever entered.
usage: tools/cover.py <ID> [--checks-div 10]"""
import json, os, re, subprocess, sys, tempfile, shutil
VERIF = os.path.dirname(os.path.dirname(os.path.abspath(__file__)))
sys.path.insert(0, VERIF)
import importlib.machinery, importlib.util
loader = importlib.machinery.SourceFileLoader("checkdrv", os.path.join(VERIF, "check"))
spec = importlib.util.spec_from_loader("checkdrv", loader)
drv = importlib.util.module_from_spec(spec)
loader.exec_module(drv)
from props import PROPS


def main():
    pid = sys.argv[1]
    div = 10
    if "--checks-div" in sys.argv:
        div = int(sys.argv[sys.argv.index("--checks-div") + 1])
    prop = [json.loads(l) for l in open(os.path.join(VERIF, "properties.jsonl")) if json.loads(l)["id"] == pid][0]
    anchors = [f for f in prop["anchors"]["files"] if f.endswith(".go")]
    pkgs = sorted({"github.com/obolnetwork/charon/" + os.path.dirname(f) for f in anchors})
    coverpkg = ",".join(pkgs)
    cfg = PROPS[pid]
    work = tempfile.mkdtemp(prefix="cover-%s-" % pid, dir="/tmp")
    profiles = []
    try:
        drv.gen_modfiles()
        builds = [("", cfg)] + [("." + n, c) for n, c in cfg.get("extra_builds", {}).items()]
        bins = {}
        for suffix, c in builds:
            out = os.path.join(work, "bin%s.test" % suffix)
            if c.get("kind", "ext") == "ext":
                cmd = ["go", "test", "-c", "-vet=off", "-cover", "-coverpkg=" + coverpkg, "-o", out, c["pkg"]]
                cwd = drv.HARNESS
            else:
                ov = drv.gen_overlay(pid, c, suffix)
                cmd = ["go", "test", "-c", "-vet=off", "-cover", "-coverpkg=" + coverpkg, "-o", out,
                       "-modfile=" + os.path.join(drv.INPKG, "go.mod"), "-overlay=" + ov, c["pkg"]]
                cwd = drv.REPO
            p = subprocess.run(cmd, cwd=cwd, env=drv.goenv(), stdout=subprocess.PIPE, stderr=subprocess.STDOUT, text=True)
            if p.returncode != 0:
                print("build failed:", p.stdout[-2000:])
                return 2
            bins[suffix.lstrip(".")] = out
        for i, job in enumerate(cfg["runs"]["quick"]):
            if job.get("mode") == "fuzz":
                continue
            b = bins[job.get("bin", "")]
            prof = os.path.join(work, "p%d.out" % i)
            wd = os.path.join(work, "w%d" % i)
            os.makedirs(wd)
            env = drv.goenv()
            env.update({"VERIF_STATS": os.path.join(wd, "stats.json"), "VERIF_TIER": "quick", "VERIF_SEED": "1", "VERIF_KNOWN": drv.KNOWN, "VERIF_OUT": wd})
            for k, v in job.get("env", {}).items():
                env[k] = str(v)
            cmd = [b, "-test.run", "^(%s)$" % job["test"], "-test.count=1", "-test.timeout=600s", "-test.coverprofile=" + prof]
            if job.get("mode", "rapid") == "rapid":
                cmd += ["-rapid.checks=%d" % max(1, job["checks"] // div), "-rapid.seed=7"]
            p = subprocess.run(cmd, cwd=wd, env=env, stdout=subprocess.PIPE, stderr=subprocess.STDOUT, text=True)
            print("job %s: rc=%d" % (job["test"], p.returncode))
            if os.path.exists(prof):
                profiles.append(prof)
        # merge: a block is covered if any profile has count > 0
        covered = {}
        for prof in profiles:
            for line in open(prof):
                if line.startswith("mode:"):
                    continue
                m = re.match(r"(.+):(\d+)\.\d+,(\d+)\.\d+ (\d+) (\d+)$", line.strip())
                if not m:
                    continue
                key = (m.group(1), int(m.group(2)), int(m.group(3)))
                covered[key] = covered.get(key, 0) + int(m.group(5))
        # function table per anchor file
        for f in anchors:
            src = open(os.path.join(drv.REPO, f)).read().splitlines()
            funcs = []
            for i, l in enumerate(src, 1):
                m = re.match(r"func (\([^)]*\) )?([A-Za-z0-9_]+)", l)
                if m:
                    funcs.append([i, m.group(2), None])
            for j, fn in enumerate(funcs):
                fn[2] = funcs[j + 1][0] - 1 if j + 1 < len(funcs) else len(src)
            full = "github.com/obolnetwork/charon/" + f
            never, partly = [], []
            for start, name, end in funcs:
                blocks = [(k, c) for k, c in covered.items() if k[0] == full and start <= k[1] <= end]
                if not blocks:
                    continue
                hit = sum(1 for _, c in blocks if c > 0)
                if hit == 0:
                    never.append(name)
                elif hit < len(blocks):
                    partly.append("%s(%d/%d)" % (name, hit, len(blocks)))
            print("== %s\n   never entered: %s\n   partly: %s" % (f, ", ".join(never) or "-", ", ".join(partly) or "-"))
    finally:
        shutil.rmtree(work, ignore_errors=True)


if __name__ == "__main__":
    sys.exit(main())
