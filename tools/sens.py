#!/usr/bin/env python3
"""Sensitivity runner: for each scratch mutation in sensitivity/<ID>.json, copies /repo and /verif to a throw-away
directory under /tmp, applies the mutation there, runs the listed checks (quick tier unless stated) against the
copy and records whether they turned red. /repo itself is never touched; every copy is removed again.
usage: tools/sens.py <ID> [name-substring] [-j N]"""
import concurrent.futures as cf
import json, os, re, shutil, subprocess, sys, tempfile, time
VERIF = os.path.dirname(os.path.dirname(os.path.abspath(__file__)))
REPO = "/repo"

def sh(cmd, **kw):
    return subprocess.run(cmd, shell=True, stdout=subprocess.PIPE, stderr=subprocess.STDOUT, text=True, **kw)

def one(pid, m):
    root = tempfile.mkdtemp(prefix="sens-%s-" % pid, dir="/tmp")
    try:
        sh("rsync -a --exclude .git /repo/ %s/repo/" % root)
        sh("rsync -a --exclude .git --exclude .build --exclude .work --exclude replays --exclude evidence --exclude seeded /verif/ %s/verif/" % root)
        os.makedirs(root + "/verif/replays", exist_ok=True)
        for part in [m] + m.get("also", []):
            path = os.path.join(root, "repo", part["file"])
            src = open(path).read()
            new, c = re.subn(part["pattern"], lambda _m: part["replacement"], src, count=part.get("count", 1), flags=re.S)
            if c < 1:
                return m["name"], "DID-NOT-APPLY (%s)" % part["file"]
            open(path, "w").write(new)
        outs = []
        env = dict(os.environ, VERIF_REPO=root + "/repo")
        for chk in m.get("checks", [pid]):
            t0 = time.time()
            r = sh("./check %s --tier %s" % (chk, m.get("tier", "quick")), cwd=root + "/verif", env=env)
            v = "red" if r.returncode == 1 else ("green" if r.returncode == 0 else "inconclusive")
            first = ""
            for line in r.stdout.splitlines():
                if re.search(r"_test.go:\d+: ", line) and "[rapid] draw" not in line and not first:
                    first = line.strip()[:160]
            if v == "inconclusive":
                first = " | ".join(r.stdout.strip().splitlines()[-3:])[:300]
            outs.append("%s=%s(%.0fs) %s" % (chk, v, time.time() - t0, first))
        return m["name"], "; ".join(outs)
    finally:
        shutil.rmtree(root, ignore_errors=True)

def main():
    args = [a for a in sys.argv[1:]]
    jobs = 3
    if "-j" in args:
        i = args.index("-j"); jobs = int(args[i + 1]); del args[i:i + 2]
    pid = args[0]
    only = args[1] if len(args) > 1 else ""
    muts = [m for m in json.load(open(os.path.join(VERIF, "sensitivity", pid + ".json"))) if only in m["name"]]
    results = []
    with cf.ThreadPoolExecutor(max_workers=jobs) as ex:
        for name, res in ex.map(lambda m: one(pid, m), muts):
            results.append((name, res)); print("%-58s %s" % (name, res), flush=True)
    # merge into the results file (by mutation name, keeping the definition order)
    os.makedirs(os.path.join(VERIF, "sensitivity", "results"), exist_ok=True)
    rp = os.path.join(VERIF, "sensitivity", "results", pid + ".txt")
    allnames = [m["name"] for m in json.load(open(os.path.join(VERIF, "sensitivity", pid + ".json")))]
    old = {}
    if os.path.exists(rp):
        for line in open(rp):
            for n in allnames:
                if line.startswith("%-58s " % n) or line.startswith(n + " "):
                    old[n] = line.rstrip("\n")[len("%-58s " % n):] if line.startswith("%-58s " % n) else line.rstrip("\n")[len(n) + 1:]
    for n, r in results:
        old[n] = r
    with open(rp, "w") as f:
        for n in allnames:
            if n in old:
                f.write("%-58s %s\n" % (n, old[n]))
    return 0

if __name__ == "__main__":
    sys.exit(main())
