#!/opt/veriftools/pyvenv/bin/python
import json, glob, jsonschema, sys
ms = json.load(open('/root/.vp/MANIFEST.schema.json')); es = json.load(open('/root/.vp/EVIDENCE.schema.json'))
m = json.load(open('/verif/MANIFEST.json')); jsonschema.validate(m, ms)
bad = 0
for c in m['checks']:
    try:
        e = json.load(open(c['evidence_file'])); jsonschema.validate(e, es)
        assert e['level'] == c['level_claimed']['category'], 'level mismatch'
    except Exception as ex:
        bad += 1; print('BAD', c['property_id'], str(ex)[:200])
print('manifest ok; evidence bad:', bad, 'of', len(m['checks']))
sys.exit(1 if bad else 0)
