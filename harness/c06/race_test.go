package c06

import (
	"context"
	"fmt"
	"runtime"
	"sync"
	"testing"
	"testing/synctest"
	"time"

	eth2v1 "github.com/attestantio/go-eth2-client/api/v1"
	eth2p0 "github.com/attestantio/go-eth2-client/spec/phase0"
	"pgregory.net/rapid"

	"github.com/obolnetwork/charon/core"
	"github.com/obolnetwork/charon/core/dutydb"

	"verifharness/fakes"
	"verifharness/vstat"
)

// TestC06ExpiryDuringStore puts the expiry of a duty exactly inside the window in which a Store of that duty
// is talking to the deadliner: the scripted deadliner answers "scheduled" and, before that answer reaches the
// store, the duty expires (emitted on C()) and other goroutines store other duties (which drains the expiry
// channel). Whatever the store does with that, once the expiry has been consumed by a completed store the
// expired duty's data must not be served to queries that start afterwards ("data for expired duties is
// refused ... however queries, stores, cancellations and expiries interleave"); data of the other duties is
// served as usual. The other stores are real goroutines that contend for the store's lock; the harness only
// yields the processor to let them run, so a run is schedule dependent in a faulty store and not in a correct one.
func TestC06ExpiryDuringStore(t *testing.T) {
	vstat.Rule("C06", "expiry inside a store's deadliner call: scripted deadliner answers scheduled for duty X (attester or proposer), then X expires and 1..3 concurrent stores of other duties run before the answer is returned; after quiescence and one more store, queries for X started afterwards must stay unanswered and PubKeyByAttestation must fail, queries for the other duties are answered; non-trivial = every case")
	rapid.Check(t, func(rt *rapid.T) {
		rapid.SyncTest(rt, func(rt *rapid.T) {
			ctx, cancel := context.WithCancel(context.Background())
			dl := fakes.NewDeadliner(core.DutyExit, core.DutyBuilderRegistration)
			db := dutydb.NewMemDB(dl)
			var wg sync.WaitGroup
			defer func() {
				cancel()
				wg.Wait()
				synctest.Wait()
			}()
			attSet := func(slot uint64, variant byte) core.UnsignedDataSet {
				return core.UnsignedDataSet{pk(1): core.AttestationData{Data: attData(slot, 1, variant), Duty: eth2v1.AttesterDuty{PubKey: eth2pk(pk(1)), Slot: eth2p0.Slot(slot), ValidatorIndex: 1, CommitteeIndex: 1, CommitteeLength: 8, CommitteesAtSlot: 3}}}
			}
			proposer := rapid.Bool().Draw(rt, "xIsProposer")
			xSlot := uint64(rapid.IntRange(1, 3).Draw(rt, "xSlot"))
			xDuty := core.Duty{Slot: xSlot, Type: core.DutyAttester}
			xSet := attSet(xSlot, 'a')
			if proposer {
				xDuty = core.Duty{Slot: xSlot, Type: core.DutyProposer}
				xSet = core.UnsignedDataSet{pk(1): proposal(xSlot, 'a')}
			}
			// a query for X may already be waiting (it is legitimately answered by the store)
			earlyQuery := rapid.Bool().Draw(rt, "queryBefore")
			if earlyQuery {
				wg.Add(1)
				go func() {
					defer wg.Done()
					if proposer {
						_, _ = db.AwaitProposal(ctx, xSlot)
					} else {
						_, _ = db.AwaitAttestation(ctx, xSlot, 1)
					}
				}()
				synctest.Wait()
			}
			nOthers := rapid.IntRange(1, 3).Draw(rt, "concurrentStores")
			yields := rapid.IntRange(50, 400).Draw(rt, "yields")
			var otherErr []error
			var mu sync.Mutex
			fired := false
			dl.OnAdd = func(d core.Duty, status core.DeadlineStatus) {
				if d != xDuty || status != core.DeadlineScheduled || fired {
					return
				}
				fired = true
				dl.Expire(xDuty) // X's deadline passes now: emitted on C(), later Adds answer "expired"
				for i := 0; i < nOthers; i++ {
					wg.Add(1)
					go func() {
						defer wg.Done()
						slot := uint64(10 + i)
						err := db.Store(ctx, core.Duty{Slot: slot, Type: core.DutyAttester}, attSet(slot, 'b'))
						mu.Lock()
						otherErr = append(otherErr, err)
						mu.Unlock()
					}()
				}
				for i := 0; i < yields; i++ {
					runtime.Gosched()
				}
			}
			xErr := db.Store(ctx, xDuty, xSet)
			synctest.Wait()
			if !fired {
				rt.Fatalf("HARNESS-ERROR: the store did not consult the deadliner for %v", xDuty)
			}
			mu.Lock()
			for _, e := range otherErr {
				if e != nil {
					rt.Fatalf("store of an unrelated live duty failed: %v", e)
				}
			}
			mu.Unlock()
			// one more store of a live duty: by now the expiry of X has certainly been consumed
			if err := db.Store(ctx, core.Duty{Slot: 20, Type: core.DutyAttester}, attSet(20, 'b')); err != nil {
				rt.Fatalf("store of an unrelated live duty failed: %v", err)
			}
			synctest.Wait()
			// queries for X that start now must not be served
			served := make(chan string, 2)
			qctx, qcancel := context.WithCancel(ctx)
			wg.Add(1)
			go func() {
				defer wg.Done()
				if proposer {
					if p, err := db.AwaitProposal(qctx, xSlot); err == nil {
						served <- render(p)
					}
				} else if a, err := db.AwaitAttestation(qctx, xSlot, 1); err == nil {
					served <- render(a)
				}
			}()
			time.Sleep(time.Second)
			synctest.Wait()
			select {
			case v := <-served:
				rt.Fatalf("EXPIRED SERVED: duty %v expired while its store was inside the deadliner call, its expiry was consumed by later stores, and a query started afterwards is still answered (%.80s); the store returned %v", xDuty, v, xErr)
			default:
			}
			qcancel()
			if !proposer {
				if p, err := db.PubKeyByAttestation(ctx, xSlot, 1, 1); err == nil {
					rt.Fatalf("EXPIRED SERVED: PubKeyByAttestation still answers %v for the expired duty %v", p, xDuty)
				}
			}
			// the other duties are served
			for i := 0; i < nOthers; i++ {
				cctx, ccancel := context.WithTimeout(ctx, time.Second)
				if _, err := db.AwaitAttestation(cctx, uint64(10+i), 1); err != nil {
					rt.Fatalf("BLOCKED: data of live duty %d stored concurrently is not served: %v", 10+i, err)
				}
				ccancel()
			}
			vstat.Case(fmt.Sprintf("race/%v/%v/%d/%d/%v", proposer, xSlot, nOthers, yields, earlyQuery), true, "expiry_inside_store", cls("expiry_inside_store_query_before", earlyQuery), cls("expiry_inside_store_refused", xErr != nil))
		})
	})
}
