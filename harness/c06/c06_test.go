// C06 — duty store serves one unique datum per key and never blocks a satisfiable query.
//
// Stateful rapid test in a synctest bubble: production dutydb.NewMemDB with a scripted deadliner,
// against a reference model (per key: the datum that must be served; per key: everything ever
// offered). Entries of a failing Store may have been applied partially (map order, early return):
// the model then learns the actual state by probing and asserts uniqueness from there on.
package c06

import (
	"context"
	"encoding/json"
	"fmt"
	"strings"
	"testing"
	"testing/synctest"
	"time"

	"github.com/OffchainLabs/go-bitfield"
	eth2api "github.com/attestantio/go-eth2-client/api"
	eth2v1 "github.com/attestantio/go-eth2-client/api/v1"
	eth2spec "github.com/attestantio/go-eth2-client/spec"
	"github.com/attestantio/go-eth2-client/spec/altair"
	eth2p0 "github.com/attestantio/go-eth2-client/spec/phase0"
	"pgregory.net/rapid"

	"github.com/obolnetwork/charon/core"
	"github.com/obolnetwork/charon/core/dutydb"
	"github.com/obolnetwork/charon/testutil"

	"verifharness/fakes"
	"verifharness/vstat"
)

func TestMain(m *testing.M) { vstat.Main(m) }

const rule = "history of Store (attester / proposer / aggregator / sync-contribution sets with equal, conflicting and partially conflicting entries, multi-entry sets), blocking Await* started in goroutines, cancellations, PubKeyByAttestation, expiry (Add -> Expired, emitted on C()) over a small key universe (2 slots x 3 committees x 3 validators x 3 data variants ...); " +
	"model: per key the unique datum; after a successful Store every pending query whose key it provided has returned at quiescence; all answers per key identical (aggregates: identical attestation data, latest offered aggregate); " +
	"non-trivial = a query was blocked when the satisfying store arrived, or a clash was rejected, or an expiry happened; distinct by op trace"

type fam int

const (
	fAtt fam = iota
	fPro
	fAgg
	fCon
)

type key struct {
	fam  fam
	slot uint64
	a    uint64 // committee / subcommittee
	root eth2p0.Root
}

func (k key) String() string {
	return fmt.Sprintf("%v/%d/%d/%x", []string{"att", "pro", "agg", "contrib"}[k.fam], k.slot, k.a, k.root[:2])
}

type pkKey struct{ slot, comm, val uint64 }

type query struct {
	id        int
	key       key
	cancel    context.CancelFunc
	done      chan struct{}
	val       string // canonical rendering of the answer
	err       error
	cancelled bool
}

func root(b byte) eth2p0.Root {
	var r eth2p0.Root
	r[0] = b
	return r
}

func pk(b byte) core.PubKey {
	raw := make([]byte, 48)
	raw[0] = b
	p, err := core.PubKeyFromBytes(raw)
	if err != nil {
		panic(err)
	}
	return p
}

func eth2pk(p core.PubKey) eth2p0.BLSPubKey {
	var out eth2p0.BLSPubKey
	b, _ := p.Bytes()
	copy(out[:], b)
	return out
}

func attData(slot, comm uint64, variant byte) eth2p0.AttestationData {
	src, tgt := root(9), root(7)
	if variant == 'c' {
		src = root(8)
	}
	if variant == 'd' {
		tgt = root(6)
	}
	return eth2p0.AttestationData{
		Slot: eth2p0.Slot(slot), Index: 0, BeaconBlockRoot: root(variant), // Electra style: the committee lives in the duty
		Source: &eth2p0.Checkpoint{Epoch: 1, Root: src}, Target: &eth2p0.Checkpoint{Epoch: 2, Root: tgt},
	}
}

var baseProposal = testutil.RandomCapellaVersionedProposal()

func proposal(slot uint64, variant byte) core.VersionedProposal {
	blk := *baseProposal.Capella
	body := *blk.Body
	blk.Body = &body
	blk.Slot = eth2p0.Slot(slot)
	blk.Body.Graffiti[0] = variant
	p, err := core.NewVersionedProposal(&eth2api.VersionedProposal{Version: eth2spec.DataVersionCapella, Capella: &blk})
	if err != nil {
		panic("HARNESS-ERROR: " + err.Error())
	}
	return p
}

// aggData is the attestation data inside a (Deneb, pre-Electra) aggregate: the committee is in the data.
func aggData(slot, comm uint64, variant byte) eth2p0.AttestationData {
	d := attData(slot, comm, variant)
	d.Index = eth2p0.CommitteeIndex(comm)
	return d
}

func aggAtt(slot, comm uint64, dataVariant, bitsVariant byte) core.VersionedAggregatedAttestation {
	d := aggData(slot, comm, dataVariant)
	bits := bitfield.NewBitlist(8)
	bits.SetBitAt(uint64(bitsVariant%8), true)
	var sig eth2p0.BLSSignature
	sig[0] = bitsVariant
	a, err := core.NewVersionedAggregatedAttestation(&eth2spec.VersionedAttestation{Version: eth2spec.DataVersionDeneb, Deneb: &eth2p0.Attestation{AggregationBits: bits, Data: &d, Signature: sig}})
	if err != nil {
		panic("HARNESS-ERROR: " + err.Error())
	}
	return a
}

func contrib(slot, subcomm uint64, rootV, bitsVariant byte) core.SyncContribution {
	bits := bitfield.NewBitvector128()
	bits.SetBitAt(uint64(bitsVariant%16), true)
	var sig eth2p0.BLSSignature
	sig[0] = bitsVariant
	return core.NewSyncContribution(&altair.SyncCommitteeContribution{Slot: eth2p0.Slot(slot), BeaconBlockRoot: root(rootV), SubcommitteeIndex: subcomm, AggregationBits: bits, Signature: sig})
}

func render(v any) string {
	b, err := json.Marshal(v)
	if err != nil {
		panic("HARNESS-ERROR: " + err.Error())
	}
	return string(b)
}

func TestC06Model(t *testing.T) {
	vstat.Rule("C06", rule)
	vstat.Assume("attestation data slot == duty slot as the fetcher produces; aggregates are keyed by attestation-data root and the store deliberately keeps the latest offered aggregate for a key, so for aggregates 'identical content' is asserted on the attestation data and membership in the offered set")
	vstat.Assume("a Store that returns an error may have applied part of its entries; the model learns that state by probing and asserts nothing about which part")
	rapid.Check(t, func(rt *rapid.T) {
		rapid.SyncTest(rt, func(rt *rapid.T) { runCase(rt) })
	})
}

type world struct {
	rt       *rapid.T
	ctx      context.Context
	db       *dutydb.MemDB
	dl       *fakes.Deadliner
	model    map[key]string // definite content per key (for agg: the attestation-data rendering)
	// maybe: keys touched by a failed multi-entry store while a query was pending on them. Learning
	// whether the entry was applied would need an Await, and every Await makes the store resolve ALL
	// pending queries, i.e. the probe would itself wake the waiter the property is about. Such keys stay
	// "possibly stored with one of these values" until a successful store or an answer settles them.
	maybe map[key]map[string]bool
	offered  map[key]map[string]bool
	pubkeys  map[pkKey]core.PubKey
	queries  []*query
	nextID   int
	toDelete []core.Duty
	trace    []string
}

// pendingOn reports whether an unanswered, uncancelled query waits for the key.
func (w *world) pendingOn(k key) bool {
	for _, q := range w.queries {
		if q.key == k && !q.cancelled && !finished(q) {
			return true
		}
	}
	return false
}

func (w *world) offer(k key, v string) {
	if w.offered[k] == nil {
		w.offered[k] = map[string]bool{}
	}
	w.offered[k][v] = true
}

func (w *world) start(k key) *query {
	qctx, cancel := context.WithCancel(w.ctx)
	q := &query{id: w.nextID, key: k, cancel: cancel, done: make(chan struct{})}
	w.nextID++
	go func() {
		defer close(q.done)
		switch k.fam {
		case fAtt:
			v, err := w.db.AwaitAttestation(qctx, k.slot, k.a)
			q.err = err
			if err == nil {
				q.val = render(v)
			}
		case fPro:
			v, err := w.db.AwaitProposal(qctx, k.slot)
			q.err = err
			if err == nil {
				r, rerr := v.Root()
				if rerr != nil {
					q.err = rerr
				}
				q.val = fmt.Sprintf("%x", r)
			}
		case fAgg:
			v, err := w.db.AwaitAggAttestation(qctx, k.slot, k.root, eth2p0.CommitteeIndex(k.a))
			q.err = err
			if err == nil {
				q.val = render(v)
			}
		case fCon:
			v, err := w.db.AwaitSyncContribution(qctx, k.slot, k.a, k.root)
			q.err = err
			if err == nil {
				q.val = render(v)
			}
		}
	}()
	return q
}

func finished(q *query) bool {
	select {
	case <-q.done:
		return true
	default:
		return false
	}
}

// probe learns whether a key is present after a failed store.
func (w *world) probe(k key) (string, bool) {
	q := w.start(k)
	synctest.Wait()
	if finished(q) {
		if q.err != nil {
			w.rt.Fatalf("probe %v returned %v", k, q.err)
		}
		return q.val, true
	}
	q.cancel()
	<-q.done
	return "", false
}

// answerOK checks an answer for key k against the model and the offered values.
func (w *world) answerOK(k key, val string, when string) {
	if !w.offered[k][val] {
		w.rt.Fatalf("%s: answer for %v was never offered to Store for that key: %s", when, k, val)
	}
	want, ok := w.model[k]
	if !ok {
		if cands, mb := w.maybe[k]; mb && k.fam == fAgg {
			// aggregate keys contain the data root: whatever was stored under the key carries exactly this
			// attestation data (the single candidate); the aggregate around it may be any one offered
			for c := range cands {
				w.model[k] = c
			}
			delete(w.maybe, k)
			want, ok = w.model[k], true
		} else if mb {
			if !cands[val] {
				w.rt.Fatalf("%s: answer for %v is %s, which no store (failed or not) ever carried for that key", when, k, val)
			}
			w.model[k] = val // settled by the answer
			delete(w.maybe, k)
			return
		}
		if !ok {
			w.rt.Fatalf("%s: answer for %v although the model holds nothing for it", when, k)
		}
	}
	if k.fam == fAgg {
		// identical attestation data; the aggregate itself may be the latest one offered
		var got struct {
			Data json.RawMessage `json:"data"`
		}
		var att map[string]json.RawMessage
		_ = json.Unmarshal([]byte(val), &att)
		for _, v := range att { // versioned wrapper: find the object with "data"
			_ = json.Unmarshal(v, &got)
		}
		if got.Data == nil {
			_ = json.Unmarshal([]byte(val), &got)
		}
		if string(got.Data) != want {
			w.rt.Fatalf("%s: aggregate for %v carries attestation data %s, stored under that key: %s", when, k, got.Data, want)
		}
		return
	}
	if val != want {
		w.rt.Fatalf("%s: UNIQUENESS: answer for %v is %s but earlier/stored datum is %s", when, k, val, want)
	}
}

func (w *world) check(when string, strictPending bool) {
	var still []*query
	for _, q := range w.queries {
		_, stored := w.model[q.key]
		switch {
		case finished(q) && q.err == nil:
			w.answerOK(q.key, q.val, when)
		case finished(q) && q.cancelled:
			// returned the context error
		case finished(q):
			w.rt.Fatalf("%s: query %d for %v returned error %v", when, q.id, q.key, q.err)
		case q.cancelled:
			w.rt.Fatalf("%s: cancelled query %d did not return", when, q.id)
		case stored && strictPending:
			w.rt.Fatalf("%s: BLOCKED: query %d for %v still waits although a successful store provided its key (trace %v)", when, q.id, q.key, w.trace)
		default:
			still = append(still, q)
		}
	}
	w.queries = still
}

func runCase(rt *rapid.T) {
	ctx, cancel := context.WithCancel(context.Background())
	dl := fakes.NewDeadliner(core.DutyExit, core.DutyBuilderRegistration)
	w := &world{rt: rt, ctx: ctx, db: dutydb.NewMemDB(dl), dl: dl, model: map[key]string{}, maybe: map[key]map[string]bool{}, offered: map[key]map[string]bool{}, pubkeys: map[pkKey]core.PubKey{}}
	defer func() {
		cancel()
		for _, q := range w.queries {
			<-q.done
		}
		synctest.Wait()
	}()
	var blockedThenServed, clashSeen, expirySeen bool

	drawKey := func() key {
		slot := uint64(rapid.IntRange(1, 2).Draw(rt, "qslot"))
		switch fam(rapid.IntRange(0, 3).Draw(rt, "qfam")) {
		case fAtt:
			return key{fam: fAtt, slot: slot, a: uint64(rapid.IntRange(0, 2).Draw(rt, "qcomm"))}
		case fPro:
			return key{fam: fPro, slot: slot}
		case fAgg:
			comm := uint64(rapid.IntRange(1, 2).Draw(rt, "qcomm"))
			d := aggData(slot, comm, byte(rapid.SampledFrom([]rune{'a', 'b'}).Draw(rt, "qdata")))
			r, _ := d.HashTreeRoot()
			return key{fam: fAgg, slot: slot, a: comm, root: r}
		default:
			return key{fam: fCon, slot: slot, a: uint64(rapid.IntRange(0, 1).Draw(rt, "qsub")), root: root(byte(rapid.SampledFrom([]rune{'a', 'b'}).Draw(rt, "qroot")))}
		}
	}

	nOps := rapid.IntRange(1, 40).Draw(rt, "nOps")
	for op := 0; op < nOps; op++ {
		strict := true
		switch c := rapid.IntRange(0, 19).Draw(rt, "op"); {
		case c < 6: // start a blocking query
			if len(w.queries) >= 8 {
				continue
			}
			k := drawKey()
			w.queries = append(w.queries, w.start(k))
			w.trace = append(w.trace, "await "+k.String())
		case c < 15: // store
			slot := uint64(rapid.IntRange(1, 2).Draw(rt, "slot"))
			f := fam(rapid.IntRange(0, 3).Draw(rt, "fam"))
			duty := core.Duty{Slot: slot, Type: []core.DutyType{core.DutyAttester, core.DutyProposer, core.DutyAggregator, core.DutySyncContribution}[f]}
			set := core.UnsignedDataSet{}
			type touch struct {
				k        key
				val      string // content to compare for a clash
				alias    bool
				src, tgt string
			}
			var touches []touch
			var pkTouches []struct {
				k pkKey
				p core.PubKey
			}
			clash := false
			aliasAmbiguous := false // which entry's data ends up under (slot, committee 0) depends on map order
			possible := false       // outcome depends on the order in which the set's entries are applied
			type attEntry struct {
				comm          uint64
				val, src, tgt string
			}
			var attEntries []attEntry
			local := map[key]string{} // entries of this very set, for intra-set clashes
			localPk := map[pkKey]core.PubKey{}
			n := rapid.IntRange(1, 3).Draw(rt, "nEntries")
			if f == fPro {
				n = 1
			}
			for i := 0; i < n; i++ {
				val := uint64(rapid.IntRange(1, 3).Draw(rt, "val"))
				pubkey := pk(byte(val))
				if _, dup := set[pubkey]; dup {
					continue
				}
				switch f {
				case fAtt:
					comm := uint64(rapid.IntRange(0, 2).Draw(rt, "comm"))
					variant := byte(rapid.SampledFrom([]rune{'a', 'a', 'a', 'b', 'b', 'c', 'd'}).Draw(rt, "variant"))
					if rapid.IntRange(0, 14).Draw(rt, "otherPubkey") == 0 {
						pubkey = pk(byte(val + 10))
					}
					if _, dup := set[pubkey]; dup {
						continue
					}
					d := attData(slot, comm, variant)
					set[pubkey] = core.AttestationData{Data: d, Duty: eth2v1.AttesterDuty{PubKey: eth2pk(pubkey), Slot: eth2p0.Slot(slot), ValidatorIndex: eth2p0.ValidatorIndex(val), CommitteeIndex: eth2p0.CommitteeIndex(comm), CommitteeLength: 8, CommitteesAtSlot: 3}}
					attEntries = append(attEntries, attEntry{comm, render(&d), d.Source.String(), d.Target.String()})
					k := key{fam: fAtt, slot: slot, a: comm}
					k0 := key{fam: fAtt, slot: slot, a: 0}
					touches = append(touches, touch{k: k, val: render(&d)}, touch{k: k0, val: render(&d), alias: true, src: d.Source.String(), tgt: d.Target.String()})
					pkTouches = append(pkTouches, struct {
						k pkKey
						p core.PubKey
					}{pkKey{slot, comm, val}, pubkey}, struct {
						k pkKey
						p core.PubKey
					}{pkKey{slot, 0, val}, pubkey})
				case fPro:
					variant := byte(rapid.SampledFrom([]rune{'a', 'a', 'b'}).Draw(rt, "variant"))
					p := proposal(slot, variant)
					set[pubkey] = p
					r, _ := p.Root()
					touches = append(touches, touch{k: key{fam: fPro, slot: slot}, val: fmt.Sprintf("%x", r)})
				case fAgg:
					comm := uint64(rapid.IntRange(1, 2).Draw(rt, "comm"))
					dv := byte(rapid.SampledFrom([]rune{'a', 'b'}).Draw(rt, "variant"))
					bv := byte(rapid.IntRange(1, 3).Draw(rt, "bits"))
					a := aggAtt(slot, comm, dv, bv)
					set[pubkey] = a
					d := aggData(slot, comm, dv)
					r, _ := d.HashTreeRoot()
					k := key{fam: fAgg, slot: slot, a: comm, root: r}
					w.offer(k, render(&a.VersionedAttestation))
					touches = append(touches, touch{k: k, val: render(&d)})
				case fCon:
					sub := uint64(rapid.IntRange(0, 1).Draw(rt, "sub"))
					rv := byte(rapid.SampledFrom([]rune{'a', 'b'}).Draw(rt, "croot"))
					bv := byte(rapid.SampledFrom([]int{1, 1, 2}).Draw(rt, "cbits"))
					c1 := contrib(slot, sub, rv, bv)
					k := key{fam: fCon, slot: slot, a: sub, root: root(rv)}
					touches = append(touches, touch{k: k, val: render(&c1.SyncCommitteeContribution)})
					if rapid.Bool().Draw(rt, "plural") {
						sub2 := uint64(rapid.IntRange(0, 1).Draw(rt, "sub2"))
						bv2 := byte(rapid.SampledFrom([]int{1, 1, 2}).Draw(rt, "cbits2"))
						c2 := contrib(slot, sub2, rv, bv2)
						set[pubkey] = core.SyncContributions{c1, c2}
						touches = append(touches, touch{k: key{fam: fCon, slot: slot, a: sub2, root: root(rv)}, val: render(&c2.SyncCommitteeContribution)})
					} else {
						set[pubkey] = c1
					}
				}
			}
			if len(set) == 0 {
				continue
			}
			// predict clash
			for _, tch := range touches {
				if f != fAgg {
					w.offer(tch.k, tch.val)
				}
				if tch.alias {
					continue
				}
				if f == fAtt && tch.k.a == 0 {
					continue // handled below together with the alias
				}
				if prev, ok := w.model[tch.k]; ok && prev != tch.val {
					clash = true
				}
				if cands, mb := w.maybe[tch.k]; mb && !(len(cands) == 1 && cands[tch.val]) {
					possible = true // clashes exactly if the earlier failed store had applied another value
				}
				if prev, ok := local[tch.k]; ok && prev != tch.val {
					clash = true
				}
				local[tch.k] = tch.val
			}
			if f == fAtt {
				k0 := key{fam: fAtt, slot: slot, a: 0}
				prev, havePrev := w.model[k0]
				var pd eth2p0.AttestationData
				if havePrev {
					_ = json.Unmarshal([]byte(prev), &pd)
				}
				for i, e := range attEntries {
					if havePrev {
						if e.comm == 0 && prev != e.val {
							clash = true // primary key (slot,0): full content must match
						}
						if pd.Source.String() != e.src || pd.Target.String() != e.tgt {
							clash = true
						}
					}
					for _, o := range attEntries[:i] {
						if o.val != e.val && !havePrev {
							aliasAmbiguous = true
						}
						switch {
						case o.src != e.src || o.tgt != e.tgt:
							clash = true
						case o.val != e.val && (o.comm == 0 || e.comm == 0) && !havePrev:
							if o.comm == 0 && e.comm == 0 {
								clash = true
							} else {
								possible = true // whichever is applied first decides
							}
						}
					}
				}
			}
			for _, pt := range pkTouches {
				if prev, ok := w.pubkeys[pt.k]; ok && prev != pt.p {
					clash = true
				}
				if prev, ok := localPk[pt.k]; ok && prev != pt.p {
					clash = true
				}
				localPk[pt.k] = pt.p
			}
			expired := dl.IsExpired(duty)
			blockedBefore := map[key]bool{}
			for _, q := range w.queries {
				if !finished(q) {
					blockedBefore[q.key] = true
				}
			}
			err := w.db.Store(ctx, duty, set)
			synctest.Wait()
			w.trace = append(w.trace, fmt.Sprintf("store %v n=%d clash=%v expired=%v err=%v", duty, len(set), clash, expired, err != nil))
			rt.Logf("op %d: store %v entries=%d predictedClash=%v expired=%v -> %v", op, duty, len(set), clash, expired, err)
			switch {
			case expired:
				if err == nil {
					rt.Fatalf("Store for expired duty %v succeeded", duty)
				}
			case clash || (possible && err != nil):
				clashSeen = true
				if err == nil {
					rt.Fatalf("CLASH ACCEPTED: Store of conflicting data for %v returned nil (trace %v)", duty, w.trace)
				}
				// learn what was applied
				strict = false
				for _, tch := range touches {
					if _, ok := w.model[tch.k]; ok {
						continue
					}
					if (tch.k.fam == fCon || tch.k.fam == fPro || tch.k.fam == fAgg) && (w.pendingOn(tch.k) || w.maybe[tch.k] != nil) {
						if w.maybe[tch.k] == nil {
							w.maybe[tch.k] = map[string]bool{}
						}
						w.maybe[tch.k][tch.val] = true
						continue
					}
					if v, present := w.probe(tch.k); present {
						if tch.k.fam == fAgg {
							w.model[tch.k] = tch.val
							_ = v
						} else {
							if !w.offered[tch.k][v] {
								rt.Fatalf("after failed store: %v holds a datum never offered: %s", tch.k, v)
							}
							w.model[tch.k] = v
						}
					}
				}
				for _, pt := range pkTouches {
					if _, ok := w.pubkeys[pt.k]; ok {
						continue
					}
					if p, perr := w.db.PubKeyByAttestation(ctx, pt.k.slot, pt.k.comm, pt.k.val); perr == nil {
						w.pubkeys[pt.k] = p
					}
				}
			default:
				if err != nil {
					rt.Fatalf("Store of non-conflicting data for %v failed: %v (trace %v)", duty, err, w.trace)
				}
				for _, tch := range touches {
					if _, ok := w.model[tch.k]; !ok {
						w.model[tch.k] = tch.val
						delete(w.maybe, tch.k) // a store that succeeded with this value: it is the stored one
						if (possible || aliasAmbiguous) && f == fAtt && tch.k.a == 0 {
							if v, present := w.probe(tch.k); present {
								w.model[tch.k] = v
							}
						}
						if blockedBefore[tch.k] {
							blockedThenServed = true
						}
					}
				}
				for _, pt := range pkTouches {
					w.pubkeys[pt.k] = pt.p
				}
				// lazily trimmed duties are deleted at the end of a store that ran to completion: the
				// queries this store answered were answered before that, judge them against the state
				// before the deletion
				w.check(w.trace[len(w.trace)-1]+" (answers before trim)", false)
				for _, d := range w.toDelete {
					for k := range w.model {
						if k.slot == d.Slot && dutyFam(d.Type) == k.fam {
							delete(w.model, k)
						}
					}
					for k := range w.maybe {
						if k.slot == d.Slot && dutyFam(d.Type) == k.fam {
							delete(w.maybe, k)
						}
					}
					if d.Type == core.DutyAttester {
						for k := range w.pubkeys {
							if k.slot == d.Slot {
								delete(w.pubkeys, k)
							}
						}
					}
				}
				w.toDelete = nil
			}
		case c < 17: // cancel a pending query
			if len(w.queries) == 0 {
				continue
			}
			q := w.queries[rapid.IntRange(0, len(w.queries)-1).Draw(rt, "cancelIdx")]
			q.cancelled = true
			q.cancel()
			w.trace = append(w.trace, "cancel")
		case c < 18: // pubkey lookup
			k := pkKey{uint64(rapid.IntRange(1, 2).Draw(rt, "pslot")), uint64(rapid.IntRange(0, 2).Draw(rt, "pcomm")), uint64(rapid.IntRange(1, 3).Draw(rt, "pval"))}
			p, err := w.db.PubKeyByAttestation(ctx, k.slot, k.comm, k.val)
			want, ok := w.pubkeys[k]
			if ok != (err == nil) || (ok && p != want) {
				rt.Fatalf("PubKeyByAttestation(%v) = %v,%v; model %v,%v", k, p, err, want, ok)
			}
			w.trace = append(w.trace, "pubkey")
		default: // expiry
			slot := uint64(rapid.IntRange(1, 2).Draw(rt, "xslot"))
			d := core.Duty{Slot: slot, Type: []core.DutyType{core.DutyAttester, core.DutyProposer, core.DutyAggregator, core.DutySyncContribution}[rapid.IntRange(0, 3).Draw(rt, "xfam")]}
			if dl.IsExpired(d) {
				continue
			}
			dl.Expire(d)
			w.toDelete = append(w.toDelete, d)
			expirySeen = true
			w.trace = append(w.trace, fmt.Sprintf("expire %v", d))
		}
		synctest.Wait()
		w.check(w.trace[len(w.trace)-1], strict)
	}
	// Shutdown last: whatever is still waiting returns, and what it returns is an error or — never — data that was
	// not stored ("a blocking query returns only stored data")
	pendingAtShutdown := 0
	for _, q := range w.queries {
		if !q.cancelled && !finished(q) {
			pendingAtShutdown++
		}
	}
	w.db.Shutdown()
	synctest.Wait()
	for _, q := range w.queries {
		if q.cancelled {
			continue
		}
		if !finished(q) {
			rt.Fatalf("STILL BLOCKED AFTER SHUTDOWN: query %v (trace %v)", q.key, w.trace)
		}
		if q.err == nil {
			w.answerOK(q.key, q.val, "at shutdown")
		}
	}
	nontrivial := blockedThenServed || clashSeen || expirySeen
	vstat.Case(strings.Join(w.trace, ";"), nontrivial, cls("blocked_then_served", blockedThenServed), cls("clash_rejected", clashSeen), cls("expiry", expirySeen), cls("queries_pending_at_shutdown", pendingAtShutdown > 0))
	if blockedThenServed && clashSeen && vstat.WantSample("blocked+clash") {
		vstat.Sample("blocked+clash", map[string]any{"ops": w.trace})
	}
}

func dutyFam(t core.DutyType) fam {
	switch t {
	case core.DutyAttester:
		return fAtt
	case core.DutyProposer:
		return fPro
	case core.DutyAggregator:
		return fAgg
	default:
		return fCon
	}
}

func cls(name string, on bool) string {
	if on {
		return name
	}
	return ""
}

// TestC06RealDeadliner runs the store behind the production core.NewDeadliner on the bubble's
// virtual clock: "data for expired duties is refused" must hold for the real pairing, where the
// store trusts the status the deadliner reports at the moment of the call (also after idle periods).
func TestC06RealDeadliner(t *testing.T) {
	vstat.Rule("C06", rule)
	rapid.Check(t, func(rt *rapid.T) {
		rapid.SyncTest(rt, func(rt *rapid.T) {
			ctx, cancel := context.WithCancel(context.Background())
			base := time.Now()
			const unit = time.Second
			deadlineOf := func(d core.Duty) (time.Time, bool) { return base.Add(time.Duration(d.Slot) * 4 * unit), true }
			dl := core.NewDeadliner(ctx, "verif", deadlineOf)
			db := dutydb.NewMemDB(dl)
			type q struct {
				slot uint64
				done chan struct{}
				err  error
			}
			var queries []*q
			defer func() {
				cancel()
				for _, x := range queries {
					<-x.done
				}
				synctest.Wait()
			}()
			stored := map[uint64]bool{}
			var trace []string
			lateRefused, idleThenLate := false, false
			idle := false
			nOps := rapid.IntRange(1, 25).Draw(rt, "nOps")
			for op := 0; op < nOps; op++ {
				switch rapid.IntRange(0, 9).Draw(rt, "op") {
				case 0, 1, 2, 3: // time passes (possibly a long idle period with no deadliner event)
					d := time.Duration(rapid.IntRange(1, 9).Draw(rt, "halfUnits")) * unit / 2
					if rapid.IntRange(0, 3).Draw(rt, "odd") == 0 {
						d += unit / 4
					}
					time.Sleep(d)
					idle = true
					trace = append(trace, fmt.Sprintf("sleep %v", d))
				case 4, 5: // blocking query
					slot := uint64(rapid.IntRange(1, 4).Draw(rt, "qslot"))
					x := &q{slot: slot, done: make(chan struct{})}
					queries = append(queries, x)
					go func() {
						defer close(x.done)
						_, x.err = db.AwaitAttestation(ctx, slot, 1)
					}()
					trace = append(trace, fmt.Sprintf("await %d", slot))
				default: // store
					slot := uint64(rapid.IntRange(1, 4).Draw(rt, "slot"))
					duty := core.Duty{Slot: slot, Type: core.DutyAttester}
					dline, _ := deadlineOf(duty)
					now := time.Now()
					d := attData(slot, 1, 'a')
					set := core.UnsignedDataSet{pk(1): core.AttestationData{Data: d, Duty: eth2v1.AttesterDuty{PubKey: eth2pk(pk(1)), Slot: eth2p0.Slot(slot), ValidatorIndex: 1, CommitteeIndex: 1, CommitteeLength: 8, CommitteesAtSlot: 3}}}
					err := db.Store(ctx, duty, set)
					synctest.Wait()
					trace = append(trace, fmt.Sprintf("store %d at +%v (deadline +%v) err=%v", slot, now.Sub(base), dline.Sub(base), err != nil))
					switch {
					case now.After(dline):
						if err == nil {
							rt.Fatalf("EXPIRED ACCEPTED: Store for duty %v at +%v, after its deadline +%v, succeeded (trace %v)", duty, now.Sub(base), dline.Sub(base), trace)
						}
						lateRefused = true
						if idle {
							idleThenLate = true
						}
					case now.Before(dline):
						if err != nil {
							rt.Fatalf("store before the deadline refused: %v (trace %v)", err, trace)
						}
						stored[slot] = true
					default:
						if err == nil {
							stored[slot] = true
						}
					}
					idle = false
				}
				synctest.Wait()
				// a query may only have returned if its key was stored by a successful store
				var still []*q
				for _, x := range queries {
					select {
					case <-x.done:
						if x.err != nil {
							rt.Fatalf("query for slot %d failed: %v", x.slot, x.err)
						}
						if !stored[x.slot] {
							rt.Fatalf("EXPIRED SERVED: a query for slot %d was answered although every store for it was after the deadline (trace %v)", x.slot, trace)
						}
					default:
						if stored[x.slot] && time.Now().Before(base.Add(time.Duration(x.slot)*4*unit)) {
							rt.Fatalf("BLOCKED: query for slot %d still waits although it was stored before the deadline (trace %v)", x.slot, trace)
						}
						still = append(still, x)
					}
				}
				queries = still
			}
			vstat.Case("real:"+strings.Join(trace, ";"), lateRefused, cls("real_deadliner", true), cls("late_store_refused", lateRefused), cls("late_store_after_idle", idleThenLate))
		})
	})
}

// TestC06ExpiryBurst: the duty store drains the deadliner's expiry channel only while it stores. After an
// idle period in which more duties expired than that channel buffers, the next store and the queries for
// its keys must still complete ("returns promptly once a successful store has provided its key").
func TestC06ExpiryBurst(t *testing.T) {
	vstat.Rule("C06", "expiry burst: production deadliner + duty store on virtual time; 1..30 duties stored and left to expire during an idle period with no store (more than the 10 the expiry channel buffers in most cases), then a store of a fresh duty and a query for it must both complete; non-trivial = more than 10 expiries piled up")
	rapid.Check(t, func(rt *rapid.T) {
		rapid.SyncTest(rt, func(rt *rapid.T) {
			ctx, cancel := context.WithCancel(context.Background())
			defer func() { cancel(); synctest.Wait() }()
			base := time.Now()
			deadlineOf := func(d core.Duty) (time.Time, bool) { return base.Add(time.Duration(d.Slot) * time.Second), true }
			db := dutydb.NewMemDB(core.NewDeadliner(ctx, "verif", deadlineOf))
			n := rapid.IntRange(1, 30).Draw(rt, "expiring")
			mkSet := func(slot uint64) core.UnsignedDataSet {
				d := attData(slot, 1, 'a')
				return core.UnsignedDataSet{pk(1): core.AttestationData{Data: d, Duty: eth2v1.AttesterDuty{PubKey: eth2pk(pk(1)), Slot: eth2p0.Slot(slot), ValidatorIndex: 1, CommitteeIndex: 1, CommitteeLength: 8, CommitteesAtSlot: 3}}}
			}
			for i := 0; i < n; i++ {
				slot := uint64(10 + i)
				if err := db.Store(ctx, core.Duty{Slot: slot, Type: core.DutyAttester}, mkSet(slot)); err != nil {
					rt.Fatalf("store before the deadline refused: %v", err)
				}
			}
			// idle: every deadline passes, nobody stores
			time.Sleep(time.Duration(10+n+rapid.IntRange(1, 20).Draw(rt, "idleExtra")) * time.Second)
			synctest.Wait()
			fresh := uint64(1000)
			stored := make(chan error, 1)
			go func() { stored <- db.Store(ctx, core.Duty{Slot: fresh, Type: core.DutyAttester}, mkSet(fresh)) }()
			synctest.Wait()
			select {
			case err := <-stored:
				if err != nil {
					rt.Fatalf("store of a fresh duty after %d expiries failed: %v", n, err)
				}
			default:
				rt.Fatalf("STORE HANGS: after %d duties expired during an idle period the next Store does not return (everything is blocked)", n)
			}
			got := make(chan error, 1)
			go func() { _, err := db.AwaitAttestation(ctx, fresh, 1); got <- err }()
			synctest.Wait()
			select {
			case err := <-got:
				if err != nil {
					rt.Fatalf("query for the stored key failed: %v", err)
				}
			default:
				rt.Fatalf("BLOCKED: the query for a key a successful store provided does not return after %d expiries piled up", n)
			}
			vstat.Case(fmt.Sprintf("burst/%d", n), n > 10, "expiry_burst", cls("expiry_burst_over_buffer", n > 10))
		})
	})
}
