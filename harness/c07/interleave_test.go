package c07

import (
	"context"
	"fmt"
	"sort"
	"testing"
	"time"

	"pgregory.net/rapid"

	"github.com/obolnetwork/charon/core"
	"github.com/obolnetwork/charon/core/parsigdb"

	"verifharness/fakes"
	"verifharness/vstat"
)

// gate lets the harness run another store call at an exact point of a store call that is under way: the
// partial signatures of the key under test are wrapped so that the k-th signing-root computation of the
// threshold evaluation (which the store performs outside its lock, on the snapshot it took under the lock)
// first performs the interfering call. That is the interleaving "a second caller gets in between the first
// caller's insertion and its threshold evaluation", placed deterministically instead of hoped for.
type gate struct {
	armed bool
	count int
	at    int
	fn    func()
	fired bool
}

type gated struct {
	core.SignedData
	g *gate
}

func (d gated) MessageRoot() ([32]byte, error) {
	if d.g.armed {
		if d.g.count == d.g.at {
			d.g.armed = false
			d.g.fired = true
			d.g.fn()
		}
		d.g.count++
	}
	return d.SignedData.MessageRoot()
}

func (d gated) Clone() (core.SignedData, error) {
	c, err := d.SignedData.Clone()
	if err != nil {
		return nil, err
	}
	return gated{c, d.g}, nil
}

func (d gated) SetSignature(s core.Signature) (core.SignedData, error) {
	c, err := d.SignedData.SetSignature(s)
	if err != nil {
		return nil, err
	}
	return gated{c, d.g}, nil
}

// TestC07Interleave: the store call that completes a validator's threshold is interrupted, between its insertion
// and the end of its threshold evaluation, by another call: the eviction of one of the key's partials (a share
// that files its 11th never-expiring duty), another share for the same key (same or other root), or a duplicate.
// Whatever happens, aggregation for the key is triggered exactly once by the completing call, with exactly the t
// distinct shares over the one root that the store held when the completing share was inserted.
func TestC07Interleave(t *testing.T) {
	vstat.Rule("C07", "interleave: the call that completes a threshold is interrupted between its insertion and the end of its threshold evaluation (at a drawn signing-root computation) by another store call: eviction of one of the key's partials through the per-share cap of never-expiring duties, another share for the key (same / other root), a duplicate; non-trivial = the interfering call ran")
	rapid.Check(t, func(rt *rapid.T) {
		n := rapid.IntRange(3, 7).Draw(rt, "n")
		thr := (2*n + 2) / 3
		exemptKind := rapid.IntRange(0, 2).Draw(rt, "exemptDuty") != 0
		typ := core.DutyExit
		if !exemptKind {
			typ = rapid.SampledFrom([]core.DutyType{core.DutyRandao, core.DutySyncMessage}).Draw(rt, "dutyType")
		}
		pub := pubkeys[0]
		keyDuty := core.Duty{Slot: 100, Type: typ}
		dl := fakes.NewDeadliner(core.DutyExit, core.DutyBuilderRegistration)
		db := parsigdb.NewMemDB(thr, dl, parsigdb.NewMemDBMetadata(12, time.Now()))
		ctx := context.Background()

		var trig []map[core.PubKey][]core.ParSignedData
		var trigDuty []core.Duty
		db.SubscribeThreshold(func(_ context.Context, d core.Duty, set map[core.PubKey][]core.ParSignedData) error {
			trig = append(trig, set)
			trigDuty = append(trigDuty, d)
			return nil
		})

		g := &gate{}
		wrap := func(p core.ParSignedData) core.ParSignedData {
			p.SignedData = gated{p.SignedData, g}
			return p
		}
		store := func(d core.Duty, share, variant int, gatedValue bool, what string) {
			p, _ := mk(typ, d.Slot, variant, share, 0, 0)
			if gatedValue {
				p = wrap(p)
			}
			if err := db.StoreExternal(ctx, d, core.ParSignedDataSet{pub: p}); err != nil {
				rt.Fatalf("UNEXPECTED ERROR: %s: share %d duty %v: %v", what, share, d, err)
			}
		}

		// t-1 distinct shares over the majority root are in the store for the key
		perm := rapid.Permutation(seqInts(1, n)).Draw(rt, "shareOrder")
		present := perm[:thr-1]
		completing := perm[thr-1]
		rest := perm[thr:]
		for _, s := range present {
			store(keyDuty, s, 1, true, "pre-store")
		}
		// for never-expiring duties: one of the present shares has filed nine more distinct duties, the key's is its oldest
		evictShare := present[rapid.IntRange(0, len(present)-1).Draw(rt, "evictShare")]
		if exemptKind {
			for k := 1; k <= 9; k++ {
				store(core.Duty{Slot: 100 + uint64(k), Type: typ}, evictShare, 1, false, "older duties of the share")
			}
		}
		if len(trig) != 0 {
			rt.Fatalf("TRIGGER COUNT: triggered %d times with %d of %d shares", len(trig), thr-1, thr)
		}

		// the interfering call
		var ops []string
		if exemptKind {
			ops = append(ops, "evict")
		}
		if len(rest) > 0 {
			ops = append(ops, "other_share_same_root", "other_share_other_root")
		}
		ops = append(ops, "duplicate_of_a_present_share", "none")
		op := rapid.SampledFrom(ops).Draw(rt, "interference")
		g.at = rapid.IntRange(0, thr-1).Draw(rt, "atRootComputation")
		g.fn = func() {
			switch op {
			case "evict":
				store(core.Duty{Slot: 110, Type: typ}, evictShare, 1, false, "11th duty of the share")
			case "other_share_same_root":
				store(keyDuty, rest[0], 1, true, "another share")
			case "other_share_other_root":
				store(keyDuty, rest[0], 2, true, "another share, other root")
			case "duplicate_of_a_present_share":
				store(keyDuty, present[0], 1, true, "duplicate")
			}
		}
		g.armed = op != "none"
		store(keyDuty, completing, 1, true, "completing share")
		g.armed = false
		if op != "none" && !g.fired {
			panic("HARNESS-ERROR: the interfering call never ran (the store no longer computes signing roots of the snapshot?)")
		}

		// oracle
		want := append(append([]int{}, present...), completing)
		sort.Ints(want)
		count := 0
		for i, set := range trig {
			if trigDuty[i] != keyDuty {
				rt.Fatalf("TRIGGER FOR ANOTHER DUTY: %v (interference %s)", trigDuty[i], op)
			}
			for pk, ps := range set {
				if pk != pub {
					rt.Fatalf("TRIGGER FOR ANOTHER VALIDATOR")
				}
				count++
				var got []int
				roots := map[[32]byte]bool{}
				for _, p := range ps {
					got = append(got, p.ShareIdx)
					r, err := p.MessageRoot()
					if err != nil {
						rt.Fatalf("root: %v", err)
					}
					roots[r] = true
				}
				sort.Ints(got)
				if fmt.Sprint(got) != fmt.Sprint(want) || len(roots) != 1 {
					rt.Fatalf("TRIGGER CONTENT: aggregation was handed shares %v over %d roots, the store held exactly shares %v over one root when share %d completed the threshold (n=%d t=%d, interference %q at root computation %d)", got, len(roots), want, completing, n, thr, op, g.at)
				}
			}
		}
		if count != 1 {
			rt.Fatalf("TRIGGER COUNT: aggregation triggered %d times, want exactly once (n=%d t=%d duty %v, interference %q at root computation %d)", count, n, thr, keyDuty, op, g.at)
		}
		vstat.Case(fmt.Sprintf("interleave/%d/%v/%s/%d/%v", n, typ, op, g.at, perm), op != "none", "interleave", "interleave_op:"+op, cls("interleave_never_expiring_duty", exemptKind))
	})
}

func seqInts(from, to int) []int {
	var s []int
	for i := from; i <= to; i++ {
		s = append(s, i)
	}
	return s
}
