package c07

import (
	"context"
	"fmt"
	"sync"
	"sync/atomic"
	"testing"
	"time"

	"pgregory.net/rapid"

	"github.com/obolnetwork/charon/core"
	"github.com/obolnetwork/charon/core/parsigdb"

	"verifharness/fakes"
	"verifharness/vstat"
)

// TestC07Threads is the real-thread companion of TestC07Model (thorough tier, built with -race): the
// property quantifies over "concurrent interleavings of internal and external batches", which the
// single-threaded model history cannot produce inside the store's critical sections. A drawn plan
// distributes the partial signatures of 1..3 validators (all n shares over one root, optionally one
// share over a minority root, duplicates) over 2..6 goroutines that call StoreInternal / StoreExternal
// at once. Oracle after all callers returned: per validator exactly one threshold trigger iff at least
// t distinct shares signed the majority root, carrying exactly t distinct shares of that root; no call
// returns an error except for the planned equivocation; the race detector stays silent.
func TestC07Threads(t *testing.T) {
	vstat.Rule("C07", "threads: the shares of 1..3 validators (majority root, optional minority-root share, duplicates) split over 2..6 goroutines calling StoreInternal/StoreExternal at once under the race detector; non-trivial = at least two goroutines carry shares of one validator that reaches threshold")
	rapid.Check(t, func(rt *rapid.T) {
		n := rapid.IntRange(3, 7).Draw(rt, "n")
		thr := (2*n + 2) / 3
		nVals := rapid.IntRange(1, 3).Draw(rt, "validators")
		g := rapid.IntRange(2, 6).Draw(rt, "goroutines")
		kind := kinds[rapid.IntRange(0, 2).Draw(rt, "kind")] // randao, sync message, selection
		duty := core.Duty{Slot: 5, Type: kind.typ}
		dl := fakes.NewDeadliner(core.DutyExit, core.DutyBuilderRegistration)
		db := parsigdb.NewMemDB(thr, dl, parsigdb.NewMemDBMetadata(12, time.Now()))
		ctx, cancel := context.WithCancel(context.Background())
		trimDone := make(chan struct{})
		go func() { defer close(trimDone); db.Trim(ctx) }()
		defer func() { cancel(); <-trimDone }()

		var mu sync.Mutex
		trig := map[core.PubKey][][]core.ParSignedData{}
		db.SubscribeThreshold(func(_ context.Context, _ core.Duty, set map[core.PubKey][]core.ParSignedData) error {
			mu.Lock()
			defer mu.Unlock()
			for pk, ps := range set {
				trig[pk] = append(trig[pk], ps)
			}
			return nil
		})
		db.SubscribeInternal(func(context.Context, core.Duty, core.ParSignedDataSet) error { return nil })

		// plan: batches[goroutine] = list of (validator, share, variant)
		type item struct {
			val, share, variant int
		}
		batches := make([][]item, g)
		majority := make([]map[int]bool, nVals)
		spread := false
		for v := 0; v < nVals; v++ {
			majority[v] = map[int]bool{}
			present := rapid.IntRange(1, n).Draw(rt, "sharesPresent")
			minorityShare := 0
			if rapid.IntRange(0, 2).Draw(rt, "minority") == 0 {
				minorityShare = rapid.IntRange(1, present).Draw(rt, "minorityShare")
			}
			gs := map[int]bool{}
			for s := 1; s <= present; s++ {
				variant := 1
				if s == minorityShare {
					variant = 2
				} else {
					majority[v][s] = true
				}
				gi := rapid.IntRange(0, g-1).Draw(rt, "goroutine")
				gs[gi] = true
				batches[gi] = append(batches[gi], item{v, s, variant})
				if rapid.IntRange(0, 5).Draw(rt, "dup") == 0 { // exact duplicate through another goroutine
					dg := rapid.IntRange(0, g-1).Draw(rt, "dupGoroutine")
					batches[dg] = append(batches[dg], item{v, s, variant})
				}
			}
			if len(gs) > 1 && len(majority[v]) >= thr {
				spread = true
			}
		}
		var wg sync.WaitGroup
		start := make(chan struct{})
		errs := make(chan error, 64)
		for gi := 0; gi < g; gi++ {
			internal := gi == 0
			items := batches[gi]
			wg.Add(1)
			go func() {
				defer wg.Done()
				<-start
				// one call per item keeps every share of a goroutine in program order while the goroutines race
				for _, it := range items {
					p, _ := mk(kind.typ, duty.Slot, it.variant, it.share, 0, 0)
					set := core.ParSignedDataSet{pubkeys[it.val]: p}
					var err error
					if internal {
						err = db.StoreInternal(ctx, duty, set)
					} else {
						err = db.StoreExternal(ctx, duty, set)
					}
					if err != nil {
						errs <- fmt.Errorf("store share %d of validator %d: %w", it.share, it.val, err)
					}
				}
			}()
		}
		// heartbeat: tells a wedged store from a starved machine
		var beats int64
		hbStop := make(chan struct{})
		go func() {
			tk := time.NewTicker(10 * time.Millisecond)
			defer tk.Stop()
			for {
				select {
				case <-tk.C:
					atomic.AddInt64(&beats, 1)
				case <-hbStop:
					return
				}
			}
		}()
		close(start)
		fin := make(chan struct{})
		go func() { wg.Wait(); close(fin) }()
		select {
		case <-fin:
			close(hbStop)
		case <-time.After(20 * time.Second):
			close(hbStop)
			if atomic.LoadInt64(&beats) < 700 {
				panic("HARNESS-ERROR: store calls still running after 20 s of wall clock and the machine is starved")
			}
			rt.Fatalf("STORE HANGS: StoreInternal / StoreExternal calls did not return within 20 s although the machine was responsive (n=%d t=%d, %d goroutines)", n, thr, g)
		}
		close(errs)
		for err := range errs {
			rt.Fatalf("UNEXPECTED ERROR: %v", err)
		}
		mu.Lock()
		defer mu.Unlock()
		for v := 0; v < nVals; v++ {
			got := trig[pubkeys[v]]
			want := 0
			if len(majority[v]) >= thr {
				want = 1
			}
			if len(got) != want {
				rt.Fatalf("TRIGGER COUNT: validator %d triggered %d times, want %d (n=%d t=%d, %d majority shares, %d goroutines)", v, len(got), want, n, thr, len(majority[v]), g)
			}
			for _, ps := range got {
				seen := map[int]bool{}
				for _, p := range ps {
					if !majority[v][p.ShareIdx] {
						rt.Fatalf("TRIGGER CONTENT: validator %d triggered with share %d which did not sign the majority root", v, p.ShareIdx)
					}
					if seen[p.ShareIdx] {
						rt.Fatalf("TRIGGER CONTENT: validator %d triggered with share %d twice", v, p.ShareIdx)
					}
					seen[p.ShareIdx] = true
				}
				if len(seen) != thr {
					rt.Fatalf("TRIGGER CONTENT: validator %d triggered with %d shares, threshold %d", v, len(seen), thr)
				}
			}
		}
		vstat.Case(fmt.Sprintf("threads/%d/%d/%d/%v", n, nVals, g, batches), spread, "threads", cls("threads_spread_validator", spread))
	})
}
