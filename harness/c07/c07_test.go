// C07 — partial-signature store triggers aggregation exactly once, on matching shares.
//
// Model-based: production parsigdb.NewMemDB against a reference model that keeps, per (duty,
// validator, subcommittee), the accepted shares and their signing roots.
package c07

import (
	"context"
	"encoding/json"
	"fmt"
	"sort"
	"strings"
	"testing"
	"testing/synctest"
	"time"

	eth2v1 "github.com/attestantio/go-eth2-client/api/v1"
	"github.com/attestantio/go-eth2-client/spec/altair"
	eth2p0 "github.com/attestantio/go-eth2-client/spec/phase0"
	"pgregory.net/rapid"

	"github.com/obolnetwork/charon/core"
	"github.com/obolnetwork/charon/core/parsigdb"

	"verifharness/fakes"
	"verifharness/vstat"
)

func TestMain(m *testing.M) { vstat.Main(m) }

const rule = "history of StoreInternal/StoreExternal batches (1..3 validators, shares 1..n, 2-3 signing-root variants, exact duplicates, equivocating shares (other root or other signature bytes), minority roots before/after the majority completes, batches with a rejected entry, expired duties, Trim) against parsigdb.NewMemDB(t) with 2t>n; " +
	"reference model per (duty, validator, subcommittee): trigger exactly when a newly accepted share makes its own root group reach t, with exactly that group; " +
	"non-trivial = >=1 trigger and one of {minority root present, rejected entry in a batch, duplicate, more than t matching shares}; distinct by the normalised op trace"

var pubkeys = []core.PubKey{pk(1), pk(2), pk(3)}

func pk(b byte) core.PubKey {
	raw := make([]byte, 48)
	raw[0] = b
	p, err := core.PubKeyFromBytes(raw)
	if err != nil {
		panic(err)
	}
	return p
}

func sig(share, variant, salt int) eth2p0.BLSSignature {
	var s eth2p0.BLSSignature
	s[0], s[1], s[2] = byte(share), byte(variant), byte(salt)
	return s
}

type dutyKind struct {
	typ    core.DutyType
	exempt bool
}

var kinds = []dutyKind{
	{core.DutyRandao, false}, {core.DutySyncMessage, false}, {core.DutyPrepareSyncContribution, false},
	{core.DutyExit, true}, {core.DutySignature, false},
}

// mk builds the partial for (duty type, root variant, share); subcomm only matters for the
// subcommittee-keyed sync duties. It returns the data and the grouping root the model uses.
func mk(typ core.DutyType, slot uint64, variant, share, salt, subcomm int) (core.ParSignedData, string) {
	switch typ {
	case core.DutyRandao:
		return core.NewPartialSignedRandao(eth2p0.Epoch(variant), sig(share, variant, salt), share), fmt.Sprint("v", variant)
	case core.DutySyncMessage:
		var root eth2p0.Root
		root[0] = byte(variant)
		return core.NewPartialSignedSyncMessage(&altair.SyncCommitteeMessage{Slot: eth2p0.Slot(slot), BeaconBlockRoot: root, ValidatorIndex: 7, Signature: sig(share, variant, salt)}, share), fmt.Sprint("v", variant)
	case core.DutyPrepareSyncContribution:
		return core.NewPartialSignedSyncCommitteeSelection(&eth2v1.SyncCommitteeSelection{ValidatorIndex: 7, Slot: eth2p0.Slot(slot + uint64(variant)*1000), SubcommitteeIndex: uint64(subcomm), SelectionProof: sig(share, variant, salt)}, share), fmt.Sprint("v", variant)
	case core.DutyExit:
		return core.NewPartialSignedVoluntaryExit(&eth2p0.SignedVoluntaryExit{Message: &eth2p0.VoluntaryExit{Epoch: eth2p0.Epoch(variant), ValidatorIndex: 7}, Signature: sig(share, variant, salt)}, share), fmt.Sprint("v", variant)
	case core.DutySignature:
		// Plain signatures are grouped by count only.
		return core.NewPartialSignature(core.SigFromETH2(sig(share, variant, salt)), share), "any"
	}
	panic("HARNESS-ERROR: unknown duty type")
}

type mkey struct {
	duty    core.Duty
	pubkey  core.PubKey
	subcomm int
}

type mentry struct {
	share int
	root  string
	json  string
}

type trigger struct {
	duty core.Duty
	set  map[core.PubKey][]core.ParSignedData
}

func TestC07Model(t *testing.T) {
	vstat.Rule("C07", rule)
	vstat.Assume("threshold t with 2t>n as every cluster has (so at most one root group can reach t); the per-share cap of 10 entries for never-expiring duties is modelled (the 11th evicts that share's oldest partial only)")
	rapid.Check(t, func(rt *rapid.T) {
		rapid.SyncTest(rt, func(rt *rapid.T) { runCase(rt) })
	})
}

func runCase(rt *rapid.T) {
	n := rapid.IntRange(3, 7).Draw(rt, "n")
	tmin := n/2 + 1
	thr := rapid.IntRange(tmin, n).Draw(rt, "t")
	if rapid.IntRange(0, 2).Draw(rt, "prodThreshold") != 0 {
		thr = (2*n + 2) / 3 // ceil(2n/3)
	}
	dl := fakes.NewDeadliner(core.DutyExit, core.DutyBuilderRegistration)
	db := parsigdb.NewMemDB(thr, dl, parsigdb.NewMemDBMetadata(12, time.Now()))
	ctx, cancel := context.WithCancel(context.Background())
	trimDone := make(chan struct{})
	go func() { defer close(trimDone); db.Trim(ctx) }()
	defer func() {
		cancel()
		<-trimDone
	}()

	var triggers []trigger
	var internals []core.ParSignedDataSet
	db.SubscribeThreshold(func(_ context.Context, duty core.Duty, set map[core.PubKey][]core.ParSignedData) error {
		triggers = append(triggers, trigger{duty, set})
		return nil
	})
	db.SubscribeInternal(func(_ context.Context, _ core.Duty, set core.ParSignedDataSet) error {
		internals = append(internals, set)
		return nil
	})

	model := map[mkey][]mentry{}
	fired := map[mkey]int{}
	var trace []string
	var anyTrigger, minority, rejectedInBatch, dup, moreThanT bool

	// a few duties
	kind := kinds[rapid.IntRange(0, len(kinds)-1).Draw(rt, "kind")]
	nSlots := rapid.IntRange(1, 2).Draw(rt, "slots")
	nOps := rapid.IntRange(1, 40).Draw(rt, "nOps")
	// never-expiring duties are capped at maxExempt stored entries per (share, validator, type):
	// storing an 11th evicts that share's oldest entry (and only that share's partial).
	const maxExempt = 10
	type exemptKey struct {
		share  int
		pubkey core.PubKey
	}
	exemptLists := map[exemptKey][]mkey{}
	capMode := kind.exempt && rapid.Bool().Draw(rt, "capMode")
	if capMode {
		nSlots = rapid.IntRange(11, 14).Draw(rt, "capSlots")
		nOps = rapid.IntRange(20, 90).Draw(rt, "capOps")
	}
	evictions := 0
	var lagging []core.Duty // expired, expiry not yet emitted
	for op := 0; op < nOps; op++ {
		slot := uint64(rapid.IntRange(1, nSlots).Draw(rt, "slot"))
		duty := core.Duty{Slot: slot, Type: kind.typ}
		if x := rapid.IntRange(0, 59).Draw(rt, "expire?"); x == 1 && !kind.exempt && !dl.IsExpired(duty) {
			// the deadline passes but the trim lags behind (the expiry is emitted later): from now on
			// partials for the duty are dropped although its entries are still there
			dl.MarkExpired(duty)
			lagging = append(lagging, duty)
			trace = append(trace, "expire(trim lags)")
			continue
		} else if x == 2 && len(lagging) > 0 {
			d := lagging[0]
			lagging = lagging[1:]
			dl.Emit(d)
			synctest.Wait()
			for k := range model {
				if k.duty == d {
					delete(model, k)
				}
			}
			trace = append(trace, "late trim")
			continue
		} else if x == 0 && !kind.exempt && !dl.IsExpired(duty) {
			dl.Expire(duty)
			synctest.Wait()
			for k := range model {
				if k.duty == duty {
					delete(model, k)
				}
			}
			trace = append(trace, "expire")
			continue
		}
		internal := rapid.Bool().Draw(rt, "internal")
		nVals := rapid.IntRange(1, 3).Draw(rt, "nVals")
		focusShare := 0
		if capMode && rapid.IntRange(0, 2).Draw(rt, "focus") != 0 {
			nVals = 1
			focusShare = 1 // one share walks through many slots
		}
		set := core.ParSignedDataSet{}
		type exp struct {
			key     mkey
			entry   mentry
			outcome string // accept, dup, mismatch
			fires   bool
			group   []int
		}
		var exps []exp
		perm := rapid.Permutation([]int{0, 1, 2}).Draw(rt, "valPerm")
		for _, vi := range perm[:nVals] {
			pubkey := pubkeys[vi]
			share := rapid.IntRange(1, n).Draw(rt, "share")
			if focusShare != 0 {
				share = focusShare
			}
			variant := rapid.IntRange(1, 3).Draw(rt, "variant")
			if capMode {
				variant = 1
			}
			if variant == 3 && rapid.Bool().Draw(rt, "fewerVariants") {
				variant = 1
			}
			salt := 0
			if rapid.IntRange(0, 9).Draw(rt, "otherSigBytes") == 0 {
				salt = 1
			}
			subcomm := 0
			if core.IsSyncSubcommitteeDuty(kind.typ) {
				subcomm = rapid.IntRange(0, 1).Draw(rt, "subcomm")
			}
			data, root := mk(kind.typ, slot, variant, share, salt, subcomm)
			set[pubkey] = data
			js, err := json.Marshal(data)
			if err != nil {
				rt.Fatalf("HARNESS-ERROR: marshal: %v", err)
			}
			k := mkey{duty, pubkey, subcomm}
			e := exp{key: k, entry: mentry{share, root, string(js)}, outcome: "accept"}
			for _, old := range model[k] {
				if old.share == share {
					if old.json == string(js) {
						e.outcome = "dup"
					} else {
						e.outcome = "mismatch"
					}
				}
			}
			if e.outcome == "accept" {
				cnt := 1
				grp := []int{share}
				other := false
				for _, old := range model[k] {
					if old.root == root {
						cnt++
						grp = append(grp, old.share)
					} else {
						other = true
					}
				}
				e.fires = cnt == thr
				e.group = grp
				if cnt > thr {
					moreThanT = true
				}
				if other {
					minority = true
				}
			}
			exps = append(exps, e)
		}
		expired := dl.IsExpired(duty)
		nTrigBefore, nIntBefore := len(triggers), len(internals)
		var err error
		if internal {
			err = db.StoreInternal(ctx, duty, set)
		} else {
			err = db.StoreExternal(ctx, duty, set)
		}
		synctest.Wait()
		desc := []string{}
		for _, e := range exps {
			desc = append(desc, fmt.Sprintf("%s(s%d,%s)", e.outcome, e.entry.share, e.entry.root))
		}
		trace = append(trace, fmt.Sprintf("store[%s]", strings.Join(desc, " ")))
		rt.Logf("op %d duty %v internal=%v expired=%v: %v -> err=%v", op, duty, internal, expired, desc, err)

		if expired {
			if err != nil {
				rt.Fatalf("store for expired duty returned %v", err)
			}
			if len(triggers) != nTrigBefore {
				rt.Fatalf("store for expired duty triggered aggregation")
			}
			continue
		}
		wantErr := false
		wantFire := map[core.PubKey][]int{}
		for _, e := range exps {
			switch e.outcome {
			case "mismatch":
				wantErr = true
				if len(exps) > 1 {
					rejectedInBatch = true
				}
			case "dup":
				dup = true
			case "accept":
				model[e.key] = append(model[e.key], e.entry)
				if e.fires {
					wantFire[e.key.pubkey] = e.group
				}
				if kind.exempt {
					ek := exemptKey{e.entry.share, e.key.pubkey}
					exemptLists[ek] = append(exemptLists[ek], e.key)
					if len(exemptLists[ek]) > maxExempt {
						old := exemptLists[ek][0]
						exemptLists[ek] = exemptLists[ek][1:]
						var keep []mentry
						for _, x := range model[old] {
							if x.share != e.entry.share {
								keep = append(keep, x)
							}
						}
						if len(keep) == 0 {
							delete(model, old)
						} else {
							model[old] = keep
						}
						delete(fired, old) // the store forgot that share for this duty: completing the group again is a fresh completion
						evictions++
					}
				}
			}
		}
		if wantErr != (err != nil) {
			rt.Fatalf("store returned err=%v, model expects error=%v (%v)", err, wantErr, desc)
		}
		// triggers of this call
		got := map[core.PubKey][]core.ParSignedData{}
		for _, tr := range triggers[nTrigBefore:] {
			if tr.duty != duty {
				rt.Fatalf("trigger for duty %v during store of %v", tr.duty, duty)
			}
			for p, sigs := range tr.set {
				if _, twice := got[p]; twice {
					rt.Fatalf("validator %v triggered twice by one store", p)
				}
				got[p] = sigs
			}
		}
		for p, grp := range wantFire {
			sigs, ok := got[p]
			if !ok {
				rt.Fatalf("MISSING TRIGGER: validator %v reached threshold %d (shares %v) but aggregation was not triggered (batch %v, err=%v)", p, thr, grp, desc, err)
			}
			checkGroup(rt, kind.typ, thr, sigs, grp, model, duty, p)
			anyTrigger = true
		}
		for p, sigs := range got {
			if _, ok := wantFire[p]; !ok {
				var shares []int
				for _, s := range sigs {
					shares = append(shares, s.ShareIdx)
				}
				rt.Fatalf("SPURIOUS TRIGGER: validator %v triggered with shares %v although no root group reached %d just now (batch %v)", p, shares, thr, desc)
			}
		}
		for _, e := range exps {
			if e.outcome == "accept" && e.fires {
				fired[e.key]++
				if fired[e.key] > 1 {
					rt.Fatalf("validator key %v triggered %d times", e.key, fired[e.key])
				}
			}
		}
		if internal && err == nil {
			if len(internals) != nIntBefore+1 {
				rt.Fatalf("internal subscriber called %d times for one successful StoreInternal", len(internals)-nIntBefore)
			}
			gotSet := internals[len(internals)-1]
			if len(gotSet) != len(set) {
				rt.Fatalf("internal subscriber got %d entries, stored %d", len(gotSet), len(set))
			}
			for p, d := range set {
				a, _ := json.Marshal(d)
				b, _ := json.Marshal(gotSet[p])
				if string(a) != string(b) {
					rt.Fatalf("internal subscriber got different data for %v", p)
				}
			}
		} else if !internal && len(internals) != nIntBefore {
			rt.Fatalf("internal subscriber called by StoreExternal")
		}
	}

	nontrivial := anyTrigger && (minority || rejectedInBatch || dup || moreThanT)
	vstat.Case(fmt.Sprintf("%d/%d/%v/%s", n, thr, kind.typ, strings.Join(trace, ";")), nontrivial,
		cls("trigger", anyTrigger), cls("minority_root", minority), cls("rejected_in_batch", rejectedInBatch), cls("duplicate", dup), cls("more_than_t", moreThanT), cls("exempt_cap_eviction", evictions > 0), "type="+kind.typ.String())
	if nontrivial && minority && rejectedInBatch && vstat.WantSample("minority+rejected") {
		vstat.Sample("minority+rejected", map[string]any{"n": n, "t": thr, "duty_type": kind.typ.String(), "ops": trace})
	} else if nontrivial && vstat.WantSample("nontrivial") {
		vstat.Sample("nontrivial", map[string]any{"n": n, "t": thr, "duty_type": kind.typ.String(), "ops": trace})
	}
}

func checkGroup(rt *rapid.T, typ core.DutyType, thr int, sigs []core.ParSignedData, want []int, model map[mkey][]mentry, duty core.Duty, p core.PubKey) {
	if len(sigs) != thr {
		rt.Fatalf("trigger for %v handed %d partials, threshold %d", p, len(sigs), thr)
	}
	var got []int
	seen := map[int]bool{}
	var root0 [32]byte
	for i, s := range sigs {
		if seen[s.ShareIdx] {
			rt.Fatalf("trigger for %v repeats share %d", p, s.ShareIdx)
		}
		seen[s.ShareIdx] = true
		got = append(got, s.ShareIdx)
		if typ != core.DutySignature {
			r, err := s.MessageRoot()
			if err != nil {
				rt.Fatalf("HARNESS-ERROR: root: %v", err)
			}
			if i == 0 {
				root0 = r
			} else if r != root0 {
				rt.Fatalf("trigger for %v mixes signing roots", p)
			}
		}
		// content must be what was accepted
		js, _ := json.Marshal(s)
		found := false
		for k, es := range model {
			if k.duty != duty || k.pubkey != p {
				continue
			}
			for _, e := range es {
				if e.share == s.ShareIdx && e.json == string(js) {
					found = true
				}
			}
		}
		if !found {
			rt.Fatalf("trigger for %v contains a partial (share %d) that was never accepted in this form", p, s.ShareIdx)
		}
	}
	sort.Ints(got)
	w := append([]int{}, want...)
	sort.Ints(w)
	if fmt.Sprint(got) != fmt.Sprint(w) {
		rt.Fatalf("trigger for %v handed shares %v, the matching group is %v", p, got, w)
	}
}

func cls(name string, on bool) string {
	if on {
		return name
	}
	return ""
}

// TestC07Regression replays the two shrunk failures found on the pinned tree before the fix
// (known_findings.json, status fixed) without going through rapid.
func TestC07Regression(t *testing.T) {
	vstat.Rule("C07", rule)
	ctx := context.Background()
	collect := func(db *parsigdb.MemDB) *[]map[core.PubKey][]core.ParSignedData {
		var out []map[core.PubKey][]core.ParSignedData
		db.SubscribeThreshold(func(_ context.Context, _ core.Duty, set map[core.PubKey][]core.ParSignedData) error {
			out = append(out, set)
			return nil
		})
		return &out
	}
	duty := core.Duty{Slot: 1, Type: core.DutyRandao}

	// (1) minority root after the majority completed must not trigger again
	db := parsigdb.NewMemDB(3, fakes.NewDeadliner(), parsigdb.NewMemDBMetadata(12, time.Now()))
	trig := collect(db)
	for share := 1; share <= 3; share++ {
		d, _ := mk(core.DutyRandao, 1, 1, share, 0, 0)
		if err := db.StoreExternal(ctx, duty, core.ParSignedDataSet{pubkeys[0]: d}); err != nil {
			t.Fatal(err)
		}
	}
	d, _ := mk(core.DutyRandao, 1, 2, 4, 0, 0)
	if err := db.StoreExternal(ctx, duty, core.ParSignedDataSet{pubkeys[0]: d}); err != nil {
		t.Fatal(err)
	}
	if len(*trig) != 1 {
		t.Fatalf("minority-root share after threshold: %d triggers, want 1", len(*trig))
	}
	vstat.Case("regression-minority-after-threshold", true, "regression")

	// (2) a rejected entry must not lose the trigger of another validator of the batch
	for attempt := 0; attempt < 20; attempt++ { // map order inside the store is random
		db = parsigdb.NewMemDB(2, fakes.NewDeadliner(), parsigdb.NewMemDBMetadata(12, time.Now()))
		trig = collect(db)
		a1, _ := mk(core.DutyRandao, 1, 1, 1, 0, 0)
		b1, _ := mk(core.DutyRandao, 1, 1, 1, 0, 0)
		if err := db.StoreExternal(ctx, duty, core.ParSignedDataSet{pubkeys[0]: a1, pubkeys[1]: b1}); err != nil {
			t.Fatal(err)
		}
		aBad, _ := mk(core.DutyRandao, 1, 2, 1, 0, 0) // share 1 equivocates for validator 0
		b2, _ := mk(core.DutyRandao, 1, 1, 2, 0, 0)   // share 2 completes validator 1
		err := db.StoreExternal(ctx, duty, core.ParSignedDataSet{pubkeys[0]: aBad, pubkeys[1]: b2})
		if err == nil {
			t.Fatalf("equivocating share accepted")
		}
		if len(*trig) != 1 || len((*trig)[0][pubkeys[1]]) != 2 {
			t.Fatalf("batch with a rejected entry: validator 1 reached threshold but got %d triggers", len(*trig))
		}
	}
	vstat.Case("regression-rejected-entry-in-batch", true, "regression")
}
