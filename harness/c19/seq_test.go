package c19

import (
	"bytes"
	"context"
	"fmt"
	"io"
	"net/http"
	"os"
	"runtime"
	"strings"
	"sync/atomic"
	"testing"
	"testing/synctest"
	"time"

	eth2api "github.com/attestantio/go-eth2-client/api"
	eth2spec "github.com/attestantio/go-eth2-client/spec"
	"pgregory.net/rapid"

	"github.com/obolnetwork/charon/app/eth2wrap"

	"verifharness/vstat"
)

// Proxy plays the node's scripted outcome for a proxied HTTP request: a node that "succeeds" answers 200
// only if the body it can read is exactly the body the caller sent (each node must get its own copy).
func (n *node) Proxy(ctx context.Context, req *http.Request) (*http.Response, error) {
	var got []byte
	if req.Body != nil {
		b, err := io.ReadAll(req.Body)
		if err != nil {
			return nil, err
		}
		got = b
	}
	n.mu.Lock()
	n.lastBody = string(got)
	n.mu.Unlock()
	if err := n.do(ctx); err != nil {
		return nil, err
	}
	return &http.Response{StatusCode: http.StatusOK, Header: http.Header{"X-Node": []string{n.name}, "X-Body-Seen": []string{string(got)}}, Body: io.NopCloser(strings.NewReader(n.name))}, nil
}

// TestC19Sequence: one multi-client instance serves a drawn sequence of calls, with drawn pauses of up to
// two minutes of virtual time between them (the client keeps per-node statistics that are reset every
// minute) and freshly drawn node outcomes per call; proxied requests carry a body. Oracle per call: if a
// primary succeeds the call succeeds at the earliest primary success with that node's answer (and, for
// proxied requests, the answering node saw the caller's body); if every primary fails with an
// unavailability error and a fallback succeeds, the call succeeds; no call may hang.
func TestC19Sequence(t *testing.T) {
	vstat.Rule("C19", "sequences: one Instrument()ed multi client, 2..6 calls (NodeVersion, AttestationData, SubmitAttestations, Proxy with a body) with 0..120 s of virtual time between them and node outcomes (ok / error class, latency) redrawn per call; oracle per call as for single calls (no hangs are scripted, so every call must return); non-trivial = a pause longer than the one-minute statistics period or a proxied request answered by a node that was not the first to read")
	stopDog := startDeadlockWatchdog()
	defer stopDog()
	rapid.Check(t, func(rt *rapid.T) {
		caseStarted.Store(time.Now().UnixNano())
		defer caseStarted.Store(0)
		rapid.SyncTest(rt, func(rt *rapid.T) { runSequence(rt) })
	})
}

var caseStarted atomic.Int64

// startDeadlockWatchdog runs outside the bubble on the wall clock. A goroutine that waits for a mutex is
// not "durably blocked" for synctest, so a call that dead-locks inside the client freezes virtual time and
// the case would simply never end. The watchdog does not judge by time alone: a case that has been running
// for 25 s of wall clock (cases take milliseconds) is reported as a violation only if, in two stack dumps
// taken 3 s apart, a goroutine sits in a mutex Lock inside the eth2wrap package; otherwise nothing is
// reported and the driver's timeout makes the run inconclusive.
func startDeadlockWatchdog() func() {
	stop := make(chan struct{})
	go func() {
		tk := time.NewTicker(time.Second)
		defer tk.Stop()
		for {
			select {
			case <-stop:
				return
			case <-tk.C:
			}
			st := caseStarted.Load()
			if st == 0 || time.Since(time.Unix(0, st)) < 25*time.Second {
				continue
			}
			first := lockedInEth2wrap()
			time.Sleep(3 * time.Second)
			if caseStarted.Load() != st {
				continue
			}
			second := lockedInEth2wrap()
			if first != "" && second != "" {
				fmt.Printf("DEADLOCK: a call into the multi client never returns: a goroutine has been waiting for a lock inside eth2wrap for seconds while nothing else runs\n%s\n", second)
				fmt.Println("--- FAIL: TestC19Sequence (deadlock)")
				vstat.Flush()
				os.Exit(1)
			}
		}
	}()
	return func() { close(stop) }
}

// lockedInEth2wrap returns the stack of a goroutine that waits for a sync.Mutex / RWMutex with an eth2wrap
// frame below it ("" if there is none).
func lockedInEth2wrap() string {
	buf := make([]byte, 4<<20)
	buf = buf[:runtime.Stack(buf, true)]
	for _, g := range strings.Split(string(buf), "\n\n") {
		if (strings.Contains(g, "sync.(*Mutex).Lock") || strings.Contains(g, "sync.(*RWMutex).Lock") || strings.Contains(g, "sync.(*RWMutex).RLock")) && strings.Contains(g, "charon/app/eth2wrap.") {
			return g
		}
	}
	return ""
}

func runSequence(rt *rapid.T) {
	stop := make(chan struct{})
	defer close(stop)
	var all []*node
	mk := func(prefix string, count int) ([]eth2wrap.Client, []*node) {
		var cs []eth2wrap.Client
		var ns []*node
		for i := 0; i < count; i++ {
			n := &node{name: fmt.Sprintf("%s%d", prefix, i), stop: stop}
			cs, ns, all = append(cs, n), append(ns, n), append(all, n)
		}
		return cs, ns
	}
	pc, primaries := mk("primary", rapid.IntRange(1, 3).Draw(rt, "primaries"))
	fc, fallbacks := mk("fallback", rapid.IntRange(0, 2).Draw(rt, "fallbacks"))
	cl, err := eth2wrap.Instrument(pc, fc)
	if err != nil {
		rt.Fatalf("HARNESS-ERROR: %v", err)
	}
	nCalls := rapid.IntRange(2, 6).Draw(rt, "calls")
	longPause, proxyLate := false, false
	var trace []string
	for c := 0; c < nCalls; c++ {
		if c > 0 {
			pause := time.Duration(rapid.IntRange(0, 120).Draw(rt, "pauseSec")) * time.Second
			if pause > time.Minute {
				longPause = true
			}
			time.Sleep(pause)
			trace = append(trace, fmt.Sprintf("pause(%v)", pause))
		}
		for i, n := range all {
			o := outcome{lat: time.Duration(rapid.IntRange(0, 40).Draw(rt, "latency"))*50*time.Millisecond + time.Duration(i)*time.Millisecond}
			if rapid.IntRange(0, 9).Draw(rt, "outcome") < 5 {
				o.kind = "ok"
			} else {
				o.kind = "err:" + errClasses[rapid.IntRange(0, len(errClasses)-1).Draw(rt, "class")]
			}
			n.out = o
			n.calls = 0
			n.lastBody = ""
		}
		call := rapid.SampledFrom([]string{"NodeVersion", "AttestationData", "SubmitAttestations", "Proxy", "Proxy"}).Draw(rt, "call")
		body := fmt.Sprintf("body-%d-%d", c, rapid.IntRange(0, 1000).Draw(rt, "body"))
		ctx, cancel := context.WithCancel(context.Background())
		t0 := time.Now()
		resCh := make(chan result, 1)
		go func() {
			var r result
			switch call {
			case "NodeVersion":
				resp, err := cl.NodeVersion(ctx, &eth2api.NodeVersionOpts{})
				r.err = err
				if err == nil {
					r.val = resp.Data
				}
			case "AttestationData":
				resp, err := cl.AttestationData(ctx, &eth2api.AttestationDataOpts{})
				r.err = err
				if err == nil {
					r.val = strings.TrimRight(string(resp.Data.BeaconBlockRoot[:]), "\x00")
				}
			case "SubmitAttestations":
				r.err = cl.SubmitAttestations(ctx, &eth2api.SubmitAttestationsOpts{Attestations: []*eth2spec.VersionedAttestation{}})
			default:
				req, _ := http.NewRequestWithContext(ctx, http.MethodPost, "http://beacon/eth/v1/whatever", bytes.NewReader([]byte(body)))
				resp, err := cl.Proxy(ctx, req)
				r.err = err
				if err == nil {
					r.val = resp.Header.Get("X-Node")
					r.body = resp.Header.Get("X-Body-Seen")
				}
			}
			r.elapsed = time.Since(t0)
			resCh <- r
		}()
		var res *result
		timer := time.NewTimer(30 * time.Second)
		select {
		case r := <-resCh:
			res = &r
		case <-timer.C:
		}
		timer.Stop()
		var script []string
		for _, n := range all {
			script = append(script, fmt.Sprintf("%s:%s@%v", n.name, n.out.kind, n.out.lat))
		}
		desc := fmt.Sprintf("call %d %s %v after %v", c, call, script, trace)
		if res == nil {
			cancel()
			rt.Fatalf("NO ANSWER: call did not return within 30 s of virtual time although every node answers within 2.1 s (%s)", desc)
		}
		cancel()
		synctest.Wait()
		// expected outcome
		var okAt time.Duration
		haveOK := false
		for _, n := range primaries {
			if n.out.kind == "ok" && (!haveOK || n.out.lat < okAt) {
				okAt, haveOK = n.out.lat, true
			}
		}
		allUnavail, lastErr := true, time.Duration(0)
		for _, n := range primaries {
			if n.out.kind == "ok" || !unavailable[strings.TrimPrefix(n.out.kind, "err:")] {
				allUnavail = false
			}
			if n.out.lat > lastErr {
				lastErr = n.out.lat
			}
		}
		switch {
		case haveOK:
			if res.err != nil {
				rt.Fatalf("FAILED DESPITE SUCCESS: a primary succeeds at +%v but the call returned %v (%s)", okAt, res.err, desc)
			}
			if res.elapsed != okAt {
				rt.Fatalf("WAITED: earliest primary success at +%v, the call returned at +%v (%s)", okAt, res.elapsed, desc)
			}
		case allUnavail && len(fallbacks) > 0:
			fOK := false
			for _, n := range fallbacks {
				if n.out.kind == "ok" {
					fOK = true
				}
			}
			if fOK && res.err != nil {
				rt.Fatalf("FAILED DESPITE FALLBACK SUCCESS: every primary is unavailable, a fallback succeeds, got %v (%s)", res.err, desc)
			}
		}
		if res.err == nil && call != "SubmitAttestations" {
			var answering *node
			for _, n := range all {
				if n.name == res.val && n.out.kind == "ok" {
					answering = n
				}
			}
			if answering == nil {
				rt.Fatalf("WRONG VALUE: returned %q which is not a succeeding node's answer (%s)", res.val, desc)
			}
			if call == "Proxy" {
				if res.body != body {
					rt.Fatalf("PROXY BODY: the node whose answer was returned (%s) saw the request body %q, the caller sent %q (%s)", answering.name, res.body, body, desc)
				}
				for _, n := range all {
					if n != answering && n.calls > 0 && n.out.lat < answering.out.lat {
						proxyLate = true
					}
				}
			}
		}
		trace = append(trace, call)
	}
	vstat.Case(strings.Join(trace, ";")+fmt.Sprint(len(primaries), len(fallbacks)), longPause || proxyLate, "sequence", cls("sequence_pause_over_a_minute", longPause), cls("sequence_proxy_answered_by_later_reader", proxyLate))
}
