// C19 — beacon API calls through the multi-node client succeed whenever one configured primary
// node answers, return exactly one node's answer, and do not wait for slower or hung nodes.
package c19

import (
	"context"
	"errors"
	"fmt"
	eth2v1 "github.com/attestantio/go-eth2-client/api/v1"
	"net"
	"os"
	"strings"
	"sync"
	"syscall"
	"testing"
	"testing/synctest"
	"time"

	eth2api "github.com/attestantio/go-eth2-client/api"
	eth2spec "github.com/attestantio/go-eth2-client/spec"
	eth2p0 "github.com/attestantio/go-eth2-client/spec/phase0"
	"pgregory.net/rapid"

	"github.com/obolnetwork/charon/app/eth2wrap"

	"verifharness/vstat"
)

func TestMain(m *testing.M) { vstat.Main(m) }

const rule = "1-4 primaries and 0-3 fallbacks behind eth2wrap.Instrument; per node one scripted outcome: success with its own value, an error of each class (timeout text, syncing, 502/503/504 api error, net.Error, ECONNREFUSED, 400/404/500 api error, generic), hang until its context ends, hard hang; each with a drawn virtual latency; provide-style (NodeVersion, AttestationData) and submit-style (SubmitAttestations) calls; optional caller cancellation at a drawn time; " +
	"oracle: some primary succeeds -> success, exactly one succeeding node's value, at the virtual time of the earliest success; all primaries fail -> no fallback call if none of the errors is of the unavailability class, fallback calls if all are (mixed: either), then the same rule among fallbacks or an error; cancellation with context-respecting nodes returns in the same virtual instant; " +
	"non-trivial = >=2 nodes with different outcome classes, or a hang, or fallbacks consulted; distinct by the outcome script"

type outcome struct {
	kind string // ok, notok (answers without error, but the answer says "not usable": a syncing node), err:<class>, hang_ctx, hang_hard
	form string // how an error is wrapped: bare, wrapped (%w), joined (errors.Join, as the HTTP client library reports request errors)
	lat  time.Duration
}

type node struct {
	eth2wrap.Client // nil
	name            string
	id              int
	out             outcome
	stop            chan struct{}
	mu              sync.Mutex
	calls           int
	lastBody        string
}

func (n *node) Address() string { return n.name }
func (n *node) Name() string    { return n.name }
func (n *node) IsActive() bool  { return true }
func (n *node) IsSynced() bool  { return true }

type netErr struct{}

func (netErr) Error() string   { return "dial tcp: i/o problem" }
func (netErr) Timeout() bool   { return false }
func (netErr) Temporary() bool { return false }

var _ net.Error = netErr{}

var unavailable = map[string]bool{"ctx_deadline_typed": true, "timeout_text": true, "syncing": true, "head_not_verified": true, "api502": true, "api503": true, "api504": true, "neterr": true, "econnrefused": true}
var errClasses = []string{"ctx_deadline_typed", "ctx_canceled_typed", "timeout_text", "syncing", "head_not_verified", "api502", "api503", "api504", "neterr", "econnrefused", "api400", "api404", "api500", "generic"}

func makeErr(class string) error {
	switch class {
	case "ctx_deadline_typed":
		// the node's own request timed out (its HTTP client's deadline), the caller's context is alive
		return fmt.Errorf("failed to call GET endpoint: %w", context.DeadlineExceeded)
	case "ctx_canceled_typed":
		return fmt.Errorf("failed to call GET endpoint: %w", context.Canceled)
	case "timeout_text":
		return errors.New("http request timeout")
	case "syncing":
		return errors.New("beacon node is syncing")
	case "head_not_verified":
		// what an optimistically synced node answers (no "syncing" in the text, status 500)
		return &eth2api.Error{StatusCode: 500, Endpoint: "x", Method: "GET", Data: []byte(`{"code":500,"message":"UNHANDLED_ERROR: BlockProductionError(FailedToLoadState(HeadBlockNotFullyVerified))"}`)}
	case "api502":
		return &eth2api.Error{StatusCode: 502, Endpoint: "x", Method: "GET"}
	case "api503":
		return &eth2api.Error{StatusCode: 503, Endpoint: "x", Method: "GET"}
	case "api504":
		return &eth2api.Error{StatusCode: 504, Endpoint: "x", Method: "GET"}
	case "neterr":
		return netErr{}
	case "econnrefused":
		return &net.OpError{Op: "dial", Net: "tcp", Err: os.NewSyscallError("connect", syscall.ECONNREFUSED)}
	case "api400":
		return &eth2api.Error{StatusCode: 400, Endpoint: "x", Method: "GET"}
	case "api404":
		return &eth2api.Error{StatusCode: 404, Endpoint: "x", Method: "GET"}
	case "api500":
		return &eth2api.Error{StatusCode: 500, Endpoint: "x", Method: "GET"}
	}
	return errors.New("boom")
}

// do plays the node's scripted outcome; latency is context-respecting.
func (n *node) do(ctx context.Context) error {
	n.mu.Lock()
	n.calls++
	n.mu.Unlock()
	if n.out.kind == "hang_hard" {
		<-n.stop
		return errors.New("released")
	}
	t := time.NewTimer(n.out.lat)
	defer t.Stop()
	select {
	case <-t.C:
	case <-ctx.Done():
		return ctx.Err()
	}
	switch {
	case n.out.kind == "ok" || n.out.kind == "notok":
		return nil
	case n.out.kind == "hang_ctx":
		<-ctx.Done()
		return ctx.Err()
	}
	base := makeErr(strings.TrimPrefix(n.out.kind, "err:"))
	switch n.out.form {
	case "wrapped":
		return fmt.Errorf("failed to request data from the node: %w", base)
	case "joined":
		return errors.Join(errors.New("failed to request data from the node"), base)
	}
	return base
}

// NodeSyncing is an endpoint with a success predicate: an answer that says "syncing" is an answer, not a success.
func (n *node) NodeSyncing(ctx context.Context, _ *eth2api.NodeSyncingOpts) (*eth2api.Response[*eth2v1.SyncState], error) {
	if err := n.do(ctx); err != nil {
		return nil, err
	}
	return &eth2api.Response[*eth2v1.SyncState]{Data: &eth2v1.SyncState{IsSyncing: n.out.kind == "notok", HeadSlot: eth2p0.Slot(n.id)}}, nil
}

func (n *node) NodeVersion(ctx context.Context, _ *eth2api.NodeVersionOpts) (*eth2api.Response[string], error) {
	if err := n.do(ctx); err != nil {
		return nil, err
	}
	return &eth2api.Response[string]{Data: n.name}, nil
}

func (n *node) AttestationData(ctx context.Context, _ *eth2api.AttestationDataOpts) (*eth2api.Response[*eth2p0.AttestationData], error) {
	if err := n.do(ctx); err != nil {
		return nil, err
	}
	d := &eth2p0.AttestationData{Slot: 5, Source: &eth2p0.Checkpoint{}, Target: &eth2p0.Checkpoint{}}
	copy(d.BeaconBlockRoot[:], n.name)
	return &eth2api.Response[*eth2p0.AttestationData]{Data: d}, nil
}

func (n *node) SubmitAttestations(ctx context.Context, _ *eth2api.SubmitAttestationsOpts) error {
	return n.do(ctx)
}

func TestC19Multi(t *testing.T) {
	vstat.Rule("C19", rule)
	vstat.Assume("with mixed error classes the code keys the fallback decision on the last error received: both outcomes are accepted; a hung (not failed) primary legitimately keeps the call waiting when no primary succeeds")
	rapid.Check(t, func(rt *rapid.T) {
		rapid.SyncTest(rt, func(rt *rapid.T) { runCase(rt) })
	})
}

func runCase(rt *rapid.T) {
	stop := make(chan struct{})
	var allNodes []*node
	var unused []*node // nodes outside the scope of a scoped client
	mk := func(prefix string, count int) ([]eth2wrap.Client, []*node) {
		var cs []eth2wrap.Client
		var ns []*node
		for i := 0; i < count; i++ {
			o := outcome{lat: time.Duration(rapid.IntRange(0, 40).Draw(rt, "latency")) * 50 * time.Millisecond}
			switch k := rapid.IntRange(0, 9).Draw(rt, "outcome"); {
			case k < 3:
				o.kind = "ok"
			case k == 3:
				o.kind = "notok"
			case k < 8:
				o.kind = "err:" + errClasses[rapid.IntRange(0, len(errClasses)-1).Draw(rt, "class")]
				o.form = rapid.SampledFrom([]string{"bare", "bare", "wrapped", "joined"}).Draw(rt, "errorForm")
			case k == 8:
				o.kind = "hang_ctx"
			default:
				o.kind = "hang_hard"
			}
			n := &node{name: fmt.Sprintf("%s%d", prefix, i), id: 1000 + len(allNodes), out: o, stop: stop}
			// distinct latencies keep completion order well defined
			n.out.lat += time.Duration(len(allNodes)) * time.Millisecond
			cs, ns, allNodes = append(cs, n), append(ns, n), append(allNodes, n)
		}
		return cs, ns
	}
	pc, primaries := mk("primary", rapid.IntRange(1, 4).Draw(rt, "primaries"))
	fc, fallbacks := mk("fallback", rapid.IntRange(0, 3).Draw(rt, "fallbacks"))
	cl, err := eth2wrap.Instrument(pc, fc)
	if err != nil {
		rt.Fatalf("HARNESS-ERROR: %v", err)
	}
	// a quarter of the cases go through a client scoped to one node's address (as the fetcher and the
	// monitoring API use it): scoped to a primary it keeps the configured fallbacks, scoped to a fallback it
	// has none, an unknown or empty address gives the unscoped client
	scope := "unscoped"
	switch k := rapid.IntRange(0, 11).Draw(rt, "scope"); {
	case k == 0:
		i := rapid.IntRange(0, len(primaries)-1).Draw(rt, "scopePrimary")
		cl = cl.ClientForAddress(primaries[i].name)
		for _, n := range primaries {
			if n != primaries[i] {
				unused = append(unused, n)
			}
		}
		primaries = []*node{primaries[i]}
		scope = "primary"
	case k == 1 && len(fallbacks) > 0:
		i := rapid.IntRange(0, len(fallbacks)-1).Draw(rt, "scopeFallback")
		cl = cl.ClientForAddress(fallbacks[i].name)
		for _, n := range append(append([]*node{}, primaries...), fallbacks...) {
			if n != fallbacks[i] {
				unused = append(unused, n)
			}
		}
		primaries, fallbacks = []*node{fallbacks[i]}, nil
		scope = "fallback"
	case k == 2:
		cl = cl.ClientForAddress(rapid.SampledFrom([]string{"", "nobody", "primary"}).Draw(rt, "scopeUnknown"))
		scope = "unknown_address"
	}
	call := rapid.SampledFrom([]string{"NodeVersion", "AttestationData", "SubmitAttestations", "NodeSyncing"}).Draw(rt, "call")
	if call != "NodeSyncing" {
		// only that endpoint has a success predicate: elsewhere an answer is a success
		for _, n := range allNodes {
			if n.out.kind == "notok" {
				n.out.kind = "ok"
			}
		}
	}
	cancelAt := time.Duration(-1)
	if rapid.IntRange(0, 3).Draw(rt, "cancel?") == 0 {
		cancelAt = time.Duration(rapid.IntRange(0, 45).Draw(rt, "cancelAt")) * 50 * time.Millisecond
	}

	ctx, cancel := context.WithCancel(context.Background())
	t0 := time.Now()
	resCh := make(chan result, 1)
	go func() {
		var r result
		switch call {
		case "NodeVersion":
			resp, err := cl.NodeVersion(ctx, &eth2api.NodeVersionOpts{})
			r.err = err
			if err == nil && resp == nil {
				r.nilAnswer = true
			} else if err == nil {
				r.val = resp.Data
			}
		case "AttestationData":
			resp, err := cl.AttestationData(ctx, &eth2api.AttestationDataOpts{})
			r.err = err
			if err == nil && resp == nil {
				r.nilAnswer = true
			} else if err == nil {
				r.val = strings.TrimRight(string(resp.Data.BeaconBlockRoot[:]), "\x00")
			}
		case "NodeSyncing":
			resp, err := cl.NodeSyncing(ctx, &eth2api.NodeSyncingOpts{})
			r.err = err
			if err == nil && (resp == nil || resp.Data == nil) {
				r.nilAnswer = true
			} else if err == nil {
				for _, n := range allNodes {
					if eth2p0.Slot(n.id) == resp.Data.HeadSlot {
						r.val = n.name
					}
				}
				r.notok = resp.Data.IsSyncing
			}
		default:
			r.err = cl.SubmitAttestations(ctx, &eth2api.SubmitAttestationsOpts{Attestations: []*eth2spec.VersionedAttestation{}})
		}
		r.elapsed = time.Since(t0)
		resCh <- r
	}()
	if cancelAt >= 0 {
		go func() {
			t := time.NewTimer(cancelAt)
			defer t.Stop()
			select {
			case <-t.C:
				cancel()
			case <-stop:
			}
		}()
	}
	// the call returns, or everything is blocked for good (hangs): wait up to 10s of virtual time
	var res *result
	timer := time.NewTimer(10 * time.Second)
	select {
	case r := <-resCh:
		res = &r
	case <-timer.C:
	}
	timer.Stop()
	cancel()
	close(stop)
	if res == nil {
		r := <-resCh // released by stop / cancel
		_ = r
	}
	synctest.Wait()

	// ---- oracle
	script := func(ns []*node) []string {
		var s []string
		for _, n := range ns {
			s = append(s, fmt.Sprintf("%s@%v", n.out.kind, n.out.lat))
		}
		return s
	}
	desc := fmt.Sprintf("%s scope=%s primaries=%v fallbacks=%v cancelAt=%v", call, scope, script(primaries), script(fallbacks), cancelAt)
	earliestOK := func(ns []*node, from time.Duration) (time.Duration, bool) {
		best, ok := time.Duration(0), false
		for _, n := range ns {
			if n.out.kind == "ok" && (!ok || from+n.out.lat < best) {
				best, ok = from+n.out.lat, true
			}
		}
		return best, ok
	}
	allErr := func(ns []*node) (last time.Duration, all bool) {
		all = true
		for _, n := range ns {
			if !strings.HasPrefix(n.out.kind, "err:") {
				all = false
			}
			if n.out.lat > last {
				last = n.out.lat
			}
		}
		return
	}
	calls := func(ns []*node) int {
		c := 0
		for _, n := range ns {
			n.mu.Lock()
			c += n.calls
			n.mu.Unlock()
		}
		return c
	}
	cancelledBefore := func(at time.Duration) bool { return cancelAt >= 0 && cancelAt <= at }
	okAt, haveOK := earliestOK(primaries, 0)
	classes := map[string]bool{}
	hang := false
	formSeen := false
	for _, n := range allNodes {
		classes[n.out.kind] = true
		if strings.HasPrefix(n.out.kind, "hang") {
			hang = true
		}
		if n.out.form == "joined" || n.out.form == "wrapped" {
			formSeen = true
		}
	}
	fallbackCalled := calls(fallbacks) > 0
	if calls(unused) > 0 {
		rt.Fatalf("OUT OF SCOPE: a client scoped to one %s node's address also called other nodes (%s)", scope, desc)
	}
	if res != nil && res.err == nil && res.nilAnswer {
		rt.Fatalf("NO ANSWER AND NO ERROR: the call returned a nil response with a nil error (%s)", desc)
	}
	if res != nil && res.err == nil && call == "NodeSyncing" {
		// "returns exactly one node's answer": whatever is returned without error is what one configured node said
		found := false
		for _, n := range append(append([]*node{}, primaries...), fallbacks...) {
			if n.name == res.val && ((n.out.kind == "ok" && !res.notok) || (n.out.kind == "notok" && res.notok)) {
				found = true
			}
		}
		if !found {
			rt.Fatalf("WRONG VALUE: NodeSyncing returned (node %q, syncing=%v), which no configured node answered (%s)", res.val, res.notok, desc)
		}
	}
	switch {
	case haveOK && !cancelledBefore(okAt):
		if res == nil {
			rt.Fatalf("NO ANSWER: a primary succeeds at +%v but the call did not return within 10s (%s)", okAt, desc)
		}
		if res.err != nil {
			rt.Fatalf("FAILED DESPITE SUCCESS: a primary succeeds at +%v but the call returned %v (%s)", okAt, res.err, desc)
		}
		if res.elapsed != okAt {
			rt.Fatalf("WAITED: earliest primary success at +%v, the call returned at +%v (%s)", okAt, res.elapsed, desc)
		}
		if call != "SubmitAttestations" {
			found := false
			for _, n := range primaries {
				if n.out.kind == "ok" && n.name == res.val {
					found = true
				}
			}
			if !found {
				rt.Fatalf("WRONG VALUE: returned %q which is not a succeeding primary's answer (%s)", res.val, desc)
			}
		}
		if fallbackCalled {
			rt.Fatalf("FALLBACK USED although a primary succeeded (%s)", desc)
		}
	case cancelAt >= 0 && !hangHard(allNodes):
		// every node respects the context: the call returns no later than the cancellation instant
		last, all := allErr(primaries)
		if !(all && last < cancelAt) { // otherwise it may have finished (failed / fallen back) before the cancel
			if res == nil || res.elapsed > cancelAt {
				rt.Fatalf("CANCEL IGNORED: caller cancelled at +%v, nodes respect their context, call returned at %v (%s)", cancelAt, elapsedOf(res), desc)
			}
		}
	default:
		last, all := allErr(primaries)
		if all && cancelAt < 0 {
			anyUnavail, allUnavail := false, true
			for _, n := range primaries {
				if unavailable[strings.TrimPrefix(n.out.kind, "err:")] {
					anyUnavail = true
				} else {
					allUnavail = false
				}
			}
			if !anyUnavail && fallbackCalled {
				rt.Fatalf("FALLBACK ON NON-AVAILABILITY ERROR: primaries failed with %v, fallbacks were called (%s)", script(primaries), desc)
			}
			if allUnavail && len(fallbacks) > 0 && !fallbackCalled {
				rt.Fatalf("NO FALLBACK: every primary is unavailable (%v) but no fallback was consulted (%s)", script(primaries), desc)
			}
			if !fallbackCalled {
				if res == nil || res.err == nil {
					rt.Fatalf("all primaries fail, no fallback: expected an error, got %+v (%s)", res, desc)
				}
				if res.elapsed != last {
					rt.Fatalf("all primaries fail by +%v, the call returned at +%v (%s)", last, res.elapsed, desc)
				}
			} else if fOK, have := earliestOK(fallbacks, last); have {
				if res == nil || res.err != nil {
					rt.Fatalf("FAILED DESPITE FALLBACK SUCCESS: fallback succeeds at +%v, got %+v (%s)", fOK, res, desc)
				}
				if res.elapsed != fOK {
					rt.Fatalf("WAITED: earliest fallback success at +%v, the call returned at +%v (%s)", fOK, res.elapsed, desc)
				}
			}
		}
	}
	nontrivial := len(classes) >= 2 || hang || fallbackCalled
	vstat.Case(desc, nontrivial, cls("answer_without_success(syncing)", classes["notok"]), cls("error_joined_or_wrapped", formSeen), "call:"+call, "scope:"+scope, cls("primary_success", haveOK), cls("hang", hang), cls("fallback_consulted", fallbackCalled), cls("cancelled", cancelAt >= 0))
	if nontrivial && fallbackCalled && vstat.WantSample("fallback") {
		vstat.Sample("fallback", map[string]any{"call": call, "primaries": script(primaries), "fallbacks": script(fallbacks), "cancel_at": cancelAt.String(), "returned_at": elapsedOf(res)})
	} else if nontrivial && hang && vstat.WantSample("hang") {
		vstat.Sample("hang", map[string]any{"call": call, "primaries": script(primaries), "fallbacks": script(fallbacks), "cancel_at": cancelAt.String(), "returned_at": elapsedOf(res)})
	}
}

func hangHard(ns []*node) bool {
	for _, n := range ns {
		if n.out.kind == "hang_hard" {
			return true
		}
	}
	return false
}

type result struct {
	nilAnswer bool // the call returned neither an error nor an answer
	notok     bool // NodeSyncing: the answer returned says "syncing"
	val       string
	body      string
	err       error
	elapsed   time.Duration
}

func elapsedOf(r *result) string {
	if r == nil {
		return "never"
	}
	return r.elapsed.String()
}

func cls(name string, on bool) string {
	if on {
		return name
	}
	return ""
}
