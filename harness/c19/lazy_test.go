package c19

import (
	"context"
	"fmt"
	"net/http"
	"net/http/httptest"
	"testing"
	"time"

	eth2api "github.com/attestantio/go-eth2-client/api"
	eth2spec "github.com/attestantio/go-eth2-client/spec"
	"pgregory.net/rapid"

	"github.com/obolnetwork/charon/app/eth2wrap"

	"verifharness/vstat"
)

// TestC19LazyCancel exercises the layer the scripted clients of TestC19Multi bypass: NewMultiHTTP creates
// its per-node HTTP clients lazily, on first use, with the caller's context. Every configured node is a
// real local HTTP server that accepts connections and never answers (the per-node timeout is 20 s); the
// caller cancels after a drawn 50..400 ms. Oracle: the call returns within 5 s of the cancellation — a
// quarter of the node timeout, far above any scheduling delay, so this wall-clock bound cannot trip on a
// loaded machine unless the cancellation was really ignored.
func TestC19LazyCancel(t *testing.T) {
	vstat.Rule("C19", "lazy clients: NewMultiHTTP over 1..3 primaries and 0..2 fallbacks that are real local HTTP servers which never answer (node timeout 20 s), provide-style and submit-style calls on clients that were never used before, caller cancels after 50..400 ms; the call must return within 5 s of the cancellation; non-trivial = always")
	hang := make(chan struct{})
	defer close(hang)
	newServer := func() *httptest.Server {
		return httptest.NewServer(http.HandlerFunc(func(w http.ResponseWriter, r *http.Request) {
			select {
			case <-hang:
			case <-r.Context().Done():
			}
		}))
	}
	rapid.Check(t, func(rt *rapid.T) {
		var servers []*httptest.Server
		defer func() {
			for _, s := range servers {
				s.CloseClientConnections()
				s.Close()
			}
		}()
		addrs := func(k int) []string {
			var out []string
			for i := 0; i < k; i++ {
				s := newServer()
				servers = append(servers, s)
				out = append(out, s.URL)
			}
			return out
		}
		primaries := addrs(rapid.IntRange(1, 3).Draw(rt, "primaries"))
		fallbacks := addrs(rapid.IntRange(0, 2).Draw(rt, "fallbacks"))
		cl, err := eth2wrap.NewMultiHTTP(20*time.Second, [4]byte{}, nil, primaries, fallbacks)
		if err != nil {
			rt.Fatalf("HARNESS-ERROR: %v", err)
		}
		call := rapid.SampledFrom([]string{"NodeVersion", "SubmitAttestations"}).Draw(rt, "call")
		cancelAfter := time.Duration(rapid.IntRange(50, 400).Draw(rt, "cancelMs")) * time.Millisecond
		ctx, cancel := context.WithCancel(context.Background())
		defer cancel()
		done := make(chan error, 1)
		go func() {
			if call == "NodeVersion" {
				_, err := cl.NodeVersion(ctx, &eth2api.NodeVersionOpts{})
				done <- err
			} else {
				done <- cl.SubmitAttestations(ctx, &eth2api.SubmitAttestationsOpts{Attestations: []*eth2spec.VersionedAttestation{}})
			}
		}()
		time.Sleep(cancelAfter)
		cancel()
		t0 := time.Now()
		// The call must return promptly after the cancellation. "Promptly" is judged generously and only on a
		// machine that is demonstrably responsive: 100 ms ticks are counted while waiting, 15 s worth of them
		// must have been seen before the silence counts as a violation (a starved machine is inconclusive).
		ticks := 0
		tick := time.NewTicker(100 * time.Millisecond)
		defer tick.Stop()
		started := time.Now()
	waitLoop:
		for {
			select {
			case err := <-done:
				if err == nil {
					rt.Fatalf("a call to nodes that never answer succeeded")
				}
				break waitLoop
			case <-tick.C:
				ticks++
				if ticks >= 150 {
					rt.Fatalf("CANCEL IGNORED (lazy clients): caller cancelled %v into a %s call on never-used clients of %d primaries / %d fallbacks that do not answer; 15 s (150 observed ticks) later the call has still not returned (node timeout 20 s)", cancelAfter, call, len(primaries), len(fallbacks))
				}
				if time.Since(started) > 60*time.Second {
					panic("HARNESS-ERROR: the machine is starved (fewer than 150 ticks of 100 ms in 60 s of wall clock)")
				}
			}
		}
		vstat.Max("lazy_cancel_return_ms", int64(time.Since(t0)/time.Millisecond))
		vstat.Case(fmt.Sprintf("lazy/%s/%d/%d/%v", call, len(primaries), len(fallbacks), cancelAfter), true, "lazy_cancel")
	})
}
