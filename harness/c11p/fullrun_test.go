// C11 (whole command) — dkg.Run, the function behind `charon dkg`, for every member of a drawn cluster
// over real loopback TCP and a local relay: definition loading, the sync protocol, the exchange of node
// signatures, the FROST or pedersen ceremony, the aggregation of lock-hash / deposit / registration
// signatures, and the files each member writes (cluster-lock.json, keystores, deposit data).
// Oracle: what the members wrote to disk, judged with dkgoracle (same group key and public shares on every
// node, secret share i belongs to public share i, t-subsets reconstruct, t-1 do not, partial signatures
// aggregate) plus the lock's own hash and signature verification.
//
// This test runs on wall-clock time (libp2p, TCP). No time limit acts as an oracle: a ceremony that ends
// with an error says nothing about the property ("after a successful key generation") and is only counted;
// when most ceremonies of a process fail the run is inconclusive (HARNESS-ERROR).
package c11p

import (
	"bytes"
	"context"
	"encoding/json"
	"fmt"
	"io"
	"math/rand"
	"os"
	"path"
	"sync"
	"testing"
	"time"

	eth2p0 "github.com/attestantio/go-eth2-client/spec/phase0"
	"go.uber.org/zap/zapcore"
	"pgregory.net/rapid"

	"github.com/obolnetwork/charon/app/k1util"
	"github.com/obolnetwork/charon/app/log"
	"github.com/obolnetwork/charon/cluster"
	"github.com/obolnetwork/charon/dkg"
	"github.com/obolnetwork/charon/dkg/share"
	dkgsync "github.com/obolnetwork/charon/dkg/sync"
	"github.com/obolnetwork/charon/eth2util/deposit"
	"github.com/obolnetwork/charon/eth2util/keystore"
	"github.com/obolnetwork/charon/p2p"
	"github.com/obolnetwork/charon/tbls"
	"github.com/obolnetwork/charon/testutil"
	"github.com/obolnetwork/charon/testutil/relay"

	"verifharness/dkgoracle"
	"verifharness/vstat"
)

func TestC11FullRun(t *testing.T) {
	vstat.Rule("C11", "whole command: a case is dkg.Run on every member of a drawn cluster (n in 3..MAXN, threshold 2..n, 1..4 validators, FROST / pedersen / default algorithm, lock format v1.6..latest, drawn deposit amounts, drawn start stagger) over loopback TCP and a local relay; judged on the files the members wrote; non-trivial when the ceremony succeeded and (threshold < n or validators > 1)")
	vstat.Assume("C11 whole command: runs on wall-clock time over loopback TCP; a ceremony that ends with an error is counted and skipped (the property speaks of successful ceremonies)")
	maxN := vstat.EnvInt("VERIF_C11_FULL_MAXN", 5)
	log.InitConsoleForT(t, zapcore.AddSync(io.Discard))

	ctx, cancel := context.WithCancel(context.Background())
	defer cancel()
	relayAddr := relay.StartRelay(ctx, t)

	var total, failed int
	rapid.Check(t, func(rt *rapid.T) {
		total++
		if !fullRun(t, rt, ctx, relayAddr, maxN) {
			failed++
		}
	})
	if total >= 2 && failed*2 > total {
		t.Fatalf("HARNESS-ERROR: %d of %d whole-command ceremonies ended with an error (loaded machine or ports?); nothing can be said", failed, total)
	}
}

// fullRun reports whether the ceremony succeeded (and was therefore judged).
func fullRun(t *testing.T, rt *rapid.T, ctx context.Context, relayAddr string, maxN int) bool {
	n := rapid.IntRange(3, maxN).Draw(rt, "n")
	th := rapid.IntRange(2, n).Draw(rt, "t")
	v := rapid.IntRange(1, 4).Draw(rt, "validators")
	algo := rapid.SampledFrom([]string{"frost", "pedersen", "default"}).Draw(rt, "algo")
	version := rapid.SampledFrom([]string{"", "v1.10.0", "v1.9.0", "v1.8.0", "v1.7.0", "v1.6.0"}).Draw(rt, "version")
	amountsKind := rapid.IntRange(0, 2).Draw(rt, "amounts")
	compounding := rapid.Bool().Draw(rt, "compounding")
	// the repository's deterministic key generator (testutil.GenerateInsecureK1Key, used by cluster.NewForT for the
	// operators' keys seed..seed+n-1) feeds a constant byte (seed+1 mod 256) to the key generation, which never
	// terminates for the bytes 0x00 and 0xff: seeds are drawn where no operator key meets them
	seed := rapid.IntRange(1, 200).Draw(rt, "seed")
	stagger := make([]int, n)
	for i := range stagger {
		stagger[i] = rapid.IntRange(0, 300).Draw(rt, "stagger_ms")
	}

	opts := []func(*cluster.Definition){func(d *cluster.Definition) { d.DKGAlgorithm = algo }}
	if version != "" {
		opts = append(opts, cluster.WithVersion(version))
	}
	old := version != "" && version != "v1.10.0"
	opts = append(opts, func(d *cluster.Definition) {
		if old {
			d.TargetGasLimit = 0
		} else {
			d.TargetGasLimit = 30000000
		}
	})
	partial := version == "" || version == "v1.10.0" || version == "v1.9.0" || version == "v1.8.0"
	var amounts []eth2p0.Gwei
	if partial && amountsKind == 1 {
		amounts = []eth2p0.Gwei{8 * deposit.OneEthInGwei, 16 * deposit.OneEthInGwei, 8 * deposit.OneEthInGwei}
	} else if partial && amountsKind == 2 {
		amounts = []eth2p0.Gwei{1 * deposit.OneEthInGwei, 31 * deposit.OneEthInGwei}
	}
	opts = append(opts, func(d *cluster.Definition) { d.DepositAmounts = amounts })
	if (version == "" || version == "v1.10.0") && compounding {
		opts = append(opts, func(d *cluster.Definition) { d.Compounding = true })
	}

	lock0, p2pKeys, _ := cluster.NewForT(t, v, th, n, seed, rand.New(rand.NewSource(int64(seed))), opts...)
	def := lock0.Definition
	if err := def.VerifySignatures(nil); err != nil {
		panic("HARNESS-ERROR: generated definition does not verify: " + err.Error())
	}

	dir, err := os.MkdirTemp("", "verif-c11full-")
	if err != nil {
		panic("HARNESS-ERROR: temp dir: " + err.Error())
	}
	defer os.RemoveAll(dir)

	cctx, ccancel := context.WithCancel(ctx)
	defer ccancel()
	errs := make([]error, n)
	var wg sync.WaitGroup
	for i := 0; i < n; i++ {
		raw, _ := json.Marshal(def)
		var defClone cluster.Definition
		if err := json.Unmarshal(raw, &defClone); err != nil {
			panic("HARNESS-ERROR: definition clone: " + err.Error())
		}
		conf := dkg.Config{
			DataDir: path.Join(dir, fmt.Sprintf("node%d", i)),
			P2P:     p2p.Config{Relays: []string{relayAddr}, TCPAddrs: []string{testutil.AvailableAddr(t).String()}},
			Log:     log.DefaultConfig(),
			TestConfig: dkg.TestConfig{
				Def: &defClone,
				StoreKeysFunc: func(secrets []tbls.PrivateKey, dir string) error {
					return keystore.StoreKeysInsecure(secrets, dir, keystore.ConfirmInsecureKeys)
				},
				SyncOpts: []func(*dkgsync.Client){dkgsync.WithPeriod(50 * time.Millisecond)},
			},
			ShutdownDelay:  time.Second,
			PublishTimeout: 30 * time.Second,
			Timeout:        90 * time.Second,
		}
		if err := os.MkdirAll(conf.DataDir, 0o755); err != nil {
			panic("HARNESS-ERROR: " + err.Error())
		}
		if err := k1util.Save(p2pKeys[i], p2p.KeyPath(conf.DataDir)); err != nil {
			panic("HARNESS-ERROR: " + err.Error())
		}
		wg.Add(1)
		go func() {
			defer wg.Done()
			time.Sleep(time.Duration(stagger[i]) * time.Millisecond)
			errs[i] = dkg.Run(cctx, conf)
			if errs[i] != nil {
				ccancel()
			}
		}()
	}
	wg.Wait()
	for i, e := range errs {
		if e != nil {
			vstat.Count("fullrun_ceremony_ended_with_error", 1)
			t.Logf("whole-command ceremony n=%d t=%d v=%d algo=%s version=%q: node %d: %v (skipped)", n, th, v, algo, version, i, e)
			vstat.Case(fmt.Sprintf("fullrun-failed/%d/%d/%d/%s/%s", n, th, v, algo, version), false, "fullrun:ended_with_error")
			return false
		}
	}

	// ---- judge what is on disk
	where := fmt.Sprintf("[dkg.Run n=%d t=%d v=%d algo=%s version=%q amounts=%v compounding=%v]", n, th, v, algo, version, amounts, compounding)
	perNode := make([][]share.Share, n)
	var firstLock []byte
	var lockRef cluster.Lock
	for i := 0; i < n; i++ {
		dataDir := path.Join(dir, fmt.Sprintf("node%d", i))
		raw, err := os.ReadFile(path.Join(dataDir, "cluster-lock.json"))
		if err != nil {
			rt.Fatalf("NO LOCK FILE after a successful ceremony: node %d: %v %s", i, err, where)
		}
		var lock cluster.Lock
		if err := json.Unmarshal(raw, &lock); err != nil {
			rt.Fatalf("LOCK FILE DOES NOT PARSE: node %d: %v %s", i, err, where)
		}
		if err := lock.VerifyHashes(); err != nil {
			rt.Fatalf("LOCK HASHES INVALID: node %d: %v %s", i, err, where)
		}
		if err := lock.VerifySignatures(nil); err != nil {
			rt.Fatalf("LOCK SIGNATURES INVALID: node %d: %v %s", i, err, where)
		}
		if i == 0 {
			firstLock, lockRef = raw, lock
		} else if !bytes.Equal(lock.LockHash, lockRef.LockHash) {
			rt.Fatalf("LOCKS DIFFER: node 0 lock hash %x, node %d lock hash %x %s", lockRef.LockHash[:6], i, lock.LockHash[:6], where)
		}
		if !bytes.Equal(lock.Definition.ConfigHash, def.ConfigHash) || lock.Threshold != th || len(lock.Operators) != n {
			rt.Fatalf("LOCK IS FOR ANOTHER CLUSTER: node %d config hash %x threshold %d operators %d, asked %x / %d / %d %s", i, lock.Definition.ConfigHash[:6], lock.Threshold, len(lock.Operators), def.ConfigHash[:6], th, n, where)
		}
		if len(lock.Validators) != v {
			rt.Fatalf("VALIDATOR COUNT: node %d lock has %d validators, asked %d %s", i, len(lock.Validators), v, where)
		}
		keyFiles, err := keystore.LoadFilesUnordered(path.Join(dataDir, "validator_keys"))
		if err != nil {
			rt.Fatalf("KEYSTORES UNREADABLE: node %d: %v %s", i, err, where)
		}
		secrets, err := keyFiles.SequencedKeys()
		if err != nil {
			rt.Fatalf("KEYSTORES NOT SEQUENCED: node %d: %v %s", i, err, where)
		}
		if len(secrets) != v {
			rt.Fatalf("KEYSTORE COUNT: node %d has %d keystores, want %d %s", i, len(secrets), v, where)
		}
		for j := 0; j < v; j++ {
			val := lock.Validators[j]
			sh := share.Share{SecretShare: secrets[j], PublicShares: map[int]tbls.PublicKey{}}
			if len(val.PubKey) != len(sh.PubKey) {
				rt.Fatalf("GROUP KEY LENGTH %d: node %d validator %d %s", len(val.PubKey), i, j, where)
			}
			copy(sh.PubKey[:], val.PubKey)
			for k, ps := range val.PubShares {
				var pk tbls.PublicKey
				if len(ps) != len(pk) {
					rt.Fatalf("PUBLIC SHARE LENGTH %d: node %d validator %d share %d %s", len(ps), i, j, k+1, where)
				}
				copy(pk[:], ps)
				sh.PublicShares[k+1] = pk
			}
			perNode[i] = append(perNode[i], sh)
			// deposit data embedded in the lock: one per distinct amount, for this validator's key
			want := deposit.DedupAmounts(amounts)
			if len(want) > 0 && len(val.PartialDepositData) != len(want) {
				rt.Fatalf("DEPOSIT DATA COUNT: node %d validator %d has %d entries for amounts %v %s", i, j, len(val.PartialDepositData), want, where)
			}
			for k, dd := range val.PartialDepositData {
				if !bytes.Equal(dd.PubKey, val.PubKey) {
					rt.Fatalf("DEPOSIT DATA FOR ANOTHER KEY: node %d validator %d entry %d %s", i, j, k, where)
				}
				if len(want) > 0 && eth2p0.Gwei(dd.Amount) != want[k] {
					rt.Fatalf("DEPOSIT AMOUNT: node %d validator %d entry %d is %d, want %d %s", i, j, k, dd.Amount, want[k], where)
				}
			}
		}
	}
	_ = firstLock
	st, bad := dkgoracle.Check(n, th, v, perNode, 30, func(k int) int { return rapid.IntRange(0, k-1).Draw(rt, "subset") })
	if bad != "" {
		rt.Fatalf("%s  %s", bad, where)
	}
	vstat.Count("t_subsets_checked", int64(st.Subsets))
	vstat.Case(fmt.Sprintf("fullrun/%d/%d/%d/%s/%s/%d/%v", n, th, v, algo, version, amountsKind, compounding), th < n || v > 1,
		"transport:dkg.Run_over_tcp", "fullrun_algo:"+algo, "fullrun_version:"+version, fmt.Sprintf("fullrun_cfg:n%d_t%d", n, th), fmt.Sprintf("fullrun_validators:%d", v))
	if vstat.WantSample("fullrun") {
		vstat.Sample("fullrun", map[string]any{"n": n, "threshold": th, "validators": v, "algorithm": algo, "version": version, "transport": "dkg.Run over loopback TCP + relay",
			"deposit_amounts": fmt.Sprint(amounts), "group_key_validator0": fmt.Sprintf("%x", perNode[0][0].PubKey[:8])})
	}
	return true
}
