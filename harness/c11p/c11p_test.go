// C11 (pedersen variant) — pedersen.RunDKG on production boards and bcast components over the
// in-memory libp2p stand-in, on virtual time (the kyber phaser sleeps between phases).
package c11p

import (
	"context"
	"crypto/sha256"
	"fmt"
	"io"
	"strings"
	"sync"
	"testing"
	"testing/synctest"
	"time"

	k1 "github.com/decred/dcrd/dcrec/secp256k1/v4"
	"github.com/libp2p/go-libp2p/core/peer"
	"pgregory.net/rapid"

	"go.uber.org/zap/zapcore"

	"github.com/obolnetwork/charon/app/log"
	"github.com/obolnetwork/charon/cluster"
	"github.com/obolnetwork/charon/dkg/bcast"
	"github.com/obolnetwork/charon/dkg/pedersen"
	"github.com/obolnetwork/charon/dkg/share"
	"github.com/obolnetwork/charon/p2p"

	"verifharness/dkgoracle"
	"verifharness/memnet"
	"verifharness/vstat"
)

func TestMain(m *testing.M) { vstat.Main(m) }

var (
	keyMu    sync.Mutex
	keyCache = map[int]*k1.PrivateKey{}
)

func nodeKey(i int) *k1.PrivateKey {
	keyMu.Lock()
	defer keyMu.Unlock()
	if k, ok := keyCache[i]; ok {
		return k
	}
	h := sha256.Sum256([]byte(fmt.Sprintf("verif-c11p-%d", i)))
	k := k1.PrivKeyFromBytes(h[:])
	keyCache[i] = k
	return k
}

type result struct {
	shares []share.Share
	err    error
}

func TestC11Pedersen(t *testing.T) {
	vstat.Rule("C11", "pedersen: a case is one complete pedersen ceremony (drawn n in 3..MAXN, threshold 2..n, 1..4 validators, drawn frame delivery order with virtual-time phases); non-trivial when it succeeded and (threshold < n or validators > 1 or frames were delivered out of order)")
	maxN := vstat.EnvInt("VERIF_C11_MAXN", 6)
	log.InitConsoleForT(t, zapcore.AddSync(io.Discard))
	rapid.Check(t, func(rt *rapid.T) {
		rapid.SyncTest(rt, func(rt *rapid.T) { run(rt, maxN) })
	})
}

// run performs one ceremony or, half of the time, two independent ceremonies of the same members one after
// the other ("repeated independent ceremonies"); in the second one the network re-delivers public-share
// messages and deal / response / justification bundles of the first (leftovers of an earlier attempt), which must
// not leak into its result.
func run(rt *rapid.T, maxN int) {
	n := rapid.IntRange(3, maxN).Draw(rt, "n")
	// the generator follows what dkg.Run accepts: 2..n.
	th := rapid.IntRange(2, n).Draw(rt, "t")
	v := rapid.IntRange(1, 4).Draw(rt, "validators")
	repeated := rapid.Bool().Draw(rt, "repeatedCeremony")
	first := ceremony(rt, n, th, v, "first", nil)
	if !repeated {
		return
	}
	var stale []*memnet.Frame
	for _, f := range first.All {
		if p := string(f.Proto); (strings.Contains(p, "val_pubkey_share") || strings.Contains(p, "_bundle")) && rapid.IntRange(0, 2).Draw(rt, "replayStale") != 0 {
			stale = append(stale, f)
		}
	}
	vstat.Count("pedersen_stale_pubshare_frames_replayed", int64(len(stale)))
	ceremony(rt, n, th, v, "second", stale)
}

// ceremony runs one pedersen ceremony over a fresh in-memory network and judges its outputs. stale frames
// (from an earlier ceremony) are delivered to the new boards right after they were created.
func ceremony(rt *rapid.T, n, th, v int, label string, stale []*memnet.Frame) *memnet.Net {
	session := sha256.Sum256([]byte(fmt.Sprintf("session-%s-%d", label, rapid.IntRange(0, 1<<20).Draw(rt, "session"))))
	phase := time.Duration(rapid.IntRange(1, 10).Draw(rt, "phase_s")) * time.Second

	var peers []peer.ID
	peerMap := map[peer.ID]cluster.NodeIdx{}
	for i := 0; i < n; i++ {
		id, err := p2p.PeerIDFromKey(nodeKey(i).PubKey())
		if err != nil {
			panic("HARNESS-ERROR: peer id: " + err.Error())
		}
		peers = append(peers, id)
		peerMap[id] = cluster.NodeIdx{PeerIdx: i, ShareIdx: i + 1}
	}
	net := memnet.New()
	ctx, cancel := context.WithCancel(context.Background())
	defer cancel()
	configs := make([]*pedersen.Config, n)
	boards := make([]*pedersen.Board, n)
	for i := 0; i < n; i++ {
		h := net.Host(peers[i])
		caster := bcast.New(h, peers, nodeKey(i), session[:])
		configs[i] = pedersen.NewConfig(peers[i], peerMap, th, session[:], phase, nil)
		boards[i] = pedersen.NewBoard(ctx, h, configs[i], caster)
	}
	for _, f := range stale {
		net.Deliver(net.InjectRaw(f.From, f.To, f.Proto, f.Req))
		net.Take(net.NPending() - 1)
		synctest.Wait()
	}
	res := make([]result, n)
	var mu sync.Mutex
	done := 0
	for _, i := range rapid.Permutation(seq(n)).Draw(rt, "start_order") {
		go func() {
			sh, err := pedersen.RunDKG(ctx, configs[i], boards[i], v)
			mu.Lock()
			res[i] = result{sh, err}
			done++
			mu.Unlock()
		}()
		synctest.Wait()
	}
	finished := func() int { mu.Lock(); defer mu.Unlock(); return done }
	reordered := false
	idle := 0
	duplicates := 0
	var delivered []*memnet.Frame
	for steps := 0; finished() < n; steps++ {
		if steps > 50000 {
			panic("HARNESS-ERROR: pedersen ceremony did not finish in 50000 steps")
		}
		np := net.NPending()
		if np == 0 {
			idle++
			if idle > 400 {
				rt.Fatalf("CEREMONY STUCK without any fault: n=%d t=%d v=%d finished=%d err=%v", n, th, v, finished(), firstErr(res, &mu))
			}
			time.Sleep(phase / 4) // let the phaser move on
			synctest.Wait()
			continue
		}
		idle = 0
		k := 0
		if rapid.IntRange(0, 2).Draw(rt, "reorder") == 0 {
			k = rapid.IntRange(0, np-1).Draw(rt, "frame")
			if k > 0 {
				reordered = true
			}
		}
		fr := net.Take(k)
		net.Deliver(fr)
		// (only the ceremony's own point-to-point messages are duplicated: bundles and public-key shares.
		// A duplicated node-key broadcast can fill the board's small inbox before the node reads it and hang
		// the ceremony for good — a liveness matter, outside this property, which is about successful ceremonies)
		if p := string(fr.Proto); strings.Contains(p, "val_pubkey_share") || strings.Contains(p, "_bundle") {
			delivered = append(delivered, fr)
		}
		synctest.Wait()
		// the network may deliver a message a second time, much later (a retry that was slow): also a deal
		// or response of an earlier validator's run while a later one is under way
		if len(delivered) > 0 && rapid.IntRange(0, 11).Draw(rt, "lateDuplicate") == 0 {
			old := delivered[rapid.IntRange(0, len(delivered)-1).Draw(rt, "duplicateOf")]
			net.Deliver(net.InjectRaw(old.From, old.To, old.Proto, old.Req))
			net.Take(net.NPending() - 1)
			duplicates++
			synctest.Wait()
		}
	}
	cancel()
	for net.NPending() > 0 {
		net.Drop(net.Take(0))
	}
	synctest.Wait()
	// kyber's phaser goroutines sleep through the remaining phases; let them run out (virtual time). A late
	// duplicate that nobody reads any more holds its stream handler until the receive timeout: wait that out too.
	time.Sleep(10*phase + 3*time.Minute)
	synctest.Wait()
	if err := firstErr(res, &mu); err != nil {
		rt.Fatalf("CEREMONY FAILED without any fault: pedersen n=%d t=%d v=%d: %v", n, th, v, err)
	}
	perNode := make([][]share.Share, n)
	for i := range res {
		perNode[i] = res[i].shares
	}
	st, bad := dkgoracle.Check(n, th, v, perNode, 40, func(k int) int { return rapid.IntRange(0, k-1).Draw(rt, "subset") })
	if bad != "" {
		rt.Fatalf("%s  [pedersen n=%d t=%d v=%d, %s ceremony, %d stale public-share frames re-delivered]", bad, n, th, v, label, len(stale))
	}
	vstat.Count("t_subsets_checked", int64(st.Subsets))
	vstat.Max("frames_per_ceremony", int64(len(net.All)))
	classes := []string{"transport:pedersen", "pedersen_ceremony:" + label, fmt.Sprintf("pedersen_cfg:n%d_t%d", n, th), fmt.Sprintf("pedersen_validators:%d", v)}
	if reordered {
		classes = append(classes, "pedersen_frames_reordered")
	}
	if duplicates > 0 {
		classes = append(classes, "pedersen_late_duplicate_frames")
	}
	vstat.Case(fmt.Sprintf("pedersen/%d/%d/%d/%v/%d", n, th, v, reordered, len(net.All)), th < n || v > 1 || reordered, classes...)
	if vstat.WantSample("pedersen") {
		vstat.Sample("pedersen", map[string]any{"n": n, "threshold": th, "validators": v, "transport": "pedersen over memnet", "frames": len(net.All), "phase": phase.String(),
			"group_key_validator0": fmt.Sprintf("%x", perNode[0][0].PubKey[:8])})
	}
	return net
}

func firstErr(res []result, mu *sync.Mutex) error {
	mu.Lock()
	defer mu.Unlock()
	for _, r := range res {
		if r.err != nil {
			return r.err
		}
	}
	return nil
}

func seq(n int) []int {
	s := make([]int, n)
	for i := range s {
		s[i] = i
	}
	return s
}
