// The last hop of C01's statement: "every fully signed duty object handed to the beacon node". Each node's
// production core/bcast.Broadcaster sits behind the recording tap and submits to submitBN, which turns every
// object it is handed back into a core.SignedData attributed to the validator named inside the object (validator /
// proposer / aggregator index) and files it under the duty whose Broadcast call produced the submission.
package c01

import (
	"context"
	"fmt"

	eth2api "github.com/attestantio/go-eth2-client/api"
	eth2spec "github.com/attestantio/go-eth2-client/spec"
	"github.com/attestantio/go-eth2-client/spec/altair"
	eth2p0 "github.com/attestantio/go-eth2-client/spec/phase0"

	"github.com/obolnetwork/charon/core"
	"github.com/obolnetwork/charon/core/bcast"

	"verifharness/fakebn"
)

type dutyCtxKey struct{}

// submitBN is the beacon node as a node's broadcaster sees it.
type submitBN struct {
	*fakebn.BN
	byIndex func(eth2p0.ValidatorIndex) (core.PubKey, bool)
	whose   func(core.SignedData) (eth2p0.ValidatorIndex, bool) // the cluster validator under whose group key the object verifies
	rec     func(d core.Duty, pk core.PubKey, data core.SignedData)
	// an object for a validator index the cluster does not have, or one that cannot be read back
	bad func(string)
}

func (b submitBN) file(ctx context.Context, idx eth2p0.ValidatorIndex, data core.SignedData, what string) {
	d, ok := ctx.Value(dutyCtxKey{}).(core.Duty)
	if !ok {
		panic("HARNESS-ERROR: submission outside a Broadcast call: " + what)
	}
	pk, ok := b.byIndex(idx)
	if !ok {
		b.bad(fmt.Sprintf("%s for validator index %d, which is not a cluster validator (duty %v)", what, idx, d))
		return
	}
	b.rec(d, pk, data)
}

func (b submitBN) SubmitAttestations(ctx context.Context, opts *eth2api.SubmitAttestationsOpts) error {
	for _, att := range opts.Attestations {
		if att == nil {
			b.bad("nil attestation submitted to the beacon node")
			continue
		}
		v, err := core.NewVersionedAttestation(att)
		if err != nil {
			b.bad("submitted attestation cannot be read: " + err.Error())
			continue
		}
		if att.ValidatorIndex == nil {
			// formats before Electra (and partials of old peers) carry no index: the object belongs to the
			// cluster validator whose key it verifies under, if any
			idx, ok := b.whose(v)
			if !ok {
				b.bad("attestation without validator index that verifies under no cluster validator's key")
				continue
			}
			b.file(ctx, idx, v, "attestation")
			continue
		}
		b.file(ctx, *att.ValidatorIndex, v, "attestation")
	}
	return nil
}

func (b submitBN) SubmitProposal(ctx context.Context, opts *eth2api.SubmitProposalOpts) error {
	v, err := core.NewVersionedSignedProposal(opts.Proposal)
	if err != nil {
		b.bad("submitted proposal cannot be read: " + err.Error())
		return nil
	}
	idx, err := opts.Proposal.ProposerIndex()
	if err != nil {
		b.bad("submitted proposal has no proposer index: " + err.Error())
		return nil
	}
	b.file(ctx, idx, v, "proposal")
	return nil
}

func (b submitBN) SubmitBlindedProposal(ctx context.Context, opts *eth2api.SubmitBlindedProposalOpts) error {
	v, err := core.NewVersionedSignedProposalFromBlindedProposal(opts.Proposal)
	if err != nil {
		b.bad("submitted blinded proposal cannot be read: " + err.Error())
		return nil
	}
	idx, err := opts.Proposal.ProposerIndex()
	if err != nil {
		b.bad("submitted blinded proposal has no proposer index: " + err.Error())
		return nil
	}
	b.file(ctx, idx, v, "blinded proposal")
	return nil
}

func (b submitBN) SubmitVoluntaryExit(ctx context.Context, exit *eth2p0.SignedVoluntaryExit) error {
	if exit == nil || exit.Message == nil {
		b.bad("empty voluntary exit submitted")
		return nil
	}
	b.file(ctx, exit.Message.ValidatorIndex, core.NewSignedVoluntaryExit(exit), "voluntary exit")
	return nil
}

func (b submitBN) SubmitAggregateAttestations(ctx context.Context, opts *eth2api.SubmitAggregateAttestationsOpts) error {
	for _, ap := range opts.SignedAggregateAndProofs {
		if ap == nil {
			b.bad("nil aggregate-and-proof submitted")
			continue
		}
		idx, err := ap.AggregatorIndex()
		if err != nil {
			b.bad("submitted aggregate-and-proof has no aggregator index: " + err.Error())
			continue
		}
		b.file(ctx, idx, core.NewVersionedSignedAggregateAndProof(ap), "aggregate-and-proof")
	}
	return nil
}

func (b submitBN) SubmitSyncCommitteeMessages(ctx context.Context, msgs []*altair.SyncCommitteeMessage) error {
	for _, m := range msgs {
		if m == nil {
			b.bad("nil sync committee message submitted")
			continue
		}
		b.file(ctx, m.ValidatorIndex, core.NewSignedSyncMessage(m), "sync committee message")
	}
	return nil
}

func (b submitBN) SubmitSyncCommitteeContributions(ctx context.Context, cs []*altair.SignedContributionAndProof) error {
	for _, c := range cs {
		if c == nil || c.Message == nil {
			b.bad("empty contribution-and-proof submitted")
			continue
		}
		b.file(ctx, c.Message.AggregatorIndex, core.NewSignedSyncContributionAndProof(c), "contribution-and-proof")
	}
	return nil
}

// chainBcast records what the workflow hands to the broadcaster and then lets the production broadcaster
// submit it to the node's beacon node.
type chainBcast struct {
	rec  func(core.Duty, core.SignedDataSet)
	prod bcast.Broadcaster
}

func (c chainBcast) Broadcast(ctx context.Context, d core.Duty, set core.SignedDataSet) error {
	c.rec(d, set)
	return c.prod.Broadcast(context.WithValue(ctx, dutyCtxKey{}, d), d, set)
}

var _ = eth2spec.DataVersionElectra
