// C01 — the cluster never emits two different signed objects for one duty and validator.
//
// n real node stacks (production consensus component, dutydb, validatorapi, parsigdb, parsigex,
// sigagg, aggsigdb, deadliners) stitched by the real core.Wire run over memnet inside a synctest
// bubble. Scheduler and fetcher are harness stubs (trigger a duty; feed the node its own candidate
// data), the validator client is a harness actor that signs what the node serves with that node's
// key share, broadcaster and aggsigdb are tapped. The harness owns every frame and the clock.
package c01

import (
	"context"
	"crypto/sha256"
	"encoding/json"
	"fmt"
	"sort"
	"strings"
	"sync"
	"testing"
	"testing/synctest"
	"time"

	"github.com/OffchainLabs/go-bitfield"
	eth2api "github.com/attestantio/go-eth2-client/api"
	eth2v1 "github.com/attestantio/go-eth2-client/api/v1"
	eth2spec "github.com/attestantio/go-eth2-client/spec"
	"github.com/attestantio/go-eth2-client/spec/altair"
	"github.com/attestantio/go-eth2-client/spec/electra"
	eth2p0 "github.com/attestantio/go-eth2-client/spec/phase0"
	k1 "github.com/decred/dcrd/dcrec/secp256k1/v4"
	"github.com/libp2p/go-libp2p/core/peer"
	"pgregory.net/rapid"

	"github.com/obolnetwork/charon/core"
	"github.com/obolnetwork/charon/core/aggsigdb"
	"github.com/obolnetwork/charon/core/bcast"
	cqbft "github.com/obolnetwork/charon/core/consensus/qbft"
	pbv1 "github.com/obolnetwork/charon/core/corepb/v1"
	"github.com/obolnetwork/charon/core/dutydb"
	"github.com/obolnetwork/charon/core/fetcher"
	"github.com/obolnetwork/charon/core/parsigdb"
	"github.com/obolnetwork/charon/core/parsigex"
	"github.com/obolnetwork/charon/core/sigagg"
	"github.com/obolnetwork/charon/core/validatorapi"
	"github.com/obolnetwork/charon/p2p"
	"github.com/obolnetwork/charon/tbls"

	"verifharness/fakebn"
	"verifharness/memnet"
	"verifharness/specsign"
	"verifharness/vstat"
)

func TestMain(m *testing.M) { vstat.Main(m) }

const rule = "n in 3..5 (7 in thorough) real node stacks wired by core.Wire over memnet in a synctest bubble, threshold ceil(2n/3), 1-2 validators; duties: attester (consensus path), sync message and exit (no consensus); per-node candidate attestation data from 1-3 variants, drawn start order and lateness, up to f crashed nodes, up to f nodes that additionally send (per recipient) partial signatures made with their own share over drawn variants, event sequence of deliver / drop / duplicate of consensus and partial-signature frames and clock advances, then a fair drain; " +
	"oracle over every object seen at any node's Broadcaster.Broadcast or AggSigDB.Store and every object the node's production broadcaster submits to its beacon node (attributed to the validator named inside the object): its signature verifies under the validator's group key for the specsign signing root of its own content, and all objects of one (duty, validator) have the same signing root; " +
	"non-trivial = >=2 distinct candidate variants were proposed and >=1 aggregate was published; distinct by (n, variants, faults, published roots)"

func nodeKey(i int) *k1.PrivateKey {
	h := sha256.Sum256([]byte(fmt.Sprintf("verif-c01-node-%d", i)))
	return k1.PrivKeyFromBytes(h[:])
}

type validator struct {
	index   eth2p0.ValidatorIndex
	shares  map[int]tbls.PrivateKey
	pubs    map[int]tbls.PublicKey
	group   tbls.PublicKey
	corePub core.PubKey
}

type material struct {
	n, t int
	vals []*validator
}

var materialCache = map[int]*material{}

func newMaterial(n int) *material {
	if m, ok := materialCache[n]; ok {
		return m
	}
	m := &material{n: n, t: (2*n + 2) / 3}
	for v := 0; v < 2; v++ {
		secret, err := tbls.GenerateSecretKey()
		must(err)
		shares, err := tbls.ThresholdSplit(secret, uint(n), uint(m.t))
		must(err)
		val := &validator{index: eth2p0.ValidatorIndex(10 + v), shares: shares, pubs: map[int]tbls.PublicKey{}}
		for i, s := range shares {
			val.pubs[i], err = tbls.SecretToPublicKey(s)
			must(err)
		}
		val.group, err = tbls.SecretToPublicKey(secret)
		must(err)
		val.corePub, err = core.PubKeyFromBytes(val.group[:])
		must(err)
		m.vals = append(m.vals, val)
	}
	materialCache[n] = m
	return m
}

func must(err error) {
	if err != nil {
		panic("HARNESS-ERROR: " + err.Error())
	}
}

// ---- stubs

type stubSched struct {
	mu   sync.Mutex
	subs []func(context.Context, core.Duty, core.DutyDefinitionSet) error
	defs map[core.Duty]core.DutyDefinitionSet
}

func (s *stubSched) SubscribeDuties(fn func(context.Context, core.Duty, core.DutyDefinitionSet) error) {
	s.subs = append(s.subs, fn)
}
func (s *stubSched) SubscribeSlots(func(context.Context, core.Slot) error) {}
func (s *stubSched) GetDutyDefinition(_ context.Context, d core.Duty) (core.DutyDefinitionSet, error) {
	s.mu.Lock()
	defer s.mu.Unlock()
	if set, ok := s.defs[d]; ok {
		return set, nil
	}
	return nil, fmt.Errorf("duty %v not resolved", d)
}
func (s *stubSched) RegisterFetcherFetchOnly(func(context.Context, core.Duty, core.DutyDefinitionSet, string, eth2p0.Root) error) {
}

type stubFetch struct {
	subs      []func(context.Context, core.Duty, core.UnsignedDataSet) error
	candidate func(core.Duty, core.DutyDefinitionSet) core.UnsignedDataSet
}

func (f *stubFetch) Fetch(ctx context.Context, d core.Duty, defs core.DutyDefinitionSet) error {
	set := f.candidate(d, defs)
	if set == nil {
		return nil
	}
	for _, sub := range f.subs {
		c, err := set.Clone()
		if err != nil {
			return err
		}
		if err := sub(ctx, d, c); err != nil {
			return err
		}
	}
	return nil
}
func (f *stubFetch) FetchOnly(context.Context, core.Duty, core.DutyDefinitionSet, string, eth2p0.Root) error {
	return nil
}
func (f *stubFetch) Subscribe(fn func(context.Context, core.Duty, core.UnsignedDataSet) error) {
	f.subs = append(f.subs, fn)
}
func (f *stubFetch) RegisterAggSigDB(func(context.Context, core.Duty, core.PubKey, core.SubcommitteeIndex) (core.SignedData, error)) {
}
func (f *stubFetch) RegisterAwaitAttData(func(context.Context, uint64, uint64) (*eth2p0.AttestationData, error)) {
}

// nodeBN is the beacon node as one cluster node's fetcher sees it: the node's own head (attestation data
// variant) and its own candidate block (nodes with the same variant are served the same block).
type nodeBN struct {
	*fakebn.BN
	variant   byte
	blockSeed int64
	proposer  eth2p0.ValidatorIndex
}

func (b nodeBN) AttestationData(_ context.Context, opts *eth2api.AttestationDataOpts) (*eth2api.Response[*eth2p0.AttestationData], error) {
	ad := attData(uint64(opts.Slot), b.variant)
	return &eth2api.Response[*eth2p0.AttestationData]{Data: &ad}, nil
}

func (b nodeBN) Proposal(_ context.Context, opts *eth2api.ProposalOpts) (*eth2api.Response[*eth2api.VersionedProposal], error) {
	p := genBlock(b.blockSeed)
	setHeader(p, opts.Slot, b.proposer, opts.RandaoReveal, b.variant)
	return &eth2api.Response[*eth2api.VersionedProposal]{Data: p}, nil
}

// AggregateAttestation: the aggregate this node's beacon node has seen for the attestation data with that root
// (which votes it has collected differs from node to node).
func (b nodeBN) AggregateAttestation(_ context.Context, opts *eth2api.AggregateAttestationOpts) (*eth2api.Response[*eth2spec.VersionedAttestation], error) {
	for _, variant := range []byte{'a', 'b', 'c'} {
		ad := attData(uint64(opts.Slot), variant)
		if r, err := ad.HashTreeRoot(); err == nil && r == opts.AttestationDataRoot {
			return &eth2api.Response[*eth2spec.VersionedAttestation]{Data: aggregateOf(ad, b.variant)}, nil
		}
	}
	return nil, fmt.Errorf("aggregate attestation not found by root")
}

// SyncCommitteeContribution: the contribution this node's beacon node has aggregated so far for the subcommittee and
// block root (which messages it has seen differs from node to node).
func (b nodeBN) SyncCommitteeContribution(_ context.Context, opts *eth2api.SyncCommitteeContributionOpts) (*eth2api.Response[*altair.SyncCommitteeContribution], error) {
	return &eth2api.Response[*altair.SyncCommitteeContribution]{Data: contributionOf(opts.Slot, opts.SubcommitteeIndex, opts.BeaconBlockRoot, b.variant)}, nil
}

func contributionOf(slot eth2p0.Slot, subcomm uint64, root eth2p0.Root, seenBy byte) *altair.SyncCommitteeContribution {
	bits := bitfield.NewBitvector128()
	for k := uint64(0); k <= uint64(seenBy-'a')+1; k++ {
		bits.SetBitAt(k, true)
	}
	var sig eth2p0.BLSSignature
	sig[0], sig[1] = 0xc5, seenBy
	return &altair.SyncCommitteeContribution{Slot: slot, BeaconBlockRoot: root, SubcommitteeIndex: subcomm, AggregationBits: bits, Signature: sig}
}

// aggregateOf is an aggregate over the data as the beacon node of a node with that variant has collected it.
func aggregateOf(ad eth2p0.AttestationData, seenBy byte) *eth2spec.VersionedAttestation {
	cb := bitfield.NewBitvector64()
	cb.SetBitAt(commIdx, true)
	ab := bitfield.NewBitlist(8)
	for k := uint64(0); k <= uint64(seenBy-'a')+1; k++ {
		ab.SetBitAt(k, true)
	}
	var sig eth2p0.BLSSignature
	sig[0], sig[1] = 0xa9, seenBy
	return &eth2spec.VersionedAttestation{Version: eth2spec.DataVersionElectra, Electra: &electra.Attestation{AggregationBits: ab, Data: &ad, CommitteeBits: cb, Signature: sig}}
}

// tapFetch records every candidate set a node's fetcher hands to its subscribers (consensus proposes it).
type tapFetch struct {
	core.Fetcher
	rec func(core.Duty, core.UnsignedDataSet)
}

func (t tapFetch) Subscribe(fn func(context.Context, core.Duty, core.UnsignedDataSet) error) {
	t.Fetcher.Subscribe(func(ctx context.Context, d core.Duty, set core.UnsignedDataSet) error {
		t.rec(d, set)
		return fn(ctx, d, set)
	})
}

type published struct {
	node   int
	where  string
	duty   core.Duty
	pubkey core.PubKey
	data   core.SignedData
}

type tapAggDB struct {
	inner *aggsigdb.MemDB
	rec   func(core.Duty, core.SignedDataSet)
}

func (t tapAggDB) Store(ctx context.Context, d core.Duty, set core.SignedDataSet) error {
	t.rec(d, set)
	return t.inner.Store(ctx, d, set)
}
func (t tapAggDB) Await(ctx context.Context, d core.Duty, pk core.PubKey, sub core.SubcommitteeIndex) (core.SignedData, error) {
	return t.inner.Await(ctx, d, pk, sub)
}

func (t tapAggDB) Run(ctx context.Context) { t.inner.Run(ctx) }

// tapDutyDB records what the consensus component hands to the duty store on decision.
type tapDutyDB struct {
	*dutydb.MemDB
	rec func(core.Duty, core.UnsignedDataSet)
}

func (t tapDutyDB) Store(ctx context.Context, d core.Duty, set core.UnsignedDataSet) error {
	t.rec(d, set)
	return t.MemDB.Store(ctx, d, set)
}

type tapBcast struct {
	rec func(core.Duty, core.SignedDataSet)
}

func (t tapBcast) Broadcast(_ context.Context, d core.Duty, set core.SignedDataSet) error {
	t.rec(d, set)
	return nil
}

type decision struct {
	node int
	duty core.Duty
	set  string
}

type node struct {
	idx     int
	cancel  context.CancelFunc
	ctx     context.Context
	host    *memnet.Host
	vapi    *validatorapi.Component
	sched   *stubSched
	crashed bool
	started map[core.Duty]bool
}

func attData(slot uint64, variant byte) eth2p0.AttestationData {
	var head, src eth2p0.Root
	head[0] = variant
	src[0] = 9
	if variant == 'c' {
		src[0] = 8 // a different source checkpoint
	}
	return eth2p0.AttestationData{Slot: eth2p0.Slot(slot), Index: 0, BeaconBlockRoot: head,
		Source: &eth2p0.Checkpoint{Epoch: 0, Root: src}, Target: &eth2p0.Checkpoint{Epoch: eth2p0.Epoch(slot / 32), Root: eth2p0.Root{7}}}
}

const commIdx = 3

func TestC01Cluster(t *testing.T) {
	vstat.Rule("C01", rule)
	vstat.Assume("Byzantine behaviour is limited to partial signatures made with the faulty node's own share (C02 covers Byzantine consensus); scheduler and fetcher are stubs; proposer duty is not exercised")
	maxN := 5
	if vstat.Thorough() {
		maxN = 7
	}
	outerT = t
	rapid.Check(t, func(rt *rapid.T) {
		rapid.SyncTest(rt, func(rt *rapid.T) { runCase(rt, maxN) })
	})
}

func runCase(rt *rapid.T, maxN int) {
	n := rapid.IntRange(3, maxN).Draw(rt, "n")
	mat := newMaterial(n)
	f := (n - 1) / 3
	nVals := rapid.SampledFrom([]int{1, 2, 2, 2}).Draw(rt, "validators")
	vals := mat.vals[:nVals]
	genesis := time.Now()
	bn := fakebn.NewCompact(genesis, 12*time.Second, 32)
	active := map[eth2p0.ValidatorIndex]eth2p0.BLSPubKey{}
	pubshares := map[core.PubKey]map[int]tbls.PublicKey{}
	for _, v := range vals {
		active[v.index] = eth2p0.BLSPubKey(v.group)
		pubshares[v.corePub] = v.pubs
	}
	bn.SetValidators(active)

	var peerIDs []peer.ID
	var peers []p2p.Peer
	for i := 0; i < n; i++ {
		id, err := p2p.PeerIDFromKey(nodeKey(i).PubKey())
		must(err)
		peerIDs = append(peerIDs, id)
		peers = append(peers, p2p.Peer{ID: id, Index: i, Name: fmt.Sprintf("node%d", i)})
	}
	net := memnet.New()
	rootCtx, cancelAll := context.WithCancel(context.Background())
	var mu sync.Mutex
	var pubs []published
	var badSubmits []string // objects handed to a beacon node that cannot be attributed to a cluster validator
	var decided []decision
	var wg sync.WaitGroup
	goFn := func(fn func()) {
		wg.Add(1)
		go func() { defer wg.Done(); fn() }()
	}

	// per-node candidate variants
	variants := []byte{'a', 'b', 'c'}
	nVariants := rapid.IntRange(1, 3).Draw(rt, "nVariants")
	nodeVariant := make([]byte, n)
	for i := range nodeVariant {
		nodeVariant[i] = variants[rapid.IntRange(0, nVariants-1).Draw(rt, "variant")]
	}
	// half of the cases run the production fetcher (over a per-node view of the beacon node) instead of the stub;
	// those may also run the proposer flow: randao reveal -> aggregated randao -> block fetch -> consensus -> signed block
	realFetch := rapid.Bool().Draw(rt, "productionFetcher")
	withProposer := realFetch && rapid.IntRange(0, 2).Draw(rt, "withProposer") != 0
	variantSeed := map[byte]int64{}
	for _, v := range variants {
		variantSeed[v] = int64(rapid.IntRange(0, 11).Draw(rt, "blockSeed"))
	}
	proposerVal := vals[rapid.IntRange(0, nVals-1).Draw(rt, "proposer")]
	dutySlot := uint64(1)
	propDuty := core.NewProposerDuty(dutySlot)
	propDefs := core.DutyDefinitionSet{proposerVal.corePub: core.NewProposerDefinition(&eth2v1.ProposerDuty{PubKey: eth2p0.BLSPubKey(proposerVal.group), Slot: eth2p0.Slot(dutySlot), ValidatorIndex: proposerVal.index})}
	proposed := map[string]bool{}
	// ... and the aggregation flow: selection proofs (partial) -> aggregated selections -> aggregate fetched for the
	// decided attestation data -> consensus -> signed aggregate-and-proof
	withAggregator := realFetch && rapid.IntRange(0, 2).Draw(rt, "withAggregator") == 0
	// ... and the sync contribution flow (it needs the sync message flow): partial sync committee selection proofs ->
	// aggregated selections -> the node's beacon node's contribution for the agreed sync message's block root ->
	// consensus -> signed contribution-and-proof
	withContribution := realFetch && rapid.IntRange(0, 2).Draw(rt, "withContribution") == 0
	prepContribDuty := core.NewPrepareSyncContributionDuty(dutySlot)
	contribDuty := core.NewSyncContributionDuty(dutySlot)
	syncDefs := core.DutyDefinitionSet{}
	subcommsOf := map[eth2p0.ValidatorIndex][]uint64{}
	for k, v := range vals {
		// validators often share a subcommittee (their contributions then travel in one set)
		first := uint64(rapid.IntRange(0, 1).Draw(rt, "subcommittee"))
		idxs := []eth2p0.CommitteeIndex{eth2p0.CommitteeIndex(3 + uint64(k) + 128*first)}
		subcommsOf[v.index] = []uint64{first}
		if rapid.IntRange(0, 2).Draw(rt, "secondSubcommittee") == 0 {
			// the validator also sits in a second subcommittee (only its lowest one contributes in the single-contribution wire format)
			second := (first + 1 + uint64(rapid.IntRange(0, 2).Draw(rt, "secondSubcommitteeIdx"))) % 4
			idxs = append(idxs, eth2p0.CommitteeIndex(70+uint64(k)+128*second))
			subcommsOf[v.index] = append(subcommsOf[v.index], second)
		}
		syncDefs[v.corePub] = core.NewSyncCommitteeDefinition(&eth2v1.SyncCommitteeDuty{PubKey: eth2p0.BLSPubKey(v.group), ValidatorIndex: v.index, ValidatorSyncCommitteeIndices: idxs})
	}
	prepAggDuty := core.NewPrepareAggregatorDuty(dutySlot)
	aggDuty := core.NewAggregatorDuty(dutySlot)
	attDuty := core.NewAttesterDuty(dutySlot)
	syncDuty := core.NewSyncMessageDuty(dutySlot)
	exitDuty := core.NewVoluntaryExit(0)

	attDefs := core.DutyDefinitionSet{}
	for _, v := range vals {
		attDefs[v.corePub] = core.NewAttesterDefinition(&eth2v1.AttesterDuty{PubKey: eth2p0.BLSPubKey(v.group), Slot: eth2p0.Slot(dutySlot), ValidatorIndex: v.index, CommitteeIndex: commIdx, CommitteeLength: 8, CommitteesAtSlot: 8, ValidatorCommitteeIndex: uint64(v.index % 8)})
	}

	deadlineFn, err := core.NewDutyDeadlineFunc(rootCtx, bn)
	must(err)
	gater, err := core.NewDutyGater(rootCtx, bn)
	must(err)

	nodes := make([]*node, n)
	for i := 0; i < n; i++ {
		ctx, cancel := context.WithCancel(rootCtx)
		nd := &node{idx: i, ctx: ctx, cancel: cancel, host: net.Host(peerIDs[i]), started: map[core.Duty]bool{}}
		nodes[i] = nd
		rec := func(where string) func(core.Duty, core.SignedDataSet) {
			return func(d core.Duty, set core.SignedDataSet) {
				mu.Lock()
				defer mu.Unlock()
				for pk, data := range set {
					c, err := data.Clone()
					must(err)
					pubs = append(pubs, published{i, where, d, pk, c})
				}
			}
		}
		cons, err := cqbft.NewConsensus(ctx, bn, nd.host, new(p2p.Sender), peers, nodeKey(i), core.NewDeadliner(ctx, "consensus", deadlineFn), gater, func(*pbv1.SniffedConsensusInstance) {}, false)
		must(err)
		cons.Start(ctx)
		ddb := dutydb.NewMemDB(core.NewDeadliner(ctx, "dutydb", deadlineFn))
		vapi, err := validatorapi.NewComponent(bn, pubshares, i+1, func(core.PubKey) string { return "" }, false, 0)
		must(err)
		psdb := parsigdb.NewMemDB(mat.t, core.NewDeadliner(ctx, "parsigdb", deadlineFn), parsigdb.NewMemDBMetadata(12, genesis))
		goFn(func() { psdb.Trim(ctx) })
		verifier, err := parsigex.NewEth2Verifier(bn, pubshares)
		must(err)
		psex := parsigex.NewParSigEx(nd.host, p2p.Send, i, peerIDs, verifier, gater)
		agg, err := sigagg.New(mat.t, sigagg.NewVerifier(bn))
		must(err)
		asdb := aggsigdb.NewMemDB(core.NewDeadliner(ctx, "aggsigdb", deadlineFn))
		goFn(func() { asdb.Run(ctx) })
		nd.sched = &stubSched{defs: map[core.Duty]core.DutyDefinitionSet{attDuty: attDefs, propDuty: propDefs, aggDuty: attDefs, prepAggDuty: attDefs, contribDuty: syncDefs, prepContribDuty: syncDefs}}
		var fetch core.Fetcher = &stubFetch{candidate: func(d core.Duty, defs core.DutyDefinitionSet) core.UnsignedDataSet {
			if d.Type != core.DutyAttester {
				return nil
			}
			set := core.UnsignedDataSet{}
			for pk, def := range defs {
				ad := def.(core.AttesterDefinition)
				set[pk] = core.AttestationData{Data: attData(d.Slot, nodeVariant[i]), Duty: ad.AttesterDuty}
			}
			return set
		}}
		decidedRec := func(d core.Duty, set core.UnsignedDataSet) {
			b, err := json.Marshal(set)
			must(err)
			mu.Lock()
			decided = append(decided, decision{i, d, string(b)})
			mu.Unlock()
		}
		if realFetch {
			gb, err := fetcher.NewGraffitiBuilder(nil, nil, true, bn)
			must(err)
			fetch, err = fetcher.New(nodeBN{bn, nodeVariant[i], variantSeed[nodeVariant[i]], proposerVal.index}, func(core.PubKey) string { return "0x0000000000000000000000000000000000000000" }, false, gb, 0, false)
			must(err)
		}
		proposedRec := func(d core.Duty, set core.UnsignedDataSet) {
			b, err := json.Marshal(set)
			must(err)
			mu.Lock()
			proposed[d.String()+string(b)] = true
			mu.Unlock()
		}
		// the production broadcaster behind the tap: what it submits to the node's beacon node is the
		// "object handed to the beacon node" of the property
		sbn := submitBN{BN: bn,
			byIndex: func(idx eth2p0.ValidatorIndex) (core.PubKey, bool) {
				for _, v := range vals {
					if v.index == idx {
						return v.corePub, true
					}
				}
				return "", false
			},
			whose: func(data core.SignedData) (eth2p0.ValidatorIndex, bool) {
				for _, v := range vals {
					if specsign.Verify(bn, v.group, data) == nil {
						return v.index, true
					}
				}
				return 0, false
			},
			rec: func(d core.Duty, pk core.PubKey, data core.SignedData) {
				c, err := data.Clone()
				must(err)
				mu.Lock()
				pubs = append(pubs, published{i, "beacon_node", d, pk, c})
				mu.Unlock()
			},
			bad: func(what string) {
				mu.Lock()
				badSubmits = append(badSubmits, fmt.Sprintf("node %d: %s", i, what))
				mu.Unlock()
			}}
		prodBcast, err := bcast.New(ctx, sbn)
		must(err)
		core.Wire(nd.sched, tapFetch{fetch, proposedRec}, cons, tapDutyDB{ddb, decidedRec}, vapi, psdb, psex, agg, tapAggDB{asdb, rec("aggsigdb")}, chainBcast{rec("broadcast"), prodBcast})
		nd.vapi = vapi
	}

	defer func() {
		cancelAll()
		for net.NPending() > 0 {
			net.Drop(net.Take(0))
		}
		wg.Wait()
		synctest.Wait()
	}()

	var trace []string
	logf := func(format string, a ...any) { trace = append(trace, fmt.Sprintf(format, a...)) }

	// the duty's start: attester duties start a third into the slot
	// (with the proposer flow the case begins at the slot's start: the randao and proposer duties expire
	// a third of a slot plus a margin later, and a late block is as interesting as a timely one)
	startOffset, advanceUnit := 4*time.Second, 100*time.Millisecond
	if withProposer {
		startOffset, advanceUnit = 0, time.Duration(rapid.SampledFrom([]int{10, 25, 100}).Draw(rt, "advanceUnit_ms"))*time.Millisecond
	}
	time.Sleep(time.Until(genesis.Add(time.Duration(dutySlot)*12*time.Second + startOffset)))

	// per node: does its validator client submit all validators in one call or one by one
	batchVC := make([]bool, n)
	for i := range batchVC {
		batchVC[i] = rapid.Bool().Draw(rt, "vcSubmitsBatch")
	}
	startDuty := func(i int, d core.Duty) {
		nd := nodes[i]
		if nd.crashed || nd.started[d] {
			return
		}
		nd.started[d] = true
		switch d.Type {
		case core.DutyAttester:
			for _, sub := range nd.sched.subs {
				goFn(func() { _ = sub(nd.ctx, d, attDefs) })
			}
			if batchVC[i] && len(vals) > 1 {
				// this node's validator client signs for all its validators and submits them in one call
				goFn(func() {
					var list []*eth2spec.VersionedAttestation
					for _, v := range vals {
						resp, err := nd.vapi.AttestationData(nd.ctx, &eth2api.AttestationDataOpts{Slot: eth2p0.Slot(d.Slot), CommitteeIndex: commIdx})
						if err != nil {
							return
						}
						cb := bitfield.NewBitvector64()
						cb.SetBitAt(commIdx, true)
						ab := bitfield.NewBitlist(8)
						ab.SetBitAt(uint64(v.index%8), true)
						idx := v.index
						att := &eth2spec.VersionedAttestation{Version: eth2spec.DataVersionElectra, ValidatorIndex: &idx, Electra: &electra.Attestation{AggregationBits: ab, Data: resp.Data, CommitteeBits: cb}}
						cv, err := core.NewVersionedAttestation(att)
						must(err)
						s, err := specsign.Sign(bn, v.shares[i+1], cv)
						must(err)
						copy(att.Electra.Signature[:], s.Signature())
						list = append(list, att)
					}
					_ = nd.vapi.SubmitAttestations(nd.ctx, &eth2api.SubmitAttestationsOpts{Attestations: list})
				})
				break
			}
			// the validator client of this node: one goroutine per validator
			for _, v := range vals {
				goFn(func() {
					resp, err := nd.vapi.AttestationData(nd.ctx, &eth2api.AttestationDataOpts{Slot: eth2p0.Slot(d.Slot), CommitteeIndex: commIdx})
					if err != nil {
						return
					}
					cb := bitfield.NewBitvector64()
					cb.SetBitAt(commIdx, true)
					ab := bitfield.NewBitlist(8)
					ab.SetBitAt(uint64(v.index%8), true)
					idx := v.index
					att := &eth2spec.VersionedAttestation{Version: eth2spec.DataVersionElectra, ValidatorIndex: &idx, Electra: &electra.Attestation{AggregationBits: ab, Data: resp.Data, CommitteeBits: cb}}
					cv, err := core.NewVersionedAttestation(att)
					must(err)
					s, err := specsign.Sign(bn, v.shares[i+1], cv)
					must(err)
					copy(att.Electra.Signature[:], s.Signature())
					_ = nd.vapi.SubmitAttestations(nd.ctx, &eth2api.SubmitAttestationsOpts{Attestations: []*eth2spec.VersionedAttestation{att}})
				})
			}
		case core.DutyAggregator:
			for _, sub := range nd.sched.subs {
				goFn(func() { _ = sub(nd.ctx, d, attDefs) })
			}
			// the validator client: selection proofs (partial) for all its validators, wait for the aggregated
			// ones, ask for the aggregate of the decided attestation data, sign aggregate-and-proof, submit
			goFn(func() {
				var sels []*eth2v1.BeaconCommitteeSelection
				for _, v := range vals {
					sel := &eth2v1.BeaconCommitteeSelection{ValidatorIndex: v.index, Slot: eth2p0.Slot(d.Slot)}
					s, err := specsign.Sign(bn, v.shares[i+1], core.NewBeaconCommitteeSelection(sel))
					must(err)
					sel.SelectionProof = s.Signature().ToETH2()
					sels = append(sels, sel)
				}
				selResp, err := nd.vapi.BeaconCommitteeSelections(nd.ctx, &eth2api.BeaconCommitteeSelectionsOpts{Selections: sels})
				if err != nil {
					return
				}
				adResp, err := nd.vapi.AttestationData(nd.ctx, &eth2api.AttestationDataOpts{Slot: eth2p0.Slot(d.Slot), CommitteeIndex: commIdx})
				if err != nil {
					return
				}
				root, err := adResp.Data.HashTreeRoot()
				must(err)
				aggResp, err := nd.vapi.AggregateAttestation(nd.ctx, &eth2api.AggregateAttestationOpts{Slot: eth2p0.Slot(d.Slot), AttestationDataRoot: root, CommitteeIndex: commIdx})
				if err != nil {
					return
				}
				var list []*eth2spec.VersionedSignedAggregateAndProof
				for _, sel := range selResp.Data {
					var v *validator
					for _, x := range vals {
						if x.index == sel.ValidatorIndex {
							v = x
						}
					}
					ap := &eth2spec.VersionedSignedAggregateAndProof{Version: eth2spec.DataVersionElectra, Electra: &electra.SignedAggregateAndProof{Message: &electra.AggregateAndProof{AggregatorIndex: v.index, Aggregate: aggResp.Data.Electra, SelectionProof: sel.SelectionProof}}}
					s, err := specsign.Sign(bn, v.shares[i+1], core.NewVersionedSignedAggregateAndProof(ap))
					must(err)
					ap.Electra.Signature = s.Signature().ToETH2()
					list = append(list, ap)
				}
				_ = nd.vapi.SubmitAggregateAttestations(nd.ctx, &eth2api.SubmitAggregateAttestationsOpts{SignedAggregateAndProofs: list})
			})
		case core.DutySyncContribution:
			for _, sub := range nd.sched.subs {
				goFn(func() { _ = sub(nd.ctx, d, syncDefs) })
			}
			// the validator client: partial selection proofs for every (validator, subcommittee), wait for the aggregated
			// ones, ask for the agreed contribution of its own head's block root, sign contribution-and-proof, submit
			goFn(func() {
				var sels []*eth2v1.SyncCommitteeSelection
				for _, v := range vals {
					for _, sc := range subcommsOf[v.index] {
						sel := &eth2v1.SyncCommitteeSelection{ValidatorIndex: v.index, Slot: eth2p0.Slot(d.Slot), SubcommitteeIndex: sc}
						s, err := specsign.Sign(bn, v.shares[i+1], core.NewSyncCommitteeSelection(sel))
						must(err)
						sel.SelectionProof = s.Signature().ToETH2()
						sels = append(sels, sel)
					}
				}
				selResp, err := nd.vapi.SyncCommitteeSelections(nd.ctx, &eth2api.SyncCommitteeSelectionsOpts{Selections: sels})
				if err != nil {
					return
				}
				var root eth2p0.Root
				root[0] = nodeVariant[i]
				var list []*altair.SignedContributionAndProof
				for _, sel := range selResp.Data {
					var v *validator
					for _, x := range vals {
						if x.index == sel.ValidatorIndex {
							v = x
						}
					}
					lowest := subcommsOf[v.index][0]
					for _, sc := range subcommsOf[v.index] {
						lowest = min(lowest, sc)
					}
					if sel.SubcommitteeIndex != lowest {
						continue // single-contribution wire format: only the validator's lowest subcommittee contributes
					}
					cResp, err := nd.vapi.SyncCommitteeContribution(nd.ctx, &eth2api.SyncCommitteeContributionOpts{Slot: eth2p0.Slot(d.Slot), SubcommitteeIndex: sel.SubcommitteeIndex, BeaconBlockRoot: root})
					if err != nil {
						return
					}
					cp := &altair.SignedContributionAndProof{Message: &altair.ContributionAndProof{AggregatorIndex: v.index, Contribution: cResp.Data, SelectionProof: sel.SelectionProof}}
					s, err := specsign.Sign(bn, v.shares[i+1], core.NewSignedSyncContributionAndProof(cp))
					must(err)
					cp.Signature = s.Signature().ToETH2()
					list = append(list, cp)
				}
				if len(list) > 0 {
					_ = nd.vapi.SubmitSyncCommitteeContributions(nd.ctx, list)
				}
			})
		case core.DutyProposer:
			for _, sub := range nd.sched.subs {
				goFn(func() { _ = sub(nd.ctx, d, propDefs) })
			}
			// the validator client: reveal randao (partial), wait for the agreed block, sign it, submit it
			goFn(func() {
				r, err := specsign.Sign(bn, proposerVal.shares[i+1], core.NewSignedRandao(eth2p0.Epoch(d.Slot/32), eth2p0.BLSSignature{}))
				must(err)
				resp, err := nd.vapi.Proposal(nd.ctx, &eth2api.ProposalOpts{Slot: eth2p0.Slot(d.Slot), RandaoReveal: r.Signature().ToETH2()})
				if err != nil {
					return
				}
				signed := signedOf(resp.Data)
				cv, err := core.NewVersionedSignedProposal(signed)
				must(err)
				s, err := specsign.Sign(bn, proposerVal.shares[i+1], cv)
				must(err)
				*sigField(signed) = s.Signature().ToETH2()
				if signed.Blinded {
					_ = nd.vapi.SubmitBlindedProposal(nd.ctx, &eth2api.SubmitBlindedProposalOpts{Proposal: blindedOf(signed)})
				} else {
					_ = nd.vapi.SubmitProposal(nd.ctx, &eth2api.SubmitProposalOpts{Proposal: signed})
				}
			})
		case core.DutySyncMessage:
			if batchVC[i] && len(vals) > 1 {
				goFn(func() {
					var list []*altair.SyncCommitteeMessage
					for _, v := range vals {
						msg := &altair.SyncCommitteeMessage{Slot: eth2p0.Slot(d.Slot), ValidatorIndex: v.index}
						msg.BeaconBlockRoot[0] = nodeVariant[i]
						s, err := specsign.Sign(bn, v.shares[i+1], core.NewSignedSyncMessage(msg))
						must(err)
						copy(msg.Signature[:], s.Signature())
						list = append(list, msg)
					}
					_ = nd.vapi.SubmitSyncCommitteeMessages(nd.ctx, list)
				})
				break
			}
			for _, v := range vals {
				goFn(func() {
					msg := &altair.SyncCommitteeMessage{Slot: eth2p0.Slot(d.Slot), ValidatorIndex: v.index}
					msg.BeaconBlockRoot[0] = nodeVariant[i]
					s, err := specsign.Sign(bn, v.shares[i+1], core.NewSignedSyncMessage(msg))
					must(err)
					copy(msg.Signature[:], s.Signature())
					_ = nd.vapi.SubmitSyncCommitteeMessages(nd.ctx, []*altair.SyncCommitteeMessage{msg})
				})
			}
		case core.DutyExit:
			for _, v := range vals {
				goFn(func() {
					ex := &eth2p0.SignedVoluntaryExit{Message: &eth2p0.VoluntaryExit{Epoch: 0, ValidatorIndex: v.index}}
					s, err := specsign.Sign(bn, v.shares[i+1], core.NewSignedVoluntaryExit(ex))
					must(err)
					copy(ex.Signature[:], s.Signature())
					_ = nd.vapi.SubmitVoluntaryExit(nd.ctx, ex)
				})
			}
		}
		logf("start(%d,%s)", i, d.Type)
	}

	// fault sets
	byz := map[int]bool{}
	crashBudget := f
	if f > 0 {
		nb := rapid.IntRange(0, f).Draw(rt, "nByz")
		for len(byz) < nb {
			byz[rapid.IntRange(0, n-1).Draw(rt, "byz")] = true
		}
		crashBudget = f - nb
	}
	duties := []core.Duty{attDuty}
	if rapid.Bool().Draw(rt, "withSync") {
		duties = append(duties, syncDuty)
	}
	if rapid.IntRange(0, 3).Draw(rt, "withExit") == 0 {
		duties = append(duties, exitDuty)
	}
	if withProposer {
		duties = append(duties, propDuty)
	}
	if withAggregator {
		duties = append(duties, aggDuty)
	}
	if withContribution {
		hasSync := false
		for _, d := range duties {
			hasSync = hasSync || d == syncDuty
		}
		if !hasSync {
			duties = append(duties, syncDuty)
		}
		duties = append(duties, contribDuty)
	}
	equivocations, crashes, lateStarts, otherFork := 0, 0, 0, 0

	deliver := func(fr *memnet.Frame) {
		if nodes[indexOf(peerIDs, fr.To)].crashed {
			net.Drop(fr)
			return
		}
		net.Deliver(fr)
	}

	nEv := rapid.IntRange(20, vstat.EnvInt("VERIF_MAXEV", 150)).Draw(rt, "nEvents")
	for ev := 0; ev < nEv; ev++ {
		op := rapid.IntRange(0, 99).Draw(rt, "op")
		switch {
		case op < 18: // a node starts a duty
			i := rapid.IntRange(0, n-1).Draw(rt, "startNode")
			d := duties[rapid.IntRange(0, len(duties)-1).Draw(rt, "startDuty")]
			if ev > nEv/2 {
				lateStarts++
			}
			startDuty(i, d)
		case op < 72:
			if np := net.NPending(); np > 0 {
				fr := net.Take(rapid.IntRange(0, np-1).Draw(rt, "deliver"))
				deliver(fr)
				if rapid.IntRange(0, 11).Draw(rt, "dup") == 0 {
					synctest.Wait()
					deliver(fr)
					logf("dup")
				}
				logf("deliver(%d->%d,%s)", indexOf(peerIDs, fr.From), indexOf(peerIDs, fr.To), shortProto(string(fr.Proto)))
			}
		case op < 76:
			if np := net.NPending(); np > 0 {
				net.Drop(net.Take(rapid.IntRange(0, np-1).Draw(rt, "drop")))
				logf("drop")
			}
		case op < 86:
			d := time.Duration(rapid.IntRange(1, 20).Draw(rt, "advance")) * advanceUnit
			time.Sleep(d)
			logf("advance(%v)", d)
		case op < 89 && crashes < crashBudget:
			i := rapid.IntRange(0, n-1).Draw(rt, "crash")
			if !nodes[i].crashed && !byz[i] {
				nodes[i].crashed = true
				nodes[i].cancel()
				nodes[i].host.SetDown(true)
				crashes++
				logf("crash(%d)", i)
			}
		default: // a faulty node sends partial signatures over a drawn variant, per recipient
			if len(byz) == 0 {
				continue
			}
			var bs []int
			for b := range byz {
				bs = append(bs, b)
			}
			sort.Ints(bs)
			b := bs[rapid.IntRange(0, len(bs)-1).Draw(rt, "byzNode")]
			d := duties[rapid.IntRange(0, len(duties)-1).Draw(rt, "byzDuty")]
			for to := 0; to < n; to++ {
				if to == b || rapid.IntRange(0, 2).Draw(rt, "skipTo") == 0 {
					continue
				}
				variant := variants[rapid.IntRange(0, 2).Draw(rt, "byzVariant")]
				byzSlotShift := uint64(0)
				if d.Type == core.DutySyncMessage {
					byzSlotShift = rapid.SampledFrom([]uint64{0, 0, 1, 64, 128}).Draw(rt, "byzSlotShift")
					if byzSlotShift >= 64 {
						otherFork++
					}
				}
				set := core.ParSignedDataSet{}
				sendDuty := d
				if d.Type == core.DutyProposer && rapid.IntRange(0, 2).Draw(rt, "byzRandao") == 0 {
					sendDuty = core.NewRandaoDuty(d.Slot) // a partial randao reveal for another epoch
				}
				if d.Type == core.DutyAggregator && rapid.IntRange(0, 2).Draw(rt, "byzSelection") == 0 {
					sendDuty = prepAggDuty // a partial selection proof for another slot
				}
				if d.Type == core.DutySyncContribution && rapid.IntRange(0, 2).Draw(rt, "byzSyncSelection") == 0 {
					sendDuty = prepContribDuty // a partial sync selection proof for another slot / subcommittee
				}
				for _, v := range vals {
					if d.Type == core.DutyProposer && v != proposerVal {
						continue
					}
					var data core.SignedData
					switch sendDuty.Type {
					case core.DutyRandao:
						data = core.NewSignedRandao(eth2p0.Epoch(variant-'a'), eth2p0.BLSSignature{})
					case core.DutyPrepareAggregator:
						data = core.NewBeaconCommitteeSelection(&eth2v1.BeaconCommitteeSelection{ValidatorIndex: v.index, Slot: eth2p0.Slot(d.Slot + uint64(variant-'a'))})
					case core.DutyPrepareSyncContribution:
						data = core.NewSyncCommitteeSelection(&eth2v1.SyncCommitteeSelection{ValidatorIndex: v.index, Slot: eth2p0.Slot(d.Slot + uint64(variant-'a')), SubcommitteeIndex: subcommsOf[v.index][0] + uint64(variant-'a')%2})
					case core.DutySyncContribution:
						// its own contribution as its beacon node has it, for a drawn block root, with a selection proof it made up
						var root eth2p0.Root
						root[0] = variants[rapid.IntRange(0, 2).Draw(rt, "byzContribRoot")]
						data = core.NewSignedSyncContributionAndProof(&altair.SignedContributionAndProof{Message: &altair.ContributionAndProof{AggregatorIndex: v.index, Contribution: contributionOf(eth2p0.Slot(d.Slot), subcommsOf[v.index][0], root, variant)}})
					case core.DutyAggregator:
						// its own aggregate over a drawn variant of the data, with a selection proof it made up
						data = core.NewVersionedSignedAggregateAndProof(&eth2spec.VersionedSignedAggregateAndProof{Version: eth2spec.DataVersionElectra, Electra: &electra.SignedAggregateAndProof{Message: &electra.AggregateAndProof{AggregatorIndex: v.index, Aggregate: aggregateOf(attData(d.Slot, variant), variant).Electra}}})
					case core.DutyProposer:
						p := genBlock(variantSeed[variant])
						setHeader(p, eth2p0.Slot(d.Slot), v.index, eth2p0.BLSSignature{}, variant)
						cv, err := core.NewVersionedSignedProposal(signedOf(p))
						must(err)
						data = cv
					case core.DutyAttester:
						cb := bitfield.NewBitvector64()
						cb.SetBitAt(commIdx, true)
						ab := bitfield.NewBitlist(8)
						ab.SetBitAt(uint64(v.index%8), true)
						idx := v.index
						ad := attData(d.Slot, variant)
						cv, err := core.NewVersionedAttestation(&eth2spec.VersionedAttestation{Version: eth2spec.DataVersionElectra, ValidatorIndex: &idx, Electra: &electra.Attestation{AggregationBits: ab, Data: &ad, CommitteeBits: cb}})
						must(err)
						data = cv
					case core.DutySyncMessage:
						// the slot is not part of a sync message's root, but it selects the signing domain:
						// the faulty node may claim another slot (same fork, or a later fork of the schedule)
						msg := &altair.SyncCommitteeMessage{Slot: eth2p0.Slot(d.Slot + byzSlotShift), ValidatorIndex: v.index}
						msg.BeaconBlockRoot[0] = variant
						data = core.NewSignedSyncMessage(msg)
					default:
						data = core.NewSignedVoluntaryExit(&eth2p0.SignedVoluntaryExit{Message: &eth2p0.VoluntaryExit{Epoch: eth2p0.Epoch(variant - 'a'), ValidatorIndex: v.index}})
					}
					var s core.SignedData
					switch rapid.IntRange(0, 7).Draw(rt, "garbage") {
					case 0: // zero signature
						s, err = data.SetSignature(make(core.Signature, 96))
					case 1: // a well-formed signature of its share, but over another message
						var other core.SignedData
						other, err = specsign.Sign(bn, v.shares[b+1], core.NewSignedRandao(eth2p0.Epoch(77), eth2p0.BLSSignature{}))
						must(err)
						s, err = data.SetSignature(other.Signature())
					default:
						s, err = specsign.Sign(bn, v.shares[b+1], data)
					}
					must(err)
					set[v.corePub] = core.ParSignedData{SignedData: s, ShareIdx: b + 1}
				}
				pbSet, err := core.ParSignedDataSetToProto(set)
				must(err)
				net.Inject(peerIDs[b], peerIDs[to], parsigex.Protocols()[0], &pbv1.ParSigExMsg{Duty: core.DutyToProto(sendDuty), DataSet: pbSet})
				equivocations++
			}
			logf("byz(%d,%s)", b, d.Type)
		}
		synctest.Wait()
		checkPublished(rt, bn, vals, &mu, &pubs, &badSubmits, trace)
	}
	// fair drain: everybody starts every duty, all frames are delivered, time advances
	for i := 0; i < n; i++ {
		for _, d := range duties {
			startDuty(i, d)
		}
	}
	synctest.Wait()
	for round := 0; round < 40; round++ {
		for guard := 0; net.NPending() > 0 && guard < 4000; guard++ {
			deliver(net.Take(0))
			synctest.Wait()
		}
		time.Sleep(500 * time.Millisecond)
		synctest.Wait()
		if net.NPending() == 0 && round > 12 {
			break
		}
	}
	checkPublished(rt, bn, vals, &mu, &pubs, &badSubmits, trace)

	// consensus component level: what the nodes' duty stores were handed on decision is identical on
	// every node and is exactly one of the candidate sets that were proposed (the decided hash's payload)
	mu.Lock()
	candidates := proposed
	firstDecided := map[core.Duty]decision{}
	for _, d := range decided {
		if !candidates[d.duty.String()+d.set] {
			mu.Unlock()
			rt.Fatalf("DECIDED PAYLOAD: node %d stored for %v a data set nobody proposed: %s", d.node, d.duty, d.set)
		}
		if f, ok := firstDecided[d.duty]; ok && f.set != d.set {
			mu.Unlock()
			rt.Fatalf("DECIDED PAYLOAD: nodes %d and %d were handed different decided data for %v\n%s", f.node, d.node, d.duty, strings.Join(trace, "\n"))
		}
		firstDecided[d.duty] = d
	}
	nDecided := len(decided)
	mu.Unlock()

	mu.Lock()
	nPub := len(pubs)
	roots := map[string]bool{}
	dutiesPublished := map[core.DutyType]bool{}
	atBN := map[core.DutyType]int{}
	for _, p := range pubs {
		r, _ := specsign.SigningRoot(bn, p.data)
		roots[fmt.Sprintf("%v/%s/%x", p.duty, p.pubkey[:10], r[:6])] = true
		dutiesPublished[p.duty.Type] = true
		if p.where == "beacon_node" {
			atBN[p.duty.Type]++
		}
	}
	mu.Unlock()
	for ty, c := range atBN {
		vstat.Count("objects_handed_to_beacon_node:"+ty.String(), int64(c))
	}
	distinctVariants := map[byte]bool{}
	for _, v := range nodeVariant {
		distinctVariants[v] = true
	}
	nontrivial := len(distinctVariants) >= 2 && nPub > 0
	var rs []string
	for r := range roots {
		rs = append(rs, r)
	}
	sort.Strings(rs)
	var byzList []int
	for b := range byz {
		byzList = append(byzList, b)
	}
	sort.Ints(byzList)
	vstat.Case(fmt.Sprintf("%d|%s|%v|%d|%v|%s", n, string(nodeVariant), byzList, crashes, rs, strings.Join(trace, ",")), nontrivial,
		cls("published", nPub > 0), cls("decided_at_>=2_nodes", nDecided >= 2), cls("variants>=2", len(distinctVariants) >= 2), cls("crash", crashes > 0), cls("late_start", lateStarts > 0), cls("equivocating_share", equivocations > 0), cls("byz_sync_message_claims_slot_of_another_fork", otherFork > 0),
		cls("attester_published", dutiesPublished[core.DutyAttester]), cls("sync_published", dutiesPublished[core.DutySyncMessage]), cls("exit_published", dutiesPublished[core.DutyExit]),
		cls("production_fetcher", realFetch), cls("proposer_flow", withProposer), cls("randao_aggregated", dutiesPublished[core.DutyRandao]), cls("block_published", dutiesPublished[core.DutyProposer]),
		cls("contribution_flow", withContribution), cls("sync_selection_aggregated", dutiesPublished[core.DutyPrepareSyncContribution]), cls("contribution_and_proof_published", dutiesPublished[core.DutySyncContribution]), cls("aggregator_flow", withAggregator), cls("selection_aggregated", dutiesPublished[core.DutyPrepareAggregator]), cls("aggregate_and_proof_published", dutiesPublished[core.DutyAggregator]), fmt.Sprintf("n=%d", n))
	if nontrivial && equivocations > 0 && vstat.WantSample("byzantine") {
		vstat.Sample("byzantine", map[string]any{"n": n, "node_variants": string(nodeVariant), "byzantine": byzList, "crashes": crashes, "published_roots": rs, "events": head(trace, 60)})
	} else if nontrivial && vstat.WantSample("plain") {
		vstat.Sample("plain", map[string]any{"n": n, "node_variants": string(nodeVariant), "published_roots": rs, "events": head(trace, 40)})
	}
}

func head(s []string, n int) []string {
	if len(s) > n {
		return append(append([]string{}, s[:n]...), fmt.Sprintf("... %d more", len(s)-n))
	}
	return s
}

func shortProto(p string) string {
	if strings.Contains(p, "parsigex") {
		return "parsig"
	}
	return "qbft"
}

func indexOf(ids []peer.ID, p peer.ID) int {
	for i, q := range ids {
		if q == p {
			return i
		}
	}
	return -1
}

// checkPublished evaluates the oracle over everything published so far.
func checkPublished(rt *rapid.T, bn *fakebn.BN, vals []*validator, mu *sync.Mutex, pubs *[]published, badSubmits *[]string, trace []string) {
	mu.Lock()
	list := append([]published{}, (*pubs)...)
	bad := append([]string{}, (*badSubmits)...)
	mu.Unlock()
	if len(bad) > 0 {
		rt.Fatalf("INVALID OBJECT HANDED TO THE BEACON NODE: %s\n%s", bad[0], strings.Join(trace, "\n"))
	}
	type key struct {
		duty core.Duty
		pk   core.PubKey
		// the sync subcommittee for the two sync-committee aggregation duties: a validator that sits in several
		// subcommittees signs one object per subcommittee (charon's own stores key them the same way)
		subcomm core.SubcommitteeIndex
	}
	roots := map[key][32]byte{}
	first := map[key]published{}
	for _, p := range list {
		var v *validator
		for _, x := range vals {
			if x.corePub == p.pubkey {
				v = x
			}
		}
		if v == nil {
			rt.Fatalf("node %d published for a validator outside the cluster", p.node)
		}
		if err := specsign.Verify(bn, v.group, p.data); err != nil {
			rt.Fatalf("INVALID SIGNATURE EMITTED: node %d %s duty %v: the signed object does not verify under the validator's group key: %v\n%s", p.node, p.where, p.duty, err, strings.Join(trace, "\n"))
		}
		r, err := specsign.SigningRoot(bn, p.data)
		if err != nil {
			rt.Fatalf("HARNESS-ERROR: %v", err)
		}
		sc, err := core.SyncSubcommitteeIndex(p.duty.Type, p.data)
		if err != nil {
			rt.Fatalf("INVALID OBJECT EMITTED: node %d %s duty %v: %v", p.node, p.where, p.duty, err)
		}
		k := key{p.duty, p.pubkey, sc}
		if prev, ok := roots[k]; ok && prev != r {
			rt.Fatalf("TWO SIGNED OBJECTS FOR ONE DUTY: duty %v validator %s: node %d (%s) emitted signing root %x, node %d (%s) emitted %x\n%s", p.duty, p.pubkey[:12], first[k].node, first[k].where, prev[:8], p.node, p.where, r[:8], strings.Join(trace, "\n"))
		}
		roots[k] = r
		if _, ok := first[k]; !ok {
			first[k] = p
		}
	}
}

func cls(name string, on bool) string {
	if on {
		return name
	}
	return ""
}
