// Block proposals for the proposer flow of the C01 cluster harness: candidate blocks come from the
// repository's own value fuzzer (valgen, seeded by a rapid draw), get the duty's slot, the proposer's
// index and the randao reveal the fetcher asked with, and are turned into the signed (full or blinded)
// form a validator client submits.
package c01

import (
	"fmt"
	"reflect"
	"sync"
	"testing"

	eth2api "github.com/attestantio/go-eth2-client/api"
	apiv1bellatrix "github.com/attestantio/go-eth2-client/api/v1/bellatrix"
	apiv1capella "github.com/attestantio/go-eth2-client/api/v1/capella"
	apiv1deneb "github.com/attestantio/go-eth2-client/api/v1/deneb"
	apiv1electra "github.com/attestantio/go-eth2-client/api/v1/electra"
	apiv1fulu "github.com/attestantio/go-eth2-client/api/v1/fulu"
	eth2spec "github.com/attestantio/go-eth2-client/spec"
	"github.com/attestantio/go-eth2-client/spec/bellatrix"
	"github.com/attestantio/go-eth2-client/spec/capella"
	"github.com/attestantio/go-eth2-client/spec/deneb"
	"github.com/attestantio/go-eth2-client/spec/electra"
	eth2p0 "github.com/attestantio/go-eth2-client/spec/phase0"

	"github.com/obolnetwork/charon/core"

	"verifharness/valgen"
)

var (
	outerT     *testing.T
	blockMu    sync.Mutex
	blockCache = map[int64]core.VersionedProposal{}
)

// genBlock returns a fresh copy of the seed's candidate block (bellatrix or later: the versions inside the signing flow).
func genBlock(seed int64) *eth2api.VersionedProposal {
	blockMu.Lock()
	defer blockMu.Unlock()
	p, ok := blockCache[seed]
	for k := int64(0); !ok; k++ {
		cand := valgen.Unsigned(outerT, valgen.KindByName("VersionedProposal"), seed*131+k*7919+1).(core.VersionedProposal)
		if cand.Version >= eth2spec.DataVersionBellatrix {
			p, ok = cand, true
			blockCache[seed] = p
		}
		if k > 200 {
			panic("HARNESS-ERROR: no post-merge block for seed")
		}
	}
	c, err := p.Clone()
	must(err)
	vp := c.(core.VersionedProposal).VersionedProposal
	return &vp
}

// blockMessage returns the (pointer to the) beacon block inside the proposal.
func blockMessage(p *eth2api.VersionedProposal) reflect.Value {
	var m any
	switch {
	case p.Version == eth2spec.DataVersionBellatrix && !p.Blinded:
		m = p.Bellatrix
	case p.Version == eth2spec.DataVersionBellatrix:
		m = p.BellatrixBlinded
	case p.Version == eth2spec.DataVersionCapella && !p.Blinded:
		m = p.Capella
	case p.Version == eth2spec.DataVersionCapella:
		m = p.CapellaBlinded
	case p.Version == eth2spec.DataVersionDeneb && !p.Blinded:
		m = p.Deneb.Block
	case p.Version == eth2spec.DataVersionDeneb:
		m = p.DenebBlinded
	case p.Version == eth2spec.DataVersionElectra && !p.Blinded:
		m = p.Electra.Block
	case p.Version == eth2spec.DataVersionElectra:
		m = p.ElectraBlinded
	case p.Version == eth2spec.DataVersionFulu && !p.Blinded:
		m = p.Fulu.Block
	case p.Version == eth2spec.DataVersionFulu:
		m = p.FuluBlinded
	default:
		panic(fmt.Sprintf("HARNESS-ERROR: block version %v", p.Version))
	}
	return reflect.ValueOf(m)
}

// setHeader writes the duty's slot, the proposer, the randao reveal and a marker byte into the block.
func setHeader(p *eth2api.VersionedProposal, slot eth2p0.Slot, proposer eth2p0.ValidatorIndex, randao eth2p0.BLSSignature, marker byte) {
	blk := blockMessage(p).Elem()
	blk.FieldByName("Slot").SetUint(uint64(slot))
	blk.FieldByName("ProposerIndex").SetUint(uint64(proposer))
	body := blk.FieldByName("Body").Elem()
	body.FieldByName("RANDAOReveal").Set(reflect.ValueOf(randao))
	var g [32]byte
	g[0] = marker
	body.FieldByName("Graffiti").Set(reflect.ValueOf(g))
}

// signedOf wraps the block into the signed form (signature still zero).
func signedOf(p *eth2api.VersionedProposal) *eth2api.VersionedSignedProposal {
	out := &eth2api.VersionedSignedProposal{Version: p.Version, Blinded: p.Blinded}
	switch {
	case p.Version == eth2spec.DataVersionBellatrix && !p.Blinded:
		out.Bellatrix = &bellatrix.SignedBeaconBlock{Message: p.Bellatrix}
	case p.Version == eth2spec.DataVersionBellatrix:
		out.BellatrixBlinded = &apiv1bellatrix.SignedBlindedBeaconBlock{Message: p.BellatrixBlinded}
	case p.Version == eth2spec.DataVersionCapella && !p.Blinded:
		out.Capella = &capella.SignedBeaconBlock{Message: p.Capella}
	case p.Version == eth2spec.DataVersionCapella:
		out.CapellaBlinded = &apiv1capella.SignedBlindedBeaconBlock{Message: p.CapellaBlinded}
	case p.Version == eth2spec.DataVersionDeneb && !p.Blinded:
		out.Deneb = &apiv1deneb.SignedBlockContents{SignedBlock: &deneb.SignedBeaconBlock{Message: p.Deneb.Block}, KZGProofs: p.Deneb.KZGProofs, Blobs: p.Deneb.Blobs}
	case p.Version == eth2spec.DataVersionDeneb:
		out.DenebBlinded = &apiv1deneb.SignedBlindedBeaconBlock{Message: p.DenebBlinded}
	case p.Version == eth2spec.DataVersionElectra && !p.Blinded:
		out.Electra = &apiv1electra.SignedBlockContents{SignedBlock: &electra.SignedBeaconBlock{Message: p.Electra.Block}, KZGProofs: p.Electra.KZGProofs, Blobs: p.Electra.Blobs}
	case p.Version == eth2spec.DataVersionElectra:
		out.ElectraBlinded = &apiv1electra.SignedBlindedBeaconBlock{Message: p.ElectraBlinded}
	case p.Version == eth2spec.DataVersionFulu && !p.Blinded:
		out.Fulu = &apiv1fulu.SignedBlockContents{SignedBlock: &electra.SignedBeaconBlock{Message: p.Fulu.Block}, KZGProofs: p.Fulu.KZGProofs, Blobs: p.Fulu.Blobs}
	case p.Version == eth2spec.DataVersionFulu:
		out.FuluBlinded = &apiv1electra.SignedBlindedBeaconBlock{Message: p.FuluBlinded}
	default:
		panic(fmt.Sprintf("HARNESS-ERROR: block version %v", p.Version))
	}
	return out
}

// sigField returns the signature field of the signed proposal.
func sigField(p *eth2api.VersionedSignedProposal) *eth2p0.BLSSignature {
	switch {
	case p.Version == eth2spec.DataVersionBellatrix && !p.Blinded:
		return &p.Bellatrix.Signature
	case p.Version == eth2spec.DataVersionBellatrix:
		return &p.BellatrixBlinded.Signature
	case p.Version == eth2spec.DataVersionCapella && !p.Blinded:
		return &p.Capella.Signature
	case p.Version == eth2spec.DataVersionCapella:
		return &p.CapellaBlinded.Signature
	case p.Version == eth2spec.DataVersionDeneb && !p.Blinded:
		return &p.Deneb.SignedBlock.Signature
	case p.Version == eth2spec.DataVersionDeneb:
		return &p.DenebBlinded.Signature
	case p.Version == eth2spec.DataVersionElectra && !p.Blinded:
		return &p.Electra.SignedBlock.Signature
	case p.Version == eth2spec.DataVersionElectra:
		return &p.ElectraBlinded.Signature
	case p.Version == eth2spec.DataVersionFulu && !p.Blinded:
		return &p.Fulu.SignedBlock.Signature
	default:
		return &p.FuluBlinded.Signature
	}
}

// blindedOf is the request type of the blinded-block submission endpoint.
func blindedOf(p *eth2api.VersionedSignedProposal) *eth2api.VersionedSignedBlindedProposal {
	return &eth2api.VersionedSignedBlindedProposal{Version: p.Version, Bellatrix: p.BellatrixBlinded, Capella: p.CapellaBlinded, Deneb: p.DenebBlinded, Electra: p.ElectraBlinded, Fulu: p.FuluBlinded}
}
