// Package qbftsim runs n instances of the production core/qbft.Run state machine on harness-owned
// channels inside a testing/synctest bubble. Nothing moves unless the harness moves it: every
// broadcast becomes a set of pending (message, destination) deliveries, timers are channels the
// harness fires (manual mode) or production round timers on virtual time (latency mode).
package qbftsim

import (
	"context"
	"errors"
	"fmt"
	"sync"
	"testing/synctest"
	"time"

	"github.com/obolnetwork/charon/core/qbft"
)

// M is the message type of the simulation (instance, value and compare types are int64).
type M struct {
	Typ   qbft.MsgType
	Inst  int64
	Src   int64
	Rnd   int64
	Val   int64
	PR    int64
	PV    int64
	Just  []*M // always flat: nested messages carry no justification (the wire format cannot express it)
	Byz   bool // created by the adversary
	ID    int  // index in Sim.Sent / Sim.Injected (top-level messages only)
	Label string
	At    time.Time // when it was broadcast (virtual clock)
}

type QMsg = qbft.Msg[int64, int64, int64]

func (m *M) Type() qbft.MsgType          { return m.Typ }
func (m *M) Instance() int64             { return m.Inst }
func (m *M) Source() int64               { return m.Src }
func (m *M) Round() int64                { return m.Rnd }
func (m *M) Value() int64                { return m.Val }
func (m *M) ValueSource() (int64, error) { return m.Val, nil }
func (m *M) PreparedRound() int64        { return m.PR }
func (m *M) PreparedValue() int64        { return m.PV }
func (m *M) Justification() []QMsg {
	if len(m.Just) == 0 {
		return nil
	}
	out := make([]QMsg, 0, len(m.Just))
	for _, j := range m.Just {
		out = append(out, j)
	}
	return out
}

func (m *M) String() string {
	s := fmt.Sprintf("%s{src=%d r=%d v=%d", m.Typ, m.Src, m.Rnd, m.Val)
	if m.PR != 0 || m.PV != 0 {
		s += fmt.Sprintf(" pr=%d pv=%d", m.PR, m.PV)
	}
	if len(m.Just) > 0 {
		s += fmt.Sprintf(" just=%d", len(m.Just))
	}
	if m.Byz {
		s += " BYZ"
	}
	return s + "}"
}

// Strip returns a copy without justification (how a message looks when nested in another one).
func (m *M) Strip() *M {
	c := *m
	c.Just = nil
	return &c
}

// FromQ converts what qbft hands back (our own *M values) to *M.
func FromQ(q QMsg) *M {
	m, ok := q.(*M)
	if !ok {
		panic("HARNESS-ERROR: foreign message type")
	}
	return m
}

type Delivery struct {
	Msg *M
	Dst int64
	Dup bool
}

type Decision struct {
	Proc    int64
	Value   int64
	Round   int64
	QCommit []*M
	At      time.Time
	ByRule  qbft.UponRule
}

type Unjust struct {
	Proc int64
	Msg  *M
}

type RuleEvent struct {
	Proc  int64
	Round int64
	Rule  qbft.UponRule
	Msg   *M
	At    time.Time
	Seq   int64 // position in the common order of rule events and round changes
}

// RoundChange is one transition of a process from one round to another.
type RoundChange struct {
	Proc     int64
	From, To int64
	Rule     qbft.UponRule
	At       time.Time
	Seq      int64
}

type Proc struct {
	ID        int64
	Started   bool
	Crashed   bool
	HasInput  bool
	Input     int64
	recv      chan QMsg
	inputCh   chan int64
	cancel    context.CancelFunc
	done      chan struct{}
	RunErr    error
	Exited    bool
	timerCh   chan time.Time
	TimerRnd  int64
	Round     int64 // last round seen through NewTimer
	Bcasts    int   // number of broadcasts made
	MaxRound  int64
	lastRule  qbft.UponRule
	Decisions int
	// CompareFailRound is the round of the last proposal this member's comparison rejected (0 = none).
	CompareFailRound int64
}

// Hooks let a test customise behaviour (all optional).
type Hooks struct {
	// NewTimer overrides the manual timer (latency mode uses production timers).
	NewTimer func(p *Proc, round int64) (<-chan time.Time, func())
	// OnBroadcast is called for every honest broadcast before it is queued. It returns the
	// recipients that get the message and whether the sender crashes right after (crash inside
	// a broadcast). nil recipients = everybody.
	OnBroadcast func(p *Proc, m *M) (recipients []int64, crash bool)
	// CompareFails, if set, is the verdict of the opt-in comparison of a leader's proposal with the member's
	// local data (Definition.Compare): true = mismatch. It must be a pure function of (member, value), as the
	// production comparison is. nil = the production default (feature off: never fails).
	CompareFails func(p *Proc, leaderMsg *M) bool
	// Route, if set, takes over delivery of a queued message (latency mode); otherwise the
	// delivery is put in Pending for the harness to pick.
	Route func(d Delivery)
}

type Sim struct {
	mu              sync.Mutex
	N               int
	Inst            int64
	Def             qbft.Definition[int64, int64, int64]
	Byz             map[int64]bool
	Procs           []*Proc
	Pending         []Delivery
	Sent            []*M // every honest top-level broadcast, in order
	Injected        []*M // every adversary top-level message
	Decided         []Decision
	Unjusts         []Unjust
	Rules           []RuleEvent
	RoundChg        int
	CompareFailures int
	RoundChanges    []RoundChange // every round change of every process, with the rule that caused it
	evSeq           int64
	Hooks           Hooks
	LeaderFn        func(inst, round, proc int64) bool
	ctx             context.Context
	cancel          context.CancelFunc
}

func New(n int, inst int64, leader func(inst, round, proc int64) bool, byz map[int64]bool, hooks Hooks) *Sim {
	s := &Sim{N: n, Inst: inst, Byz: byz, Hooks: hooks, LeaderFn: leader}
	s.ctx, s.cancel = context.WithCancel(context.Background())
	for i := 0; i < n; i++ {
		s.Procs = append(s.Procs, &Proc{ID: int64(i), recv: make(chan QMsg), inputCh: make(chan int64, 1), done: make(chan struct{})})
	}
	s.Def = qbft.Definition[int64, int64, int64]{
		IsLeader:  leader,
		Nodes:     n,
		FIFOLimit: 100, // production: instance.RecvBufferSize
	}
	return s
}

func (s *Sim) Honest(i int64) bool { return !s.Byz[i] }

func (s *Sim) defFor(p *Proc) qbft.Definition[int64, int64, int64] {
	d := s.Def
	d.NewTimer = func(round int64) (<-chan time.Time, func()) {
		s.mu.Lock()
		p.Round = round
		if round > p.MaxRound {
			p.MaxRound = round
		}
		s.mu.Unlock()
		if s.Hooks.NewTimer != nil {
			return s.Hooks.NewTimer(p, round)
		}
		ch := make(chan time.Time, 1)
		s.mu.Lock()
		p.timerCh = ch
		p.TimerRnd = round
		s.mu.Unlock()
		return ch, func() {
			s.mu.Lock()
			if p.timerCh == ch {
				p.timerCh = nil
			}
			s.mu.Unlock()
		}
	}
	d.Compare = func(_ context.Context, m QMsg, _ <-chan int64, _ int64, returnErr chan error, _ chan int64) {
		if s.Hooks.CompareFails != nil && s.Hooks.CompareFails(p, FromQ(m)) {
			s.mu.Lock()
			s.CompareFailures++
			p.CompareFailRound = m.Round()
			s.mu.Unlock()
			returnErr <- errors.New("harness: the leader's value does not match this member's local data")
			return
		}
		returnErr <- nil
	}
	d.Decide = func(_ context.Context, _ int64, value int64, round int64, qcommit []QMsg) {
		dec := Decision{Proc: p.ID, Value: value, Round: round, At: time.Now()}
		for _, q := range qcommit {
			dec.QCommit = append(dec.QCommit, FromQ(q))
		}
		s.mu.Lock()
		dec.ByRule = p.lastRule
		p.Decisions++
		s.Decided = append(s.Decided, dec)
		s.mu.Unlock()
	}
	d.LogUponRule = func(_ context.Context, _ int64, process, round int64, msg QMsg, rule qbft.UponRule) {
		s.mu.Lock()
		p.lastRule = rule
		s.evSeq++
		s.Rules = append(s.Rules, RuleEvent{Proc: process, Round: round, Rule: rule, Msg: FromQ(msg), At: time.Now(), Seq: s.evSeq})
		s.mu.Unlock()
	}
	d.LogRoundChange = func(_ context.Context, _ int64, process, round, newRound int64, rule qbft.UponRule, _ []QMsg) {
		s.mu.Lock()
		s.RoundChg++
		s.evSeq++
		s.RoundChanges = append(s.RoundChanges, RoundChange{Proc: process, From: round, To: newRound, Rule: rule, At: time.Now(), Seq: s.evSeq})
		s.mu.Unlock()
	}
	d.LogUnjust = func(_ context.Context, _ int64, process int64, msg QMsg) {
		s.mu.Lock()
		s.Unjusts = append(s.Unjusts, Unjust{Proc: process, Msg: FromQ(msg)})
		s.mu.Unlock()
	}
	return d
}

func (s *Sim) broadcast(p *Proc) func(ctx context.Context, typ qbft.MsgType, inst int64, source int64, round int64, value int64, pr int64, pv int64, justification []QMsg) error {
	return func(ctx context.Context, typ qbft.MsgType, inst int64, source int64, round int64, value int64, pr int64, pv int64, justification []QMsg) error {
		m := &M{Typ: typ, Inst: inst, Src: source, Rnd: round, Val: value, PR: pr, PV: pv, At: time.Now()}
		for _, j := range justification {
			m.Just = append(m.Just, FromQ(j).Strip())
		}
		s.mu.Lock()
		m.ID = len(s.Sent)
		s.Sent = append(s.Sent, m)
		p.Bcasts++
		s.mu.Unlock()
		var recipients []int64
		crash := false
		if s.Hooks.OnBroadcast != nil {
			recipients, crash = s.Hooks.OnBroadcast(p, m)
		}
		if recipients == nil {
			for i := 0; i < s.N; i++ {
				recipients = append(recipients, int64(i))
			}
		}
		for _, dst := range recipients {
			if s.Byz[dst] {
				continue // the adversary sees everything anyway
			}
			if crash && dst == p.ID {
				continue
			}
			s.queue(Delivery{Msg: m, Dst: dst})
		}
		if crash {
			s.mu.Lock()
			p.Crashed = true
			s.mu.Unlock()
			p.cancel()
			return context.Canceled
		}
		return nil
	}
}

func (s *Sim) queue(d Delivery) {
	if s.Hooks.Route != nil {
		s.Hooks.Route(d)
		return
	}
	s.mu.Lock()
	s.Pending = append(s.Pending, d)
	s.mu.Unlock()
}

// Start launches process i (idempotent).
func (s *Sim) Start(i int64) {
	p := s.Procs[i]
	s.mu.Lock()
	if p.Started || p.Crashed || s.Byz[i] {
		s.mu.Unlock()
		return
	}
	p.Started = true
	ctx, cancel := context.WithCancel(s.ctx)
	p.cancel = cancel
	s.mu.Unlock()
	tr := qbft.Transport[int64, int64, int64]{Broadcast: s.broadcast(p), Receive: p.recv}
	d := s.defFor(p)
	go func() {
		defer close(p.done)
		err := qbft.Run[int64, int64, int64](ctx, d, tr, s.Inst, p.ID, p.inputCh, nil)
		s.mu.Lock()
		p.RunErr = err
		p.Exited = true
		s.mu.Unlock()
	}()
}

// SupplyInput gives process i its proposal value (once).
func (s *Sim) SupplyInput(i int64, v int64) {
	p := s.Procs[i]
	s.mu.Lock()
	if p.HasInput || s.Byz[i] {
		s.mu.Unlock()
		return
	}
	p.HasInput = true
	p.Input = v
	s.mu.Unlock()
	p.inputCh <- v
}

// Crash stops process i.
func (s *Sim) Crash(i int64) {
	p := s.Procs[i]
	s.mu.Lock()
	started := p.Started
	already := p.Crashed
	p.Crashed = true
	cancel := p.cancel
	s.mu.Unlock()
	if started && !already && cancel != nil {
		cancel()
	}
}

// Alive reports whether deliveries to the process can be made.
func (s *Sim) Alive(i int64) bool {
	p := s.Procs[i]
	s.mu.Lock()
	defer s.mu.Unlock()
	return p.Started && !p.Crashed && !p.Exited
}

// Send hands the message to the destination's Run loop (blocks until it is taken or the process ended).
func (s *Sim) Send(d Delivery) bool {
	p := s.Procs[d.Dst]
	if !s.Alive(d.Dst) {
		return false
	}
	select {
	case p.recv <- d.Msg:
		return true
	case <-p.done:
		return false
	}
}

// DeliverIdx delivers pending[i] and waits for quiescence.
func (s *Sim) DeliverIdx(i int) (Delivery, bool) {
	s.mu.Lock()
	d := s.Pending[i]
	s.Pending = append(s.Pending[:i], s.Pending[i+1:]...)
	s.mu.Unlock()
	ok := s.Send(d)
	synctest.Wait()
	return d, ok
}

// DropIdx removes pending[i].
func (s *Sim) DropIdx(i int) Delivery {
	s.mu.Lock()
	defer s.mu.Unlock()
	d := s.Pending[i]
	s.Pending = append(s.Pending[:i], s.Pending[i+1:]...)
	return d
}

func (s *Sim) NPending() int {
	s.mu.Lock()
	defer s.mu.Unlock()
	return len(s.Pending)
}

// FireTimer fires the manual round timer of process i if armed.
func (s *Sim) FireTimer(i int64) bool {
	p := s.Procs[i]
	if !s.Alive(i) {
		return false
	}
	s.mu.Lock()
	ch := p.timerCh
	p.timerCh = nil
	s.mu.Unlock()
	if ch == nil {
		return false
	}
	ch <- time.Now()
	synctest.Wait()
	return true
}

// Inject queues an adversary message for the given destinations.
func (s *Sim) Inject(m *M, dsts []int64) {
	m.Byz = true
	s.mu.Lock()
	m.ID = len(s.Injected)
	s.Injected = append(s.Injected, m)
	s.mu.Unlock()
	for _, d := range dsts {
		if s.Byz[d] {
			continue
		}
		s.queue(Delivery{Msg: m, Dst: d})
	}
}

// Stop ends every process and waits for them.
func (s *Sim) Stop() {
	s.cancel()
	for _, p := range s.Procs {
		s.mu.Lock()
		started := p.Started
		s.mu.Unlock()
		if started {
			<-p.done
		}
	}
	synctest.Wait()
}

// Snapshot helpers (callers hold no lock; the bubble is quiescent when they are used).

func (s *Sim) DecisionsOf(i int64) []Decision {
	s.mu.Lock()
	defer s.mu.Unlock()
	var out []Decision
	for _, d := range s.Decided {
		if d.Proc == i {
			out = append(out, d)
		}
	}
	return out
}

func (s *Sim) Lock()   { s.mu.Lock() }
func (s *Sim) Unlock() { s.mu.Unlock() }
