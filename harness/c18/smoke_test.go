package c18

import (
	"encoding/json"
	"testing"

	"verifharness/valgen"
)

func TestValgenSmoke(t *testing.T) {
	for _, k := range valgen.Kinds {
		for seed := int64(1); seed <= 30; seed++ {
			p := valgen.GenPtr(t, k, seed)
			before, err := json.Marshal(p)
			if err != nil {
				t.Fatalf("%s seed %d: marshal: %v", k.Name, seed, err)
			}
			refs := valgen.Walk(p)
			n := valgen.Scribble(p)
			after, _ := json.Marshal(p)
			err = nil
			if seed == 1 {
				t.Logf("%-40s refs=%d scribbled=%d changed=%v err=%v", k.Name, len(refs), n, string(before) != string(after), err)
			}
		}
	}
}
