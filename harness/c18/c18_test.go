// C18 — values passed between workflow components are isolated copies.
//
// For every hand-over point the check (1) stores a generated value, scribbles over everything
// reachable from the caller's copy and reads back, (2) reads, scribbles over the result and reads
// again, (3) compares the reachable address sets of two results / two subscribers' arguments.
package c18

import (
	"github.com/obolnetwork/charon/core/fetcher"
	"math/big"
	"sync"

	"crypto/sha256"
	eth2api "github.com/attestantio/go-eth2-client/api"
	eth2v1 "github.com/attestantio/go-eth2-client/api/v1"
	"github.com/attestantio/go-eth2-client/spec/altair"
	"github.com/obolnetwork/charon/core/validatorapi"
	"verifharness/fakebn"

	k1 "github.com/decred/dcrd/dcrec/secp256k1/v4"
	"github.com/libp2p/go-libp2p/core/peer"

	"context"
	"encoding/json"
	"fmt"
	pbv1 "github.com/obolnetwork/charon/core/corepb/v1"
	"github.com/obolnetwork/charon/core/parsigex"
	"github.com/obolnetwork/charon/p2p"
	"testing"
	"time"
	"verifharness/memnet"

	eth2p0 "github.com/attestantio/go-eth2-client/spec/phase0"
	"pgregory.net/rapid"

	"github.com/obolnetwork/charon/core"
	"github.com/obolnetwork/charon/core/aggsigdb"
	"github.com/obolnetwork/charon/core/dutydb"
	"github.com/obolnetwork/charon/core/parsigdb"
	"github.com/obolnetwork/charon/core/sigagg"
	"github.com/obolnetwork/charon/tbls"
	"github.com/obolnetwork/charon/tbls/tblsconv"

	"verifharness/fakes"
	"verifharness/valgen"
	"verifharness/vstat"
)

func TestMain(m *testing.M) { vstat.Main(m) }

const rule = "every core value type x fork version (testutil.NewEth2Fuzzer, seed drawn) through every hand-over point: dutydb Store argument and both results of each Await*, parsigdb Store* argument / threshold- and internal-subscriber fan-out, aggsigdb (both implementations) Store argument and Await results, sigagg subscriber fan-out, parsigex subscriber fan-out (peer message), validator API subscriber fan-out (exit, sync message, selections); " +
	"a reflect walker scribbles over every reachable pointer target, slice element and map entry of the handed / returned value, a later read must render identically to the pristine snapshot and two results must share no address; " +
	"non-trivial = the value has >= 1 reachable reference; distinct by (site, type, seed)"

func pk(b byte) core.PubKey {
	raw := make([]byte, 48)
	raw[0] = b
	p, err := core.PubKeyFromBytes(raw)
	if err != nil {
		panic(err)
	}
	return p
}

func render(v any) string {
	b, err := json.Marshal(v)
	if err != nil {
		return "RENDER-ERROR: " + err.Error()
	}
	return string(b)
}

type site struct {
	name  string
	kinds func(k valgen.Kind) bool
	run   func(t *testing.T, rt *rapid.T, k valgen.Kind, seed int64) (nontrivial bool, skipped string)
}

var sites []site

func TestC18Isolation(t *testing.T) {
	vstat.Rule("C18", rule)
	rapid.Check(t, func(rt *rapid.T) {
		s := sites[rapid.IntRange(0, len(sites)-1).Draw(rt, "site")]
		var ks []valgen.Kind
		for _, k := range valgen.Kinds {
			if s.kinds(k) {
				ks = append(ks, k)
			}
		}
		k := ks[rapid.IntRange(0, len(ks)-1).Draw(rt, "kind")]
		seed := int64(rapid.IntRange(1, 1<<30).Draw(rt, "seed"))
		nontrivial, skipped := s.run(t, rt, k, seed)
		if skipped != "" {
			vstat.Case("", false, "skipped:"+s.name+":"+skipped)
			return
		}
		vstat.Case(fmt.Sprintf("%s/%s/%d", s.name, k.Name, seed), nontrivial, "site:"+s.name, "type:"+k.Name)
		if nontrivial && vstat.WantSample(s.name) {
			vstat.Sample(s.name, map[string]any{"site": s.name, "type": k.Name, "fuzzer_seed": seed})
		}
	})
}

func mustSame(rt *rapid.T, what, pristine string, got any) {
	if g := render(got); g != pristine {
		rt.Fatalf("ISOLATION: %s: content changed after a caller mutated its own copy\n was: %.300s\n now: %.300s", what, pristine, g)
	}
}

func mustDisjoint(rt *rapid.T, what string, a, b any) {
	if sh := valgen.Shared(a, b); len(sh) > 0 {
		rt.Fatalf("ISOLATION: %s: two holders share mutable memory at %q (%v, %d shared references)", what, sh[0].Path, sh[0].Kind, len(sh))
	}
}

func init() {
	sites = []site{
		{"dutydb", func(k valgen.Kind) bool { return k.Unsigned }, runDutyDB},
		{"parsigdb", func(k valgen.Kind) bool { return !k.Unsigned }, runParSigDB},
		{"aggsigdb_v1", func(k valgen.Kind) bool { return !k.Unsigned }, func(t *testing.T, rt *rapid.T, k valgen.Kind, seed int64) (bool, string) {
			return runAggSigDB(t, rt, k, seed, false)
		}},
		{"aggsigdb_v2", func(k valgen.Kind) bool { return !k.Unsigned }, func(t *testing.T, rt *rapid.T, k valgen.Kind, seed int64) (bool, string) {
			return runAggSigDB(t, rt, k, seed, true)
		}},
		{"sigagg", func(k valgen.Kind) bool { return !k.Unsigned && k.Duty != core.DutySignature }, runSigAgg},
		{"parsigex_fanout", func(k valgen.Kind) bool { return !k.Unsigned }, runParSigExFanout},
		{"fetcher_fanout", func(k valgen.Kind) bool { return k.Unsigned && k.Duty == core.DutyAttester }, runFetcherFanout},
		{"duty_definitions", func(k valgen.Kind) bool { return k.Unsigned && k.Duty == core.DutyAttester }, runDutyDefinitions},
		{"validatorapi_fanout", func(k valgen.Kind) bool {
			return !k.Unsigned && (k.Duty == core.DutyExit || k.Duty == core.DutySyncMessage || k.Duty == core.DutyPrepareAggregator || k.Duty == core.DutyPrepareSyncContribution)
		}, runValidatorAPIFanout},
	}
}

// ---------------------------------------------------------------- dutydb

func runDutyDB(t *testing.T, rt *rapid.T, k valgen.Kind, seed int64) (bool, string) {
	ctx, cancel := context.WithCancel(context.Background()) // no wall-clock deadline: a slow machine is not a violation
	defer cancel()
	v := valgen.Unsigned(t, k, seed)
	if p, ok := v.(core.VersionedProposal); ok {
		// block values as a produce-block-v3 answer carries them (mutable *big.Int objects that are not part
		// of the SSZ encoding)
		p.ConsensusValue = big.NewInt(1000 + seed%1000)
		p.ExecutionValue = big.NewInt(2000 + seed%1000)
		v = p
	}
	db := dutydb.NewMemDB(fakes.NewDeadliner())
	var await func() (any, error)
	var slot uint64
	switch d := v.(type) {
	case core.AttestationData:
		slot = uint64(d.Data.Slot)
		await = func() (any, error) { return db.AwaitAttestation(ctx, slot, uint64(d.Duty.CommitteeIndex)) }
	case core.VersionedProposal:
		s, err := d.Slot()
		if err != nil {
			return false, "no slot"
		}
		slot = uint64(s)
		await = func() (any, error) { return db.AwaitProposal(ctx, slot) }
	case core.VersionedAggregatedAttestation:
		data, err := d.Data()
		if err != nil {
			return false, "no data"
		}
		root, err := data.HashTreeRoot()
		if err != nil {
			return false, "no root"
		}
		ci, err := d.CommitteeIndex()
		if err != nil {
			return false, "no committee index"
		}
		slot = uint64(data.Slot)
		await = func() (any, error) { return db.AwaitAggAttestation(ctx, slot, root, ci) }
	case core.SyncContribution:
		slot = uint64(d.Slot)
		sub, r := d.SubcommitteeIndex, d.BeaconBlockRoot
		await = func() (any, error) { return db.AwaitSyncContribution(ctx, slot, sub, r) }
	case core.SyncContributions:
		if len(d) == 0 {
			return false, "empty"
		}
		slot = uint64(d[0].Slot)
		sub, r := d[0].SubcommitteeIndex, d[0].BeaconBlockRoot
		for _, o := range d[1:] { // entries of one set share a slot in production
			if uint64(o.Slot) != slot {
				return false, "mixed slots"
			}
		}
		await = func() (any, error) { return db.AwaitSyncContribution(ctx, slot, sub, r) }
	}
	duty := core.Duty{Slot: slot, Type: k.Duty}
	pristineCopy, err := v.Clone()
	if err != nil {
		return false, "clone"
	}
	// two readers are already waiting when the value arrives (queries that block are answered by the store,
	// on another path than queries that find the value present)
	type early struct {
		v   any
		err error
	}
	earlyCh := make(chan early, 2)
	if await == nil { // a kind the duty store has no query for (it refuses to store it, below)
		if err := db.Store(ctx, duty, core.UnsignedDataSet{pk(1): v}); err != nil {
			return false, "store: " + firstWords(err)
		}
		rt.Fatalf("HARNESS-ERROR: %s was stored but the harness has no query for it", k.Name)
	}
	for i := 0; i < 2; i++ {
		go func() {
			r, err := await()
			earlyCh <- early{r, err}
		}()
	}
	time.Sleep(2 * time.Millisecond) // let them block (if one has not yet, it is simply served like a later reader)
	if err := db.Store(ctx, duty, core.UnsignedDataSet{pk(1): v}); err != nil {
		cancel()
		<-earlyCh
		<-earlyCh
		return false, "store: " + firstWords(err)
	}
	e1, e2 := <-earlyCh, <-earlyCh
	if e1.err != nil || e2.err != nil {
		rt.Fatalf("dutydb %s: a reader that was waiting when the value was stored got an error: %v %v", k.Name, e1.err, e2.err)
	}
	mustDisjoint(rt, "dutydb "+k.Name+": two readers that were waiting when the value was stored", e1.v, e2.v)
	mustDisjoint(rt, "dutydb "+k.Name+": Store argument and the result of a reader that was waiting", v, e1.v)
	earlyPristine := render(e2.v)
	valgen.Scribble(e1.v)
	mustSame(rt, "dutydb "+k.Name+": result of one waiting reader after the other waiting reader mutated its own", earlyPristine, e2.v)
	r0, err := await()
	if err != nil {
		rt.Fatalf("HARNESS-ERROR: await after store: %v", err)
	}
	pristine := render(r0)
	if pristine != earlyPristine {
		rt.Fatalf("ISOLATION: dutydb %s: a reader after the store sees other content than the readers that were waiting (one of which mutated its own copy)\n waiting: %.300s\n later: %.300s", k.Name, earlyPristine, pristine)
	}
	// (1) caller mutates what it handed in
	refs := len(valgen.Walk(v))
	valgen.Scribble(&v)
	r1, _ := await()
	mustSame(rt, "dutydb "+k.Name+": stored value vs. Store argument", pristine, r1)
	mustDisjoint(rt, "dutydb "+k.Name+": Store argument and Await result", v, r1)
	// (2) caller mutates what it received
	valgen.Scribble(r1)
	r2, err := await()
	if err != nil {
		rt.Fatalf("dutydb %s: Await failed after a caller mutated an earlier result: %v", k.Name, err)
	}
	mustSame(rt, "dutydb "+k.Name+": second Await after mutating the first result", pristine, r2)
	// (3) two readers
	r3, _ := await()
	mustDisjoint(rt, "dutydb "+k.Name+": two Await results", r2, r3)
	// (4) the same datum is stored again (every node stores what consensus decided, possibly twice):
	// mutating that second argument must not show either
	again, err := pristineCopy.Clone()
	if err != nil {
		rt.Fatalf("HARNESS-ERROR: clone: %v", err)
	}
	if err := db.Store(ctx, duty, core.UnsignedDataSet{pk(1): again}); err != nil {
		rt.Fatalf("dutydb %s: storing the identical datum again failed: %v", k.Name, err)
	}
	valgen.Scribble(&again)
	r4, err := await()
	if err != nil {
		rt.Fatalf("dutydb %s: Await failed after an identical re-store: %v", k.Name, err)
	}
	mustSame(rt, "dutydb "+k.Name+": Await after an identical re-store whose argument was then mutated", pristine, r4)
	mustDisjoint(rt, "dutydb "+k.Name+": re-stored argument and Await result", again, r4)
	return refs > 0, ""
}

func firstWords(err error) string {
	s := err.Error()
	if len(s) > 40 {
		s = s[:40]
	}
	return s
}

// ---------------------------------------------------------------- parsigdb

func runParSigDB(t *testing.T, rt *rapid.T, k valgen.Kind, seed int64) (bool, string) {
	ctx := context.Background()
	v := valgen.Signed(t, k, seed)
	if core.IsSyncSubcommitteeDuty(k.Duty) {
		if _, err := core.SyncSubcommitteeIndex(k.Duty, v); err != nil {
			return false, "subcommittee"
		}
	}
	db := parsigdb.NewMemDB(2, fakes.NewDeadliner(core.DutyExit, core.DutyBuilderRegistration), parsigdb.NewMemDBMetadata(12, time.Now()))
	type got struct {
		set map[core.PubKey][]core.ParSignedData
	}
	var sub1, sub2 []got
	var int1, int2 []core.ParSignedDataSet
	db.SubscribeThreshold(func(_ context.Context, _ core.Duty, set map[core.PubKey][]core.ParSignedData) error {
		sub1 = append(sub1, got{set})
		return nil
	})
	db.SubscribeThreshold(func(_ context.Context, _ core.Duty, set map[core.PubKey][]core.ParSignedData) error {
		sub2 = append(sub2, got{set})
		return nil
	})
	db.SubscribeInternal(func(_ context.Context, _ core.Duty, set core.ParSignedDataSet) error {
		int1 = append(int1, set)
		for _, d := range set { // first subscriber scribbles over what it was given
			valgen.Scribble(&d)
		}
		return nil
	})
	db.SubscribeInternal(func(_ context.Context, _ core.Duty, set core.ParSignedDataSet) error {
		int2 = append(int2, set)
		return nil
	})
	duty := core.Duty{Slot: 5, Type: k.Duty}
	c1, err := v.Clone()
	if err != nil {
		return false, "clone"
	}
	c2, _ := v.Clone()
	c3, _ := v.Clone()
	p1 := core.ParSignedData{SignedData: v, ShareIdx: 1}
	pristine := render(p1)
	if err := db.StoreInternal(ctx, duty, core.ParSignedDataSet{pk(1): p1}); err != nil {
		return false, "store: " + firstWords(err)
	}
	if len(int1) != 1 || len(int2) != 1 {
		rt.Fatalf("HARNESS-ERROR: internal subscribers %d %d", len(int1), len(int2))
	}
	mustSame(rt, "parsigdb "+k.Name+": second internal subscriber after the first one mutated its argument", pristine, int2[0][pk(1)])
	mustDisjoint(rt, "parsigdb "+k.Name+": arguments of two internal subscribers", int1[0][pk(1)], int2[0][pk(1)])
	// caller mutates what it handed in, then the second share completes the threshold
	refs := len(valgen.Walk(v))
	valgen.Scribble(&p1)
	p2 := core.ParSignedData{SignedData: c1, ShareIdx: 2}
	if err := db.StoreExternal(ctx, duty, core.ParSignedDataSet{pk(1): p2}); err != nil {
		rt.Fatalf("HARNESS-ERROR: second share: %v", err)
	}
	if len(sub1) != 1 || len(sub2) != 1 {
		if k.Duty == core.DutySignature || len(sub1) == len(sub2) {
			return false, "no-trigger"
		}
		rt.Fatalf("HARNESS-ERROR: threshold subscribers %d %d", len(sub1), len(sub2))
	}
	find := func(g got, share int) core.ParSignedData {
		for _, d := range g.set[pk(1)] {
			if d.ShareIdx == share {
				return d
			}
		}
		rt.Fatalf("HARNESS-ERROR: share %d missing", share)
		return core.ParSignedData{}
	}
	mustSame(rt, "parsigdb "+k.Name+": stored partial vs. mutated Store argument / mutated internal-subscriber argument", pristine, find(sub1[0], 1))
	mustDisjoint(rt, "parsigdb "+k.Name+": arguments of two threshold subscribers", sub1[0].set, sub2[0].set)
	mustDisjoint(rt, "parsigdb "+k.Name+": Store argument and threshold-subscriber argument", p2, sub1[0].set)
	// subscriber 1 mutates what it got: subscriber 2's copy is unaffected
	snap2 := render(sub2[0].set)
	for _, ds := range sub1[0].set {
		for i := range ds {
			valgen.Scribble(&ds[i])
		}
	}
	mustSame(rt, "parsigdb "+k.Name+": threshold subscriber 2 after subscriber 1 mutated its argument", snap2, sub2[0].set)
	// the last subscriber mutates what it got as well: the store's own copy must be unaffected, which
	// shows when the very same partials are delivered again (duplicates, not mismatches)
	for _, ds := range sub2[0].set {
		for i := range ds {
			valgen.Scribble(&ds[i])
		}
	}
	for share, orig := range map[int]core.SignedData{1: c2, 2: c3} {
		if err := db.StoreExternal(ctx, duty, core.ParSignedDataSet{pk(1): core.ParSignedData{SignedData: orig, ShareIdx: share}}); err != nil {
			rt.Fatalf("ISOLATION: parsigdb %s: after the subscribers mutated their arguments the stored partial of share %d no longer equals what was stored (re-delivery rejected: %v)", k.Name, share, err)
		}
	}
	return refs > 0, ""
}

// ---------------------------------------------------------------- aggsigdb

type aggStore interface {
	Store(context.Context, core.Duty, core.SignedDataSet) error
	Await(context.Context, core.Duty, core.PubKey, core.SubcommitteeIndex) (core.SignedData, error)
	Run(context.Context)
}

func runAggSigDB(t *testing.T, rt *rapid.T, k valgen.Kind, seed int64, v2 bool) (bool, string) {
	ctx, cancel := context.WithCancel(context.Background())
	defer cancel()
	v := valgen.Signed(t, k, seed)
	var sub core.SubcommitteeIndex
	if core.IsSyncSubcommitteeDuty(k.Duty) {
		var err error
		if sub, err = core.SyncSubcommitteeIndex(k.Duty, v); err != nil {
			return false, "subcommittee"
		}
	}
	var db aggStore
	dl := fakes.NewDeadliner()
	if v2 {
		db = aggsigdb.NewMemDBV2(dl)
	} else {
		db = aggsigdb.NewMemDB(dl)
	}
	go db.Run(ctx)
	duty := core.Duty{Slot: 5, Type: k.Duty}
	pristine := render(v)
	refs := len(valgen.Walk(v))
	if !v2 && rapid.IntRange(0, 2).Draw(rt, "cancelStoreInFlight") == 0 {
		// The writer gives up (its context ends) while the store's goroutine is already working on the
		// write — here: while it is inside its deadliner call — and then reuses its object. If the write
		// lands all the same, what it stored must still be what was handed over.
		sctx, scancel := context.WithCancel(ctx)
		mutated := make(chan struct{})
		var once sync.Once
		dl.OnAdd = func(core.Duty, core.DeadlineStatus) {
			once.Do(func() {
				scancel()
				select {
				case <-mutated:
				case <-time.After(5 * time.Second):
				}
			})
		}
		err := db.Store(sctx, duty, core.SignedDataSet{pk(1): v})
		valgen.Scribble(&v)
		close(mutated)
		actx, acancel := context.WithTimeout(ctx, 300*time.Millisecond)
		r, aerr := db.Await(actx, duty, pk(1), sub)
		acancel()
		if aerr == nil {
			mustSame(rt, "aggsigdb "+k.Name+": value stored by a write whose caller gave up in flight (Store returned "+fmt.Sprint(err)+") and then reused its object", pristine, r)
		}
		vstat.Count("aggsigdb_store_cancelled_in_flight", 1)
		if aerr == nil {
			vstat.Count("aggsigdb_store_cancelled_in_flight_write_landed", 1)
		}
		return refs > 0, ""
	}
	if err := db.Store(ctx, duty, core.SignedDataSet{pk(1): v}); err != nil {
		return false, "store: " + firstWords(err)
	}
	valgen.Scribble(&v)
	r1, err := db.Await(ctx, duty, pk(1), sub)
	if err != nil {
		rt.Fatalf("HARNESS-ERROR: await: %v", err)
	}
	mustSame(rt, "aggsigdb "+k.Name+": stored value vs. mutated Store argument", pristine, r1)
	mustDisjoint(rt, "aggsigdb "+k.Name+": Store argument and Await result", v, r1)
	valgen.Scribble(&r1)
	r2, err := db.Await(ctx, duty, pk(1), sub)
	if err != nil {
		rt.Fatalf("aggsigdb %s: Await failed after a caller mutated an earlier result: %v", k.Name, err)
	}
	mustSame(rt, "aggsigdb "+k.Name+": second Await after mutating the first result", pristine, r2)
	r3, _ := db.Await(ctx, duty, pk(1), sub)
	mustDisjoint(rt, "aggsigdb "+k.Name+": two Await results", r2, r3)
	return refs > 0, ""
}

// ---------------------------------------------------------------- sigagg

var (
	saSecret tbls.PrivateKey
	saShares map[int]tbls.PrivateKey
	saPubkey core.PubKey
)

func init() {
	var err error
	saSecret, err = tbls.GenerateSecretKey()
	if err != nil {
		panic(err)
	}
	saShares, err = tbls.ThresholdSplit(saSecret, 3, 2)
	if err != nil {
		panic(err)
	}
	pub, err := tbls.SecretToPublicKey(saSecret)
	if err != nil {
		panic(err)
	}
	saPubkey, err = core.PubKeyFromBytes(pub[:])
	if err != nil {
		panic(err)
	}
}

func runSigAgg(t *testing.T, rt *rapid.T, k valgen.Kind, seed int64) (bool, string) {
	ctx := context.Background()
	v := valgen.Signed(t, k, seed)
	agg, err := sigagg.New(2, func(context.Context, core.PubKey, core.SignedData) error { return nil })
	if err != nil {
		rt.Fatalf("HARNESS-ERROR: %v", err)
	}
	var a1, a2 []core.SignedDataSet
	agg.Subscribe(func(_ context.Context, _ core.Duty, set core.SignedDataSet) error {
		a1 = append(a1, set)
		for _, d := range set {
			valgen.Scribble(&d)
		}
		return nil
	})
	agg.Subscribe(func(_ context.Context, _ core.Duty, set core.SignedDataSet) error {
		a2 = append(a2, set)
		return nil
	})
	msg := []byte("c18 sigagg fan-out")
	var parts []core.ParSignedData
	for _, idx := range []int{1, 2} {
		s, err := tbls.Sign(saShares[idx], msg)
		if err != nil {
			rt.Fatalf("HARNESS-ERROR: %v", err)
		}
		sd, err := v.SetSignature(tblsconv.SigToCore(s))
		if err != nil {
			return false, "setsig"
		}
		parts = append(parts, core.ParSignedData{SignedData: sd, ShareIdx: idx})
	}
	full, err := tbls.ThresholdAggregate(map[int]tbls.Signature{1: tbls.Signature(parts[0].Signature()), 2: tbls.Signature(parts[1].Signature())})
	if err != nil {
		rt.Fatalf("HARNESS-ERROR: %v", err)
	}
	want, err := v.SetSignature(tblsconv.SigToCore(full))
	if err != nil {
		return false, "setsig"
	}
	pristine := render(want)
	duty := core.Duty{Slot: 5, Type: k.Duty}
	if err := agg.Aggregate(ctx, duty, map[core.PubKey][]core.ParSignedData{saPubkey: parts}); err != nil {
		return false, "aggregate: " + firstWords(err)
	}
	if len(a1) != 1 || len(a2) != 1 {
		rt.Fatalf("HARNESS-ERROR: sigagg subscribers %d %d", len(a1), len(a2))
	}
	mustSame(rt, "sigagg "+k.Name+": second subscriber after the first one mutated its argument", pristine, a2[0][saPubkey])
	mustDisjoint(rt, "sigagg "+k.Name+": arguments of two subscribers", a1[0], a2[0])
	mustDisjoint(rt, "sigagg "+k.Name+": input partial and published aggregate", parts[0], a2[0])
	return len(valgen.Walk(v)) > 0, ""
}

var _ = eth2p0.Slot(0)

// ---------------------------------------------------------------- parsigex subscriber fan-out

var c18Peers = func() []peer.ID {
	var out []peer.ID
	for i := 0; i < 2; i++ {
		h := sha256.Sum256([]byte(fmt.Sprintf("verif-c18-peer-%d", i)))
		id, err := p2p.PeerIDFromKey(k1.PrivKeyFromBytes(h[:]).PubKey())
		if err != nil {
			panic(err)
		}
		out = append(out, id)
	}
	return out
}()

// runParSigExFanout delivers one peer message to a production parsigex component with two subscribers;
// the first one mutates what it was handed.
func runParSigExFanout(t *testing.T, rt *rapid.T, k valgen.Kind, seed int64) (bool, string) {
	v := valgen.Signed(t, k, seed)
	net := memnet.New()
	ex := parsigex.NewParSigEx(net.Host(c18Peers[0]), p2p.Send, 0, c18Peers,
		func(context.Context, peer.ID, core.Duty, core.PubKey, core.ParSignedData) error { return nil },
		func(core.Duty) bool { return true })
	var a1, a2 []core.ParSignedDataSet
	ex.Subscribe(func(_ context.Context, _ core.Duty, set core.ParSignedDataSet) error {
		a1 = append(a1, set)
		for _, d := range set {
			valgen.Scribble(&d)
		}
		return nil
	})
	ex.Subscribe(func(_ context.Context, _ core.Duty, set core.ParSignedDataSet) error {
		a2 = append(a2, set)
		return nil
	})
	duty := core.Duty{Slot: 5, Type: k.Duty}
	in := core.ParSignedDataSet{pk(1): {SignedData: v, ShareIdx: 2}}
	pbSet, err := core.ParSignedDataSetToProto(in)
	if err != nil {
		return false, "toproto"
	}
	// what a correct receiver decodes from these bytes (reference for "pristine")
	ref, err := core.ParSignedDataSetFromProto(k.Duty, pbSet)
	if err != nil {
		return false, "fromproto: " + firstWords(err)
	}
	pristine := render(ref[pk(1)])
	f := net.Inject(c18Peers[1], c18Peers[0], parsigex.Protocols()[0], &pbv1.ParSigExMsg{Duty: core.DutyToProto(duty), DataSet: pbSet})
	net.Take(0)
	net.Deliver(f)
	f.Wait()
	if len(a1) != 1 || len(a2) != 1 {
		return false, "not-delivered"
	}
	mustSame(rt, "parsigex "+k.Name+": second subscriber after the first one mutated its argument", pristine, a2[0][pk(1)])
	mustDisjoint(rt, "parsigex "+k.Name+": arguments of two subscribers", a1[0], a2[0])
	return len(valgen.Walk(v)) > 0, ""
}

// ---------------------------------------------------------------- validatorapi subscriber fan-out

var (
	vapiOnce sync.Once
	vapiBN   *fakebn.BN
)

// runValidatorAPIFanout submits a partially signed object through the production validator API component
// (signature verification off: isolation, not validity, is the subject) with two subscribers.
func runValidatorAPIFanout(t *testing.T, rt *rapid.T, k valgen.Kind, seed int64) (bool, string) {
	vapiOnce.Do(func() {
		vapiBN = fakebn.New()
		raw, _ := pk(1).Bytes()
		var bls eth2p0.BLSPubKey
		copy(bls[:], raw)
		vapiBN.SetValidators(map[eth2p0.ValidatorIndex]eth2p0.BLSPubKey{7: bls})
	})
	ctx := context.Background()
	comp, err := validatorapi.NewComponentInsecure(t, vapiBN, 2)
	if err != nil {
		rt.Fatalf("HARNESS-ERROR: %v", err)
	}
	comp.RegisterAwaitAggSigDB(func(context.Context, core.Duty, core.PubKey, core.SubcommitteeIndex) (core.SignedData, error) {
		return nil, fmt.Errorf("nothing aggregated in this harness")
	})
	var a1, a2 []core.ParSignedDataSet
	comp.Subscribe(func(_ context.Context, _ core.Duty, set core.ParSignedDataSet) error {
		a1 = append(a1, set)
		for _, d := range set {
			valgen.Scribble(&d)
		}
		return nil
	})
	comp.Subscribe(func(_ context.Context, _ core.Duty, set core.ParSignedDataSet) error {
		a2 = append(a2, set)
		return nil
	})
	v := valgen.Signed(t, k, seed)
	var submitted any
	var pristine string
	switch d := v.(type) {
	case core.SignedVoluntaryExit:
		ex := d.SignedVoluntaryExit
		ex.Message.ValidatorIndex = 7
		ex.Message.Epoch %= 1 << 40
		pristine = render(core.NewSignedVoluntaryExit(&ex))
		submitted = &ex
		err = comp.SubmitVoluntaryExit(ctx, &ex)
	case core.SignedSyncMessage:
		m := d.SyncCommitteeMessage
		m.ValidatorIndex = 7
		pristine = render(core.NewSignedSyncMessage(&m))
		submitted = &m
		err = comp.SubmitSyncCommitteeMessages(ctx, []*altair.SyncCommitteeMessage{&m})
	case core.BeaconCommitteeSelection:
		sel := d.BeaconCommitteeSelection
		sel.ValidatorIndex = 7
		pristine = render(core.NewBeaconCommitteeSelection(&sel))
		submitted = &sel
		_, err = comp.BeaconCommitteeSelections(ctx, &eth2api.BeaconCommitteeSelectionsOpts{Selections: []*eth2v1.BeaconCommitteeSelection{&sel}})
	case core.SyncCommitteeSelection:
		sel := d.SyncCommitteeSelection
		sel.ValidatorIndex = 7
		pristine = render(core.NewSyncCommitteeSelection(&sel))
		submitted = &sel
		_, err = comp.SyncCommitteeSelections(ctx, &eth2api.SyncCommitteeSelectionsOpts{Selections: []*eth2v1.SyncCommitteeSelection{&sel}})
	default:
		return false, "type"
	}
	if err != nil {
		if len(a1) == 0 {
			return false, "submit: " + firstWords(err)
		}
	}
	if len(a1) != 1 || len(a2) != 1 {
		return false, "not-delivered"
	}
	var got core.ParSignedData
	for _, p := range a2[0] {
		got = p
	}
	mustSame(rt, "validatorapi "+k.Name+": second subscriber after the first one mutated its argument", pristine, got.SignedData)
	mustDisjoint(rt, "validatorapi "+k.Name+": arguments of two subscribers", a1[0], a2[0])
	mustDisjoint(rt, "validatorapi "+k.Name+": the submitted object and a subscriber's argument", submitted, a2[0])
	return true, ""
}

// ---------------------------------------------------------------- fetcher subscriber fan-out

// runFetcherFanout lets the production fetcher fetch attestation data for two validators of one committee
// (they share one beacon-node answer) and hand it to three subscribers; the first two mutate what they get.
func runFetcherFanout(t *testing.T, rt *rapid.T, _ valgen.Kind, seed int64) (bool, string) {
	ctx := context.Background()
	bn := fakebn.New()
	f, err := fetcher.New(bn, func(core.PubKey) string { return "0x0000000000000000000000000000000000000000" }, false, nil, 1<<40, false)
	if err != nil {
		rt.Fatalf("HARNESS-ERROR: %v", err)
	}
	var got [3]core.UnsignedDataSet
	for i := 0; i < 3; i++ {
		f.Subscribe(func(_ context.Context, _ core.Duty, set core.UnsignedDataSet) error {
			got[i] = set
			if i < 2 {
				for k, d := range set {
					valgen.Scribble(&d)
					set[k] = d
				}
				if i == 1 {
					for k := range set {
						delete(set, k)
						break
					}
				}
			}
			return nil
		})
	}
	slot := uint64(seed%1000) + 1
	defs := core.DutyDefinitionSet{}
	for i, p := range []core.PubKey{pk(1), pk(2)} {
		raw, _ := p.Bytes()
		var bls eth2p0.BLSPubKey
		copy(bls[:], raw)
		defs[p] = core.NewAttesterDefinition(&eth2v1.AttesterDuty{PubKey: bls, Slot: eth2p0.Slot(slot), ValidatorIndex: eth2p0.ValidatorIndex(10 + i), CommitteeIndex: 3, CommitteeLength: 16, CommitteesAtSlot: 4, ValidatorCommitteeIndex: uint64(i)})
	}
	// what the beacon node answers (reference for "pristine")
	resp, err := bn.AttestationData(ctx, &eth2api.AttestationDataOpts{Slot: eth2p0.Slot(slot), CommitteeIndex: 3})
	if err != nil {
		rt.Fatalf("HARNESS-ERROR: %v", err)
	}
	pristine := render(resp.Data)
	if err := f.Fetch(ctx, core.NewAttesterDuty(slot), defs); err != nil {
		return false, "fetch: " + firstWords(err)
	}
	if got[2] == nil {
		return false, "not-delivered"
	}
	if len(got[2]) != 2 {
		rt.Fatalf("ISOLATION: fetcher: the third subscriber received %d validators, want 2 (an earlier subscriber removed an entry from its own set)", len(got[2]))
	}
	for p, d := range got[2] {
		ad, ok := d.(core.AttestationData)
		if !ok {
			rt.Fatalf("HARNESS-ERROR: unexpected type %T", d)
		}
		if g := render(&ad.Data); g != pristine {
			rt.Fatalf("ISOLATION: fetcher: attestation data for %s reached the third subscriber changed by earlier subscribers\n was: %s\n now: %s", p[:10], pristine, g)
		}
	}
	mustDisjoint(rt, "fetcher: arguments of subscribers 1 and 3", got[0], got[2])
	mustDisjoint(rt, "fetcher: arguments of subscribers 2 and 3", got[1], got[2])
	var two []core.UnsignedData
	for _, d := range got[2] {
		two = append(two, d)
	}
	mustDisjoint(rt, "fetcher: the two validators' data inside one subscriber's set", two[0], two[1])
	return true, ""
}

// ---------------------------------------------------------------- duty definitions (scheduler hand-over)

// runDutyDefinitions: DutyDefinitionSet.Clone is what the scheduler puts between its stored definitions
// and every subscriber / GetDutyDefinition caller.
func runDutyDefinitions(_ *testing.T, rt *rapid.T, _ valgen.Kind, seed int64) (bool, string) {
	var bls eth2p0.BLSPubKey
	bls[0], bls[1] = byte(seed), byte(seed>>8)
	idx := eth2p0.ValidatorIndex(seed % 100000)
	sets := map[string]core.DutyDefinitionSet{
		"attester":       {pk(1): core.NewAttesterDefinition(&eth2v1.AttesterDuty{PubKey: bls, Slot: eth2p0.Slot(seed), ValidatorIndex: idx, CommitteeIndex: 2, CommitteeLength: 9, CommitteesAtSlot: 3, ValidatorCommitteeIndex: 4})},
		"proposer":       {pk(1): core.NewProposerDefinition(&eth2v1.ProposerDuty{PubKey: bls, Slot: eth2p0.Slot(seed), ValidatorIndex: idx})},
		"sync_committee": {pk(1): core.NewSyncCommitteeDefinition(&eth2v1.SyncCommitteeDuty{PubKey: bls, ValidatorIndex: idx, ValidatorSyncCommitteeIndices: []eth2p0.CommitteeIndex{eth2p0.CommitteeIndex(seed % 512), 7, 300}})},
	}
	for name, set := range sets {
		pristine := render(set[pk(1)])
		c1, err := set.Clone()
		if err != nil {
			rt.Fatalf("duty definition %s: clone: %v", name, err)
		}
		c2, err := set.Clone()
		if err != nil {
			rt.Fatalf("duty definition %s: clone: %v", name, err)
		}
		if g := render(c1[pk(1)]); g != pristine {
			rt.Fatalf("ISOLATION: duty definition %s: a clone differs from its original: %s vs %s", name, g, pristine)
		}
		for k, d := range c1 {
			valgen.Scribble(&d)
			c1[k] = d
		}
		mustSame(rt, "duty definition "+name+": the stored definition after a holder of a clone mutated it", pristine, set[pk(1)])
		mustSame(rt, "duty definition "+name+": a second clone after the first one was mutated", pristine, c2[pk(1)])
		mustDisjoint(rt, "duty definition "+name+": two clones", c1, c2)
		mustDisjoint(rt, "duty definition "+name+": a clone and the stored set", c2, set)
	}
	return true, ""
}
