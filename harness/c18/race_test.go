// C18 — real-thread companion. Readers, writers and subscribers on real goroutines each scribble over
// whatever they hold (their own argument after handing it over, every result they receive) while the
// others keep reading and storing. Under the race detector (thorough tier) any memory that two holders
// share shows as a data race; in every tier a last read must still equal the pristine value.
package c18

import (
	"context"
	"fmt"
	"sync"
	"testing"
	"time"

	"pgregory.net/rapid"

	"github.com/obolnetwork/charon/core"
	"github.com/obolnetwork/charon/core/aggsigdb"
	"github.com/obolnetwork/charon/core/dutydb"
	"github.com/obolnetwork/charon/core/parsigdb"

	"verifharness/fakes"
	"verifharness/valgen"
	"verifharness/vstat"
)

func TestC18Threads(t *testing.T) {
	vstat.Rule("C18", "threads: a drawn store (dutydb, aggsigdb v1/v2, parsigdb) and value; 2-4 reader goroutines that scribble over every result they get, a writer that re-stores the identical datum and scribbles over its argument afterwards, subscribers that scribble later on their own goroutine; oracle: a final read equals the pristine value (and, under -race, no data race); non-trivial = the value has >= 1 reachable reference")
	rapid.Check(t, func(rt *rapid.T) {
		which := rapid.SampledFrom([]string{"dutydb", "aggsigdb_v1", "aggsigdb_v2", "parsigdb"}).Draw(rt, "store")
		var ks []valgen.Kind
		for _, k := range valgen.Kinds {
			if (which == "dutydb") == k.Unsigned {
				ks = append(ks, k)
			}
		}
		k := ks[rapid.IntRange(0, len(ks)-1).Draw(rt, "kind")]
		seed := int64(rapid.IntRange(1, 1<<30).Draw(rt, "seed"))
		readers := rapid.IntRange(2, 4).Draw(rt, "readers")
		rounds := rapid.IntRange(2, 6).Draw(rt, "rounds")
		var nontrivial bool
		var skipped string
		switch which {
		case "dutydb":
			nontrivial, skipped = threadsDutyDB(t, rt, k, seed, readers, rounds)
		case "parsigdb":
			nontrivial, skipped = threadsParSigDB(t, rt, k, seed, readers, rounds)
		default:
			nontrivial, skipped = threadsAggSigDB(t, rt, k, seed, readers, rounds, which == "aggsigdb_v2")
		}
		if skipped != "" {
			vstat.Case("", false, "skipped:threads:"+which+":"+skipped)
			return
		}
		vstat.Case(fmt.Sprintf("threads/%s/%s/%d/%d", which, k.Name, seed, readers), nontrivial, "threads:"+which, "type:"+k.Name)
	})
}

func threadsDutyDB(t *testing.T, rt *rapid.T, k valgen.Kind, seed int64, readers, rounds int) (bool, string) {
	ctx, cancel := context.WithCancel(context.Background()) // no wall-clock deadline: a slow machine is not a violation
	defer cancel()
	v := valgen.Unsigned(t, k, seed)
	db := dutydb.NewMemDB(fakes.NewDeadliner())
	var await func() (any, error)
	var slot uint64
	switch d := v.(type) {
	case core.AttestationData:
		slot = uint64(d.Data.Slot)
		await = func() (any, error) { return db.AwaitAttestation(ctx, slot, uint64(d.Duty.CommitteeIndex)) }
	case core.VersionedProposal:
		s, err := d.Slot()
		if err != nil {
			return false, "no slot"
		}
		slot = uint64(s)
		await = func() (any, error) { return db.AwaitProposal(ctx, slot) }
	case core.VersionedAggregatedAttestation:
		data, err := d.Data()
		if err != nil {
			return false, "no data"
		}
		root, err := data.HashTreeRoot()
		if err != nil {
			return false, "no root"
		}
		ci, err := d.CommitteeIndex()
		if err != nil {
			return false, "no committee index"
		}
		slot = uint64(data.Slot)
		await = func() (any, error) { return db.AwaitAggAttestation(ctx, slot, root, ci) }
	case core.SyncContribution:
		slot = uint64(d.Slot)
		sub, r := d.SubcommitteeIndex, d.BeaconBlockRoot
		await = func() (any, error) { return db.AwaitSyncContribution(ctx, slot, sub, r) }
	default:
		return false, "kind"
	}
	duty := core.Duty{Slot: slot, Type: k.Duty}
	pristineCopy, err := v.Clone()
	if err != nil {
		return false, "clone"
	}
	refs := len(valgen.Walk(v))
	if err := db.Store(ctx, duty, core.UnsignedDataSet{pk(1): v}); err != nil {
		return false, "store: " + firstWords(err)
	}
	r0, err := await()
	if err != nil {
		rt.Fatalf("HARNESS-ERROR: await after store: %v", err)
	}
	pristine := render(r0)
	var wg sync.WaitGroup
	wg.Add(1)
	go func() { // the first writer reuses its object
		defer wg.Done()
		valgen.Scribble(&v)
	}()
	for i := 0; i < readers; i++ {
		wg.Add(1)
		go func() {
			defer wg.Done()
			for r := 0; r < rounds; r++ {
				if got, err := await(); err == nil {
					valgen.Scribble(got)
				}
			}
		}()
	}
	wg.Add(1)
	go func() { // every node stores what consensus decided, possibly more than once
		defer wg.Done()
		for r := 0; r < rounds; r++ {
			again, err := pristineCopy.Clone()
			if err != nil {
				return
			}
			_ = db.Store(ctx, duty, core.UnsignedDataSet{pk(1): again})
			valgen.Scribble(&again)
		}
	}()
	wg.Wait()
	last, err := await()
	if err != nil {
		rt.Fatalf("dutydb %s: Await failed after concurrent readers mutated their results: %v", k.Name, err)
	}
	mustSame(rt, "dutydb "+k.Name+" (threads): read after concurrent readers and writers scribbled over their own copies", pristine, last)
	return refs > 0, ""
}

func threadsAggSigDB(t *testing.T, rt *rapid.T, k valgen.Kind, seed int64, readers, rounds int, v2 bool) (bool, string) {
	ctx, cancel := context.WithCancel(context.Background()) // no wall-clock deadline: a slow machine is not a violation
	defer cancel()
	v := valgen.Signed(t, k, seed)
	var sub core.SubcommitteeIndex
	if core.IsSyncSubcommitteeDuty(k.Duty) {
		var err error
		if sub, err = core.SyncSubcommitteeIndex(k.Duty, v); err != nil {
			return false, "subcommittee"
		}
	}
	var db aggStore
	if v2 {
		db = aggsigdb.NewMemDBV2(fakes.NewDeadliner())
	} else {
		db = aggsigdb.NewMemDB(fakes.NewDeadliner())
	}
	go db.Run(ctx)
	duty := core.Duty{Slot: 5, Type: k.Duty}
	pristine := render(v)
	pristineCopy, err := v.Clone()
	if err != nil {
		return false, "clone"
	}
	refs := len(valgen.Walk(v))
	var wg sync.WaitGroup
	// readers are already waiting when the value arrives
	for i := 0; i < readers; i++ {
		wg.Add(1)
		go func() {
			defer wg.Done()
			for r := 0; r < rounds; r++ {
				if got, err := db.Await(ctx, duty, pk(1), sub); err == nil {
					valgen.Scribble(&got)
				}
			}
		}()
	}
	if err := db.Store(ctx, duty, core.SignedDataSet{pk(1): v}); err != nil {
		cancel()
		wg.Wait()
		return false, "store: " + firstWords(err)
	}
	wg.Add(2)
	go func() {
		defer wg.Done()
		valgen.Scribble(&v)
	}()
	go func() {
		defer wg.Done()
		for r := 0; r < rounds; r++ {
			again, err := pristineCopy.Clone()
			if err != nil {
				return
			}
			_ = db.Store(ctx, duty, core.SignedDataSet{pk(1): again})
			valgen.Scribble(&again)
		}
	}()
	wg.Wait()
	last, err := db.Await(ctx, duty, pk(1), sub)
	if err != nil {
		rt.Fatalf("aggsigdb %s: Await failed after concurrent readers mutated their results: %v", k.Name, err)
	}
	mustSame(rt, "aggsigdb "+k.Name+" (threads): read after concurrent readers and writers scribbled over their own copies", pristine, last)
	return refs > 0, ""
}

func threadsParSigDB(t *testing.T, rt *rapid.T, k valgen.Kind, seed int64, readers, rounds int) (bool, string) {
	ctx := context.Background()
	v := valgen.Signed(t, k, seed)
	if core.IsSyncSubcommitteeDuty(k.Duty) {
		if _, err := core.SyncSubcommitteeIndex(k.Duty, v); err != nil {
			return false, "subcommittee"
		}
	}
	threshold := readers // shares 1..threshold arrive concurrently
	db := parsigdb.NewMemDB(threshold, fakes.NewDeadliner(core.DutyExit, core.DutyBuilderRegistration), parsigdb.NewMemDBMetadata(12, time.Now()))
	var wg sync.WaitGroup
	var mu sync.Mutex
	var seen []string
	for s := 0; s < 2; s++ {
		db.SubscribeThreshold(func(_ context.Context, _ core.Duty, set map[core.PubKey][]core.ParSignedData) error {
			mu.Lock()
			seen = append(seen, render(set[pk(1)]))
			mu.Unlock()
			wg.Add(1)
			go func() { // the aggregator works on its own goroutine and owns what it was given
				defer wg.Done()
				for _, list := range set {
					for i := range list {
						valgen.Scribble(&list[i])
					}
				}
			}()
			return nil
		})
		db.SubscribeInternal(func(_ context.Context, _ core.Duty, set core.ParSignedDataSet) error {
			wg.Add(1)
			go func() {
				defer wg.Done()
				for _, d := range set {
					valgen.Scribble(&d)
				}
			}()
			return nil
		})
	}
	duty := core.Duty{Slot: 5, Type: k.Duty}
	refs := len(valgen.Walk(v))
	pristineShare := func(idx int) string {
		c, _ := v.Clone()
		return render(core.ParSignedData{SignedData: c, ShareIdx: idx})
	}
	if _, err := v.Clone(); err != nil {
		return false, "clone"
	}
	errs := make([]error, threshold+1)
	for idx := 1; idx <= threshold; idx++ {
		wg.Add(1)
		go func() {
			defer wg.Done()
			c, _ := v.Clone()
			p := core.ParSignedData{SignedData: c, ShareIdx: idx}
			if idx == 1 {
				errs[idx] = db.StoreInternal(ctx, duty, core.ParSignedDataSet{pk(1): p})
			} else {
				errs[idx] = db.StoreExternal(ctx, duty, core.ParSignedDataSet{pk(1): p})
			}
			valgen.Scribble(&p) // the caller reuses its object
		}()
	}
	wg.Wait()
	for idx := 1; idx <= threshold; idx++ {
		if errs[idx] != nil {
			return false, "store: " + firstWords(errs[idx])
		}
	}
	mu.Lock()
	defer mu.Unlock()
	if len(seen) != 2 {
		rt.Fatalf("HARNESS-ERROR: %d threshold calls for %d subscribers", len(seen), 2)
	}
	// what each threshold subscriber was handed (rendered at hand-over) is the pristine shares, whatever the
	// other subscriber, the internal subscribers and the callers did to their copies meanwhile
	want := map[string]bool{}
	for idx := 1; idx <= threshold; idx++ {
		want[pristineShare(idx)] = true
	}
	for s, got := range seen {
		for idx := 1; idx <= threshold; idx++ {
			if !containsRendered(got, pristineShare(idx)) {
				rt.Fatalf("ISOLATION: parsigdb %s (threads): threshold subscriber %d was handed content that differs from the pristine share %d\n got: %.400s", k.Name, s, idx, got)
			}
		}
	}
	return refs > 0, ""
}

func containsRendered(list, elem string) bool {
	return len(elem) > 0 && len(list) >= len(elem) && (stringsIndex(list, elem) >= 0)
}

func stringsIndex(s, sub string) int {
	for i := 0; i+len(sub) <= len(s); i++ {
		if s[i:i+len(sub)] == sub {
			return i
		}
	}
	return -1
}
