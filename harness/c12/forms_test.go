package c12

import (
	"bytes"
	"encoding/json"
	"fmt"
	"strings"
	"testing"
	"unicode"

	"pgregory.net/rapid"

	"github.com/obolnetwork/charon/cluster"

	"verifharness/vstat"
)

// TestC12ReEncodeForms — clause (c) of C12 beyond the committed files: "decoding then re-encoding a file never
// changes its hashes". A file is what an operator's tool chain wrote, not necessarily charon's own canonical
// text: hex digits in another case, a missing or doubled 0x prefix, escaped characters, other key order and
// white space, numbers written as strings or with an exponent. A drawn valid definition / lock gets one to three
// such re-writings of drawn leaves. Whenever the re-written file still decodes AND still passes hash verification
// (i.e. charon itself takes it for the same cluster), then (1) decode -> encode -> decode must keep config /
// definition / lock hash and still verify, (2) encoding is stable from then on (encode(decode(encode(x))) ==
// encode(x)), and (3) the hashes equal those of the original file. A re-writing charon refuses asserts nothing.
func TestC12ReEncodeForms(t *testing.T) {
	vstat.Rule("C12", "re-encode of equivalent textual forms: a valid definition / lock with 1..3 drawn leaves re-written (hex case, 0x prefix, escapes, number forms, key order, white space); when the result still decodes and passes VerifyHashes: decode -> encode -> decode keeps all hashes, verification and a stable encoding; non-trivial = the re-written file was accepted")
	bs := bases(t)
	rapid.Check(t, func(rt *rapid.T) {
		b := bs[rapid.IntRange(0, len(bs)-1).Draw(rt, "base")]
		dec := json.NewDecoder(bytes.NewReader(b.doc))
		dec.UseNumber()
		var root any
		if err := dec.Decode(&root); err != nil {
			rt.Fatalf("HARNESS-ERROR: %v", err)
		}
		var ls, arrs []leaf
		collectLeaves(root, "", nil, "", 0, &ls, &arrs)
		k := rapid.IntRange(1, 3).Draw(rt, "rewrites")
		var done []string
		rewritten := map[string]bool{}
		for i := 0; i < k; i++ {
			l := ls[rapid.IntRange(0, len(ls)-1).Draw(rt, "leaf")]
			if rewritten[l.path] {
				continue // one re-writing per leaf
			}
			get := func() any {
				if m, ok := l.parent.(map[string]any); ok {
					return m[l.key]
				}
				return l.parent.([]any)[l.idx]
			}
			set := func(v any) {
				if m, ok := l.parent.(map[string]any); ok {
					m[l.key] = v
				} else {
					l.parent.([]any)[l.idx] = v
				}
			}
			form := rapid.SampledFrom([]string{"hex_upper", "hex_mixed", "drop_0x", "number_as_string", "string_as_number", "number_exponent", "pad_zero", "trim_space"}).Draw(rt, "form")
			cur := get()
			switch v := cur.(type) {
			case string:
				switch form {
				case "hex_upper":
					if !strings.HasPrefix(v, "0x") {
						continue
					}
					set("0x" + strings.ToUpper(v[2:]))
				case "hex_mixed":
					if !strings.HasPrefix(v, "0x") {
						continue
					}
					r := []rune(v[2:])
					for j := range r {
						if rapid.Bool().Draw(rt, "upper") {
							r[j] = unicode.ToUpper(r[j])
						}
					}
					set("0x" + string(r))
				case "drop_0x":
					if !strings.HasPrefix(v, "0x") {
						continue
					}
					set(v[2:])
				case "string_as_number":
					if v == "" || strings.Trim(v, "0123456789") != "" {
						continue
					}
					set(json.Number(v))
				case "pad_zero":
					if v == "" || strings.Trim(v, "0123456789") != "" {
						continue
					}
					set("0" + v)
				case "trim_space":
					set(v + " ")
				default:
					continue
				}
			case json.Number:
				switch form {
				case "number_as_string":
					set(v.String())
				case "number_exponent":
					set(json.Number(v.String() + "e0"))
				default:
					continue
				}
			default:
				continue
			}
			done = append(done, l.path+":"+form)
			rewritten[l.path] = true
		}
		if len(done) == 0 {
			rt.Skip("no re-writing applies to the drawn leaves")
		}
		// other key order / white space: encode the tree with indentation (Go sorts map keys)
		var doc []byte
		var err error
		if rapid.Bool().Draw(rt, "indent") {
			doc, err = json.MarshalIndent(root, "", "\t")
		} else {
			doc, err = json.Marshal(root)
		}
		if err != nil {
			rt.Fatalf("HARNESS-ERROR: %v", err)
		}
		what := fmt.Sprintf("%s with %v", b.name, done)

		type hashes struct{ cfg, def, lock []byte }
		decode := func(doc []byte) (hashes, func() error, func() ([]byte, error), error) {
			if isDefinitionDoc(b.doc) {
				var d cluster.Definition
				if err := json.Unmarshal(doc, &d); err != nil {
					return hashes{}, nil, nil, err
				}
				return hashes{d.ConfigHash, d.DefinitionHash, nil}, d.VerifyHashes, func() ([]byte, error) { return json.Marshal(d) }, nil
			}
			var l cluster.Lock
			if err := json.Unmarshal(doc, &l); err != nil {
				return hashes{}, nil, nil, err
			}
			return hashes{l.ConfigHash, l.DefinitionHash, l.LockHash}, l.VerifyHashes, func() ([]byte, error) { return json.Marshal(l) }, nil
		}
		h0, _, _, err := decode(b.doc)
		if err != nil {
			rt.Fatalf("HARNESS-ERROR: base %s does not decode: %v", b.name, err)
		}
		h1, verify1, enc1, err := decode(doc)
		if err != nil || verify1() != nil {
			vstat.Case("forms-refused/"+what, false, "forms:refused_by_decoder_or_hash_check")
			return
		}
		eq := func(a, b hashes) bool {
			return bytes.Equal(a.cfg, b.cfg) && bytes.Equal(a.def, b.def) && bytes.Equal(a.lock, b.lock)
		}
		if !eq(h0, h1) {
			rt.Fatalf("RE-ENCODE: %s: accepted (hash verification passes) but its hashes differ from the original file's", what)
		}
		e1, err := enc1()
		if err != nil {
			rt.Fatalf("RE-ENCODE: %s: accepted but does not marshal: %v", what, err)
		}
		h2, verify2, enc2, err := decode(e1)
		if err != nil {
			rt.Fatalf("RE-ENCODE: %s: re-encoded form does not decode: %v", what, err)
		}
		if !eq(h1, h2) {
			rt.Fatalf("RE-ENCODE: %s: hashes changed by decode / encode", what)
		}
		if err := verify2(); err != nil {
			rt.Fatalf("RE-ENCODE: %s: the file passes hash verification, its re-encoded form does not: %v", what, err)
		}
		e2, err := enc2()
		if err != nil {
			rt.Fatalf("RE-ENCODE: %s: second encoding fails: %v", what, err)
		}
		if !bytes.Equal(e1, e2) {
			rt.Fatalf("RE-ENCODE: %s: encoding is not stable (encode(decode(encode(x))) differs from encode(x))", what)
		}
		classes := []string{"forms:accepted"}
		for _, d := range done {
			classes = append(classes, "form_accepted:"+d[strings.LastIndex(d, ":")+1:])
		}
		vstat.Case("forms/"+what, true, classes...)
	})
}
