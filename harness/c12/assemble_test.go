package c12

// Valid locks of every supported format version, assembled by the harness the way cluster creation does:
// cluster.NewForT gives the definition (operators signed with their k1 keys where the version has EIP-712
// signatures), the key shares and the node keys; the harness then adds what creation writes into a lock of
// that version (deposit data from v1.6, several partial amounts from v1.8), recomputes the lock hash with the
// exported SetLockHash and signs it again with every share (aggregate) and every node key (from v1.7).
// Every assembled lock must pass VerifyHashes and VerifySignatures unaltered before it is used as a base.

import (
	"encoding/json"
	"fmt"
	"math/rand"
	"strings"
	"testing"

	eth2p0 "github.com/attestantio/go-eth2-client/spec/phase0"
	k1 "github.com/decred/dcrd/dcrec/secp256k1/v4"

	"github.com/obolnetwork/charon/app/k1util"
	"github.com/obolnetwork/charon/cluster"
	"github.com/obolnetwork/charon/tbls"
)

var allVersions = []string{"v1.0.0", "v1.1.0", "v1.2.0", "v1.3.0", "v1.4.0", "v1.5.0", "v1.6.0", "v1.7.0", "v1.8.0", "v1.9.0", "v1.10.0", "v1.11.0"}

func verNum(v string) int {
	var maj, min, pat int
	fmt.Sscanf(v, "v%d.%d.%d", &maj, &min, &pat)
	return min
}

// shape of an assembled lock
type shape struct {
	version    string
	dv, k, n   int
	seed       int
	amountsEth []int // deposit amounts (v1.8+: in the definition as well)
	compound   bool  // v1.10+
	consensus  string
}

func (s shape) name() string {
	return fmt.Sprintf("assembled/%s/%dv-%dof%d/seed%d/%v/%v/%s", s.version, s.dv, s.k, s.n, s.seed, s.amountsEth, s.compound, s.consensus)
}

func assemble(t *testing.T, s shape) (cluster.Lock, []*k1.PrivateKey, [][]tbls.PrivateKey, error) {
	vn := verNum(s.version)
	opts := []func(*cluster.Definition){cluster.WithVersion(s.version)}
	opts = append(opts, func(d *cluster.Definition) {
		if vn < 10 {
			d.TargetGasLimit = 0
		}
		if vn >= 10 {
			d.Compounding = s.compound
		}
		if vn >= 9 {
			d.ConsensusProtocol = s.consensus
		}
		if vn >= 8 && len(s.amountsEth) > 0 {
			d.DepositAmounts = nil
			for _, a := range s.amountsEth {
				d.DepositAmounts = append(d.DepositAmounts, eth2p0.Gwei(a)*1000000000)
			}
		}
	})
	if vn < 5 {
		opts = append(opts, cluster.WithLegacyVAddrs("0x"+strings.Repeat("12", 20), "0x"+strings.Repeat("34", 20)))
	}
	lock, nodeKeys, shares := cluster.NewForT(t, s.dv, s.k, s.n, s.seed, rand.New(rand.NewSource(int64(s.seed))), opts...)

	// deposit data as creation writes them
	if vn >= 6 {
		amounts := []int{32}
		if vn >= 8 && len(s.amountsEth) > 0 {
			amounts = s.amountsEth
		}
		for j := range lock.Validators {
			v := &lock.Validators[j]
			secrets := map[int]tbls.PrivateKey{}
			for i := 0; i < s.k; i++ {
				secrets[i+1] = shares[j][i]
			}
			root, err := tbls.RecoverSecret(secrets, uint(s.n), uint(s.k))
			if err != nil {
				return lock, nil, nil, err
			}
			prefix := byte(1)
			if s.compound && vn >= 10 {
				prefix = 2
			}
			wd := lock.ValidatorAddresses[j].WithdrawalAddress
			creds := append(append([]byte{prefix}, make([]byte, 11)...), mustHex(wd)...)
			v.PartialDepositData = nil
			for _, a := range amounts {
				var pk eth2p0.BLSPubKey
				copy(pk[:], v.PubKey)
				sr := signingRoot(&eth2p0.DepositMessage{PublicKey: pk, WithdrawalCredentials: creds, Amount: eth2p0.Gwei(a) * 1000000000}, "DOMAIN_DEPOSIT", lock.ForkVersion)
				sig, err := tbls.Sign(root, sr[:])
				if err != nil {
					return lock, nil, nil, err
				}
				v.PartialDepositData = append(v.PartialDepositData, cluster.DepositData{PubKey: append([]byte(nil), v.PubKey...), WithdrawalCredentials: creds, Amount: a * 1000000000, Signature: append([]byte(nil), sig[:]...)})
			}
		}
	}
	if vn < 7 {
		for j := range lock.Validators {
			lock.Validators[j].BuilderRegistration = cluster.BuilderRegistration{}
		}
	}
	var err error
	lock, err = resign(lock, nodeKeys, shares)
	return lock, nodeKeys, shares, err
}

// resign recomputes the lock hash and every signature over it.
func resign(lock cluster.Lock, nodeKeys []*k1.PrivateKey, shares [][]tbls.PrivateKey) (cluster.Lock, error) {
	lock, err := lock.SetLockHash()
	if err != nil {
		return lock, err
	}
	var sigs []tbls.Signature
	for _, vs := range shares {
		for _, sh := range vs {
			sig, err := tbls.Sign(sh, lock.LockHash)
			if err != nil {
				return lock, err
			}
			sigs = append(sigs, sig)
		}
	}
	agg, err := tbls.Aggregate(sigs)
	if err != nil {
		return lock, err
	}
	lock.SignatureAggregate = agg[:]
	lock.NodeSignatures = nil
	if cluster.SupportNodeSignatures(lock.Version) {
		for _, k := range nodeKeys {
			sig, err := k1util.Sign(k, lock.LockHash)
			if err != nil {
				return lock, err
			}
			lock.NodeSignatures = append(lock.NodeSignatures, sig)
		}
	}
	return lock, nil
}

func assembledBase(t *testing.T, s shape) base {
	lock, _, _, err := assemble(t, s)
	if err != nil {
		t.Fatalf("HARNESS-ERROR: assemble %s: %v", s.name(), err)
	}
	doc, err := json.Marshal(lock)
	if err != nil {
		t.Fatalf("HARNESS-ERROR: assemble %s: marshal: %v", s.name(), err)
	}
	return base{s.name(), doc, true}
}

func TestC12AssembleProbe(t *testing.T) {
	for _, v := range allVersions {
		s := shape{version: v, dv: 2, k: 3, n: 4, seed: 5, amountsEth: []int{8, 24}, compound: true, consensus: "qbft"}
		b := assembledBase(t, s)
		err := verifyLock(b.doc, true)
		t.Logf("%s: %v (%d bytes)", v, err, len(b.doc))
	}
}

// multisigBase: an assembled v1.11 lock whose creator config signature and operator signatures are replaced by
// cnt concatenated 65 byte signatures (the Safe multisig form the v1.11 schema hashes as a list); definition
// and lock hashes are recomputed with the exported setters. Hash verification only.
func multisigBase(t *testing.T, s shape, cnt int) base {
	lock, nodeKeys, shares, err := assemble(t, s)
	if err != nil {
		t.Fatalf("HARNESS-ERROR: assemble %s: %v", s.name(), err)
	}
	r := rand.New(rand.NewSource(int64(s.seed)))
	multi := func() []byte {
		b := make([]byte, 65*cnt)
		r.Read(b)
		return b
	}
	lock.Definition.Creator.ConfigSignature = multi()
	for i := range lock.Definition.Operators {
		lock.Definition.Operators[i].ConfigSignature = multi()
		lock.Definition.Operators[i].ENRSignature = multi()
	}
	lock.Definition, err = lock.Definition.SetDefinitionHashes()
	if err != nil {
		t.Fatalf("HARNESS-ERROR: %v", err)
	}
	lock, err = resign(lock, nodeKeys, shares)
	if err != nil {
		t.Fatalf("HARNESS-ERROR: %v", err)
	}
	doc, err := json.Marshal(lock)
	if err != nil {
		t.Fatalf("HARNESS-ERROR: %v", err)
	}
	return base{fmt.Sprintf("multisig%d/%s", cnt, s.name()), doc, false}
}
