// C12 — cluster artifacts are mutually consistent and tamper-evident.
package c12

import (
	"bytes"
	"context"
	"encoding/base64"
	"encoding/hex"
	"encoding/json"
	"fmt"
	"github.com/obolnetwork/charon/testutil"
	"math/rand"
	"os"
	"path/filepath"
	"reflect"
	"regexp"
	"sort"
	"strings"
	"testing"

	eth2v1 "github.com/attestantio/go-eth2-client/api/v1"
	"github.com/attestantio/go-eth2-client/spec/bellatrix"
	eth2p0 "github.com/attestantio/go-eth2-client/spec/phase0"
	"pgregory.net/rapid"

	"github.com/obolnetwork/charon/cluster"
	"github.com/obolnetwork/charon/cmd"
	"github.com/obolnetwork/charon/cmd/combine"
	"github.com/obolnetwork/charon/eth2util"
	"github.com/obolnetwork/charon/eth2util/deposit"
	"github.com/obolnetwork/charon/eth2util/keystore"
	"github.com/obolnetwork/charon/tbls"

	"verifharness/fakebn"
	"verifharness/vstat"
)

func TestMain(m *testing.M) { vstat.Main(m) }

const ruleCreate = "create cluster --insecure-keys through the real CLI (cmd.New) into a temp dir: nodes 3..10, threshold default or 2..n, validators 1..3, network in {goerli, sepolia, hoodi, gnosis, chiado}, deposit amounts default or partial sets, compounding on/off; every third case through --definition-file with a harness-written definition of a drawn format version v1.0..v1.11 (unsigned operators, deposit amounts also unordered / repeated where the version carries them): the lock must then have that version and the config hash of the provided definition; " +
	"oracle: every node's lock is identical and passes VerifyHashes + VerifySignatures, keystore i/j decrypts to a secret whose public key is lock.validators[j].public_shares[i], every deposit datum and builder registration verifies (harness-side spec verification) for the lock's validator key / amount / withdrawal credentials, a drawn t-subset of shares recombines to the validator key, combine output keystores match; non-trivial = t < n or > 1 deposit amount or > 1 validator; distinct by configuration"
const ruleTamper = "tamper evidence: valid locks and definitions (harness-assembled locks of every format version v1.0..v1.11 - definition signed by every operator where the version has EIP-712 signatures, deposit data, registrations, aggregate and node signatures re-made over the recomputed lock hash - and the definitions embedded in them as definition files: full hash+signature verification; v1.11 locks with 2/3/5-fold Safe multisig signatures: hash verification; cluster.NewForT for v1.10 / v1.11, the committed cluster/examples locks v1.1, v1.2, v1.7: full hash+signature verification; the per-version golden locks v1.0..v1.11: hash verification) x every leaf of the JSON document x representative alteration (hex nibble flip, character change, +-1, bool flip, value emptied / zeroed, value made longer by trailing bytes or digits, key removed, element removed / duplicated / swapped); altered document must fail to unmarshal, or fail VerifyHashes, or fail VerifySignatures, and (fully verifiable locks) must also be refused by the lock loader cluster.LoadClusterLock; " +
	"leaves outside the hashed / signed declaration (operator nonce of v1.0/v1.1; signature fields in hash-only mode) assert nothing; non-trivial = every (base, path, alteration)"

var forkVersions = map[string]string{"goerli": "00001020", "gnosis": "00000064", "chiado": "0000006f", "sepolia": "90000069", "hoodi": "10000910"}

func mustHex(s string) []byte {
	b, err := hex.DecodeString(strings.TrimPrefix(s, "0x"))
	if err != nil {
		panic("HARNESS-ERROR: " + err.Error())
	}
	return b
}

type htr interface{ HashTreeRoot() ([32]byte, error) }

func signingRoot(obj htr, domainType string, forkVersion []byte) [32]byte {
	or, err := obj.HashTreeRoot()
	if err != nil {
		panic("HARNESS-ERROR: " + err.Error())
	}
	var fv eth2p0.Version
	copy(fv[:], forkVersion)
	dom := fakebn.ComputeDomain(fakebn.DomainTypes[domainType], fv, eth2p0.Root{})
	sr, err := (&eth2p0.SigningData{ObjectRoot: or, Domain: dom}).HashTreeRoot()
	if err != nil {
		panic("HARNESS-ERROR: " + err.Error())
	}
	return sr
}

func TestC12Create(t *testing.T) {
	vstat.Rule("C12", ruleCreate)
	rapid.Check(t, func(rt *rapid.T) {
		n := rapid.IntRange(3, 10).Draw(rt, "nodes")
		thr := 0
		if rapid.Bool().Draw(rt, "customThreshold") {
			thr = rapid.IntRange(2, n).Draw(rt, "threshold")
		}
		vals := rapid.IntRange(1, 3).Draw(rt, "validators")
		network := rapid.SampledFrom([]string{"goerli", "sepolia", "hoodi", "gnosis", "chiado"}).Draw(rt, "network")
		amounts := rapid.SampledFrom([][]int{nil, {32}, {8, 24}, {1, 31}, {16, 16}, {1, 2, 29}, {32, 8}}).Draw(rt, "amounts")
		compounding := rapid.Bool().Draw(rt, "compounding")
		withdrawal := "0x" + strings.Repeat("ab", 19) + fmt.Sprintf("%02x", rapid.IntRange(0, 255).Draw(rt, "addrByte"))
		fee := "0x" + strings.Repeat("cd", 20)
		// with several validators, half of the cases give every validator its own withdrawal and fee recipient address
		wdOf, feeOf := make([]string, vals), make([]string, vals)
		perValidator := vals > 1 && rapid.Bool().Draw(rt, "addressesPerValidator")
		for j := range wdOf {
			wdOf[j], feeOf[j] = withdrawal, fee
			if perValidator {
				wdOf[j] = "0x" + strings.Repeat("ab", 18) + fmt.Sprintf("%02x", j+1) + withdrawal[len(withdrawal)-2:]
				feeOf[j] = "0x" + strings.Repeat("cd", 19) + fmt.Sprintf("%02x", j+1)
			}
		}
		// Every third case goes through --definition-file: the definition (any format version, unsigned
		// operators, deposit amounts in any order and with repeats where the version carries them) is
		// written by the harness with the exported constructor, the CLI turns it into a cluster.
		viaDef := rapid.IntRange(0, 2).Draw(rt, "viaDefinitionFile") == 0
		defVersion := ""
		var providedDef cluster.Definition

		dir, err := os.MkdirTemp("", "verif-c12-")
		if err != nil {
			rt.Fatalf("HARNESS-ERROR: %v", err)
		}
		defer os.RemoveAll(dir)
		var args []string
		if viaDef {
			defVersion = rapid.SampledFrom(allVersions).Draw(rt, "definitionVersion")
			vn := verNum(defVersion)
			if thr == 0 {
				thr = (2*n + 2) / 3
			}
			if network == "gnosis" {
				network = "hoodi" // insecure keys are refused for gnosis in this flow
			}
			if vn < 8 {
				amounts = nil
			} else if amounts != nil && rapid.Bool().Draw(rt, "amountsUnordered") {
				amounts = rapid.SampledFrom([][]int{{24, 8}, {16, 8, 8}, {8, 16, 8}, {31, 1}, {29, 2, 1}, {8, 8, 8, 8}, {32, 1}}).Draw(rt, "unorderedAmounts")
			}
			if vn < 10 {
				compounding = false
			}
			gas := uint(0)
			if vn >= 10 {
				gas = uint(rapid.SampledFrom([]int{30000000, 36000000, 60000000}).Draw(rt, "gasLimit"))
			}
			if vn < 5 && perValidator { // one address pair for the whole cluster in the formats before v1.5
				perValidator = false
				for j := range wdOf {
					wdOf[j], feeOf[j] = withdrawal, fee
				}
			}
			fees, wds := make([]string, vals), make([]string, vals)
			csFee, err1 := eth2util.ChecksumAddress(fee)
			csWd, err2 := eth2util.ChecksumAddress(withdrawal)
			if err1 != nil || err2 != nil {
				rt.Fatalf("HARNESS-ERROR: checksum address: %v %v", err1, err2)
			}
			for j := range fees {
				var e1, e2 error
				fees[j], e1 = eth2util.ChecksumAddress(feeOf[j])
				wds[j], e2 = eth2util.ChecksumAddress(wdOf[j])
				if e1 != nil || e2 != nil {
					rt.Fatalf("HARNESS-ERROR: checksum address: %v %v", e1, e2)
				}
			}
			opts := []func(*cluster.Definition){cluster.WithVersion(defVersion)}
			if vn < 5 {
				opts = append(opts, cluster.WithLegacyVAddrs(csFee, csWd))
			}
			providedDef, err = cluster.NewDefinition("verif", vals, thr, fees, wds, "0x"+forkVersions[network], cluster.Creator{}, make([]cluster.Operator, n), amounts, "", gas, compounding, rand.New(rand.NewSource(int64(n*1000+vals))), opts...)
			if err != nil {
				rt.Fatalf("HARNESS-ERROR: definition %s: %v", defVersion, err)
			}
			db, err := json.Marshal(providedDef)
			if err != nil {
				rt.Fatalf("HARNESS-ERROR: %v", err)
			}
			defPath := filepath.Join(dir, "definition.json")
			if err := os.WriteFile(defPath, db, 0o600); err != nil {
				rt.Fatalf("HARNESS-ERROR: %v", err)
			}
			args = []string{"create", "cluster", "--insecure-keys", "--definition-file=" + defPath, "--cluster-dir=" + dir}
		} else {
			args = []string{"create", "cluster", "--insecure-keys", fmt.Sprintf("--nodes=%d", n), fmt.Sprintf("--num-validators=%d", vals), "--network=" + network,
				"--cluster-dir=" + dir, "--fee-recipient-addresses=" + fee, "--withdrawal-addresses=" + withdrawal, "--name=verif"}
			if perValidator {
				args[len(args)-3], args[len(args)-2] = "--fee-recipient-addresses="+strings.Join(feeOf, ","), "--withdrawal-addresses="+strings.Join(wdOf, ",")
			}
			if thr != 0 {
				args = append(args, fmt.Sprintf("--threshold=%d", thr))
			}
			if amounts != nil {
				var as []string
				for _, a := range amounts {
					as = append(as, fmt.Sprint(a))
				}
				args = append(args, "--deposit-amounts="+strings.Join(as, ","))
			}
			if compounding {
				args = append(args, "--compounding")
			}
		}
		root := cmd.New()
		root.SetArgs(args)
		root.SetOut(new(bytes.Buffer))
		root.SetErr(new(bytes.Buffer))
		if err := root.ExecuteContext(context.Background()); err != nil {
			if viaDef {
				// a definition the CLI refuses is not an artifact; nothing to check (counted)
				vstat.Count("definition_refused(no assertion):"+defVersion, 1)
				rt.Skip("definition refused: " + err.Error())
			}
			rt.Fatalf("create cluster %v failed: %v", args, err)
		}
		effThr := thr
		if effThr == 0 {
			effThr = (2*n + 2) / 3
		}
		// every node holds the same lock
		var lockBytes []byte
		for i := 0; i < n; i++ {
			b, err := os.ReadFile(filepath.Join(dir, fmt.Sprintf("node%d", i), "cluster-lock.json"))
			if err != nil {
				rt.Fatalf("node%d has no lock: %v", i, err)
			}
			if lockBytes == nil {
				lockBytes = b
			} else if !bytes.Equal(b, lockBytes) {
				rt.Fatalf("node%d holds a different lock than node0", i)
			}
		}
		var lock cluster.Lock
		if err := json.Unmarshal(lockBytes, &lock); err != nil {
			rt.Fatalf("written lock does not decode: %v", err)
		}
		if err := lock.VerifyHashes(); err != nil {
			rt.Fatalf("written lock fails hash verification: %v", err)
		}
		if err := lock.VerifySignatures(nil); err != nil {
			rt.Fatalf("written lock fails signature verification: %v", err)
		}
		if viaDef {
			if lock.Version != defVersion {
				rt.Fatalf("DEFINITION CHANGED: lock has format version %s, the provided definition %s", lock.Version, defVersion)
			}
			if !bytes.Equal(lock.ConfigHash, providedDef.ConfigHash) {
				rt.Fatalf("DEFINITION CHANGED: the lock's config hash %x is not the config hash %x of the definition it was created from (%s, deposit amounts %v)", lock.ConfigHash, providedDef.ConfigHash, defVersion, amounts)
			}
		}
		if len(lock.Validators) != vals || len(lock.Operators) != n || lock.Threshold != effThr {
			rt.Fatalf("lock has %d validators / %d operators / threshold %d, asked for %d / %d / %d", len(lock.Validators), len(lock.Operators), lock.Threshold, vals, n, effThr)
		}
		fv := mustHex(forkVersions[network])
		if !bytes.Equal(lock.ForkVersion, fv) {
			rt.Fatalf("lock fork version %x, network %s has %x", lock.ForkVersion, network, fv)
		}
		// key shares on disk match the public shares in the lock
		shares := make([][]tbls.PrivateKey, n)
		for i := 0; i < n; i++ {
			files, err := keystore.LoadFilesUnordered(filepath.Join(dir, fmt.Sprintf("node%d", i), "validator_keys"))
			if err != nil {
				rt.Fatalf("node%d keystores: %v", i, err)
			}
			keys, err := files.SequencedKeys()
			if err != nil || len(keys) != vals {
				rt.Fatalf("node%d has %d sequenced keys (%v), want %d", i, len(keys), err, vals)
			}
			shares[i] = keys
			for j, k := range keys {
				pub, err := tbls.SecretToPublicKey(k)
				if err != nil {
					rt.Fatalf("HARNESS-ERROR: %v", err)
				}
				if !bytes.Equal(pub[:], lock.Validators[j].PubShares[i]) {
					rt.Fatalf("KEY SHARE MISMATCH: keystore %d of node %d does not correspond to public share %d of validator %d in the lock", j, i, i, j)
				}
			}
		}
		// recombination of a drawn t-subset
		for j := 0; j < vals; j++ {
			perm := rapid.Permutation(seq(n)).Draw(rt, "subset")
			sub := map[int]tbls.PrivateKey{}
			for _, i := range perm[:effThr] {
				sub[i+1] = shares[i][j]
			}
			sec, err := tbls.RecoverSecret(sub, uint(n), uint(effThr))
			if err != nil {
				rt.Fatalf("recombination failed: %v", err)
			}
			pub, _ := tbls.SecretToPublicKey(sec)
			if !bytes.Equal(pub[:], lock.Validators[j].PubKey) {
				rt.Fatalf("RECOMBINATION: shares %v of validator %d do not recombine to the lock's validator key", perm[:effThr], j)
			}
		}
		// deposit data and builder registrations (spec verification in the harness)
		wantAmounts := map[eth2p0.Gwei]bool{}
		if amounts == nil {
			wantAmounts[32000000000] = true
			if !compounding {
				wantAmounts[1000000000] = true
			}
		}
		for _, a := range amounts {
			wantAmounts[eth2p0.Gwei(a)*1000000000] = true
		}
		credPrefix := byte(1)
		if compounding {
			credPrefix = 2
		}
		credsOf := func(j int) []byte {
			return append(append([]byte{credPrefix}, make([]byte, 11)...), mustHex(wdOf[j])...)
		}
		dd, err := deposit.ReadDepositDataFiles(filepath.Join(dir, "node0"))
		if err != nil {
			rt.Fatalf("deposit data files: %v", err)
		}
		seenAmounts := map[eth2p0.Gwei]int{}
		for _, set := range dd {
			for _, d := range set {
				var val *cluster.DistValidator
				valIdx := -1
				for j := range lock.Validators {
					if bytes.Equal(lock.Validators[j].PubKey, d.PublicKey[:]) {
						val = &lock.Validators[j]
						valIdx = j
					}
				}
				if val == nil {
					rt.Fatalf("DEPOSIT: deposit datum for a key that is not a validator of the lock")
				}
				if wantCreds := credsOf(valIdx); !bytes.Equal(d.WithdrawalCredentials, wantCreds) {
					rt.Fatalf("DEPOSIT: validator %d: withdrawal credentials %x, want %x (its own withdrawal address)", valIdx, d.WithdrawalCredentials, wantCreds)
				}
				seenAmounts[d.Amount]++
				sr := signingRoot(&eth2p0.DepositMessage{PublicKey: d.PublicKey, WithdrawalCredentials: d.WithdrawalCredentials, Amount: d.Amount}, "DOMAIN_DEPOSIT", fv)
				if err := tbls.Verify(tbls.PublicKey(d.PublicKey), sr[:], tbls.Signature(d.Signature)); err != nil {
					rt.Fatalf("DEPOSIT: signature of the %d gwei deposit does not verify under the validator key: %v", d.Amount, err)
				}
			}
		}
		if amounts != nil {
			for a := range wantAmounts {
				if seenAmounts[a] != vals {
					rt.Fatalf("DEPOSIT: %d deposit data for amount %d, want one per validator (%d)", seenAmounts[a], a, vals)
				}
			}
		}
		// the deposit data carried inside the lock: per validator one datum per amount, for that
		// validator's own key, the requested credentials, and a signature valid under that key
		for j, v := range lock.Validators {
			perAmount := map[eth2p0.Gwei]int{}
			for k, pd := range v.PartialDepositData {
				if !bytes.Equal(pd.PubKey, v.PubKey) {
					rt.Fatalf("LOCK DEPOSIT: validator %d partial deposit %d is for key %x, the validator's key is %x", j, k, pd.PubKey[:6], v.PubKey[:6])
				}
				if wantCreds := credsOf(j); !bytes.Equal(pd.WithdrawalCredentials, wantCreds) {
					rt.Fatalf("LOCK DEPOSIT: validator %d partial deposit %d has withdrawal credentials %x, want %x (its own withdrawal address)", j, k, pd.WithdrawalCredentials, wantCreds)
				}
				var pk eth2p0.BLSPubKey
				copy(pk[:], pd.PubKey)
				sr := signingRoot(&eth2p0.DepositMessage{PublicKey: pk, WithdrawalCredentials: pd.WithdrawalCredentials, Amount: eth2p0.Gwei(pd.Amount)}, "DOMAIN_DEPOSIT", fv)
				var sig tbls.Signature
				copy(sig[:], pd.Signature)
				if err := tbls.Verify(tbls.PublicKey(pk), sr[:], sig); err != nil {
					rt.Fatalf("LOCK DEPOSIT: validator %d partial deposit %d (%d gwei): signature does not verify under the validator key: %v", j, k, pd.Amount, err)
				}
				perAmount[eth2p0.Gwei(pd.Amount)]++
			}
			if len(v.PartialDepositData) == 0 && (!viaDef || verNum(defVersion) >= 6) {
				rt.Fatalf("LOCK DEPOSIT: validator %d carries no deposit data in the lock", j)
			}
			if amounts != nil {
				for a := range wantAmounts {
					if perAmount[a] != 1 {
						rt.Fatalf("LOCK DEPOSIT: validator %d has %d deposit data for amount %d in the lock, want 1", j, perAmount[a], a)
					}
				}
			}
		}
		for j, v := range lock.Validators {
			reg := v.BuilderRegistration
			if len(reg.Signature) == 0 {
				continue
			}
			var fr bellatrix.ExecutionAddress
			copy(fr[:], reg.Message.FeeRecipient)
			var pk eth2p0.BLSPubKey
			copy(pk[:], reg.Message.PubKey)
			if !bytes.Equal(reg.Message.PubKey, v.PubKey) {
				rt.Fatalf("REGISTRATION: registration %d is for another key", j)
			}
			if !bytes.Equal(fr[:], mustHex(feeOf[j])) {
				rt.Fatalf("REGISTRATION: validator %d: fee recipient %x, want %s (its own fee recipient address)", j, fr, feeOf[j])
			}
			sr := signingRoot(&eth2v1.ValidatorRegistration{FeeRecipient: fr, GasLimit: uint64(reg.Message.GasLimit), Timestamp: reg.Message.Timestamp, Pubkey: pk}, "DOMAIN_APPLICATION_BUILDER", fv)
			var sig tbls.Signature
			copy(sig[:], reg.Signature)
			if err := tbls.Verify(tbls.PublicKey(pk), sr[:], sig); err != nil {
				rt.Fatalf("REGISTRATION: signature of registration %d does not verify under the validator key: %v", j, err)
			}
		}
		// combine
		out, err := os.MkdirTemp("", "verif-c12-out-")
		if err != nil {
			rt.Fatalf("HARNESS-ERROR: %v", err)
		}
		defer os.RemoveAll(out)
		if err := combine.Combine(context.Background(), dir, out, true, false, "", eth2util.Network{}, combine.WithInsecureKeysForT(t)); err != nil {
			rt.Fatalf("COMBINE: %v", err)
		}
		files, err := keystore.LoadFilesUnordered(out)
		if err != nil {
			rt.Fatalf("COMBINE: output keystores: %v", err)
		}
		got := map[string]bool{}
		for _, k := range files.Keys() {
			pub, _ := tbls.SecretToPublicKey(k)
			got[string(pub[:])] = true
		}
		for j, v := range lock.Validators {
			if !got[string(v.PubKey)] {
				rt.Fatalf("COMBINE: no combined keystore for validator %d", j)
			}
		}
		if len(got) != vals {
			rt.Fatalf("COMBINE: %d distinct combined keys, want %d", len(got), vals)
		}
		// ... and from a drawn subset of the node directories of at least threshold size (what an operator who
		// lost some nodes has): any such subset recombines every validator's key, not only a prefix of the node list
		if effThr < n {
			perm := rapid.Permutation(seq(n)).Draw(rt, "combineSubset")
			size := rapid.IntRange(effThr, n-1).Draw(rt, "combineSubsetSize")
			sub, err := os.MkdirTemp("", "verif-c12-sub-")
			if err != nil {
				rt.Fatalf("HARNESS-ERROR: %v", err)
			}
			defer os.RemoveAll(sub)
			for _, k := range perm[:size] {
				if err := os.CopyFS(filepath.Join(sub, fmt.Sprintf("node%d", k)), os.DirFS(filepath.Join(dir, fmt.Sprintf("node%d", k)))); err != nil {
					rt.Fatalf("HARNESS-ERROR: copy node directory: %v", err)
				}
			}
			out2, err := os.MkdirTemp("", "verif-c12-out2-")
			if err != nil {
				rt.Fatalf("HARNESS-ERROR: %v", err)
			}
			defer os.RemoveAll(out2)
			if err := combine.Combine(context.Background(), sub, out2, true, false, "", eth2util.Network{}, combine.WithInsecureKeysForT(t)); err != nil {
				rt.Fatalf("COMBINE: the directories of nodes %v (threshold %d of %d) do not recombine: %v", perm[:size], effThr, n, err)
			}
			files2, err := keystore.LoadFilesUnordered(out2)
			if err != nil {
				rt.Fatalf("COMBINE: output keystores of the subset: %v", err)
			}
			got2 := map[string]bool{}
			for _, k := range files2.Keys() {
				pub, _ := tbls.SecretToPublicKey(k)
				got2[string(pub[:])] = true
			}
			for j, v := range lock.Validators {
				if !got2[string(v.PubKey)] {
					rt.Fatalf("COMBINE: nodes %v (threshold %d of %d): no combined keystore for validator %d", perm[:size], effThr, n, j)
				}
			}
			vstat.Count("combine_from_strict_subset_of_nodes", 1)
		}
		nontrivial := effThr < n || len(amounts) > 1 || vals > 1
		vstat.Case(fmt.Sprintf("%d/%d/%d/%s/%v/%v/%s", n, thr, vals, network, amounts, compounding, defVersion), nontrivial, "create", "network:"+network, cls("via_definition_file:"+defVersion, viaDef), cls("partial_deposits", len(amounts) > 1), cls("compounding", compounding), cls("custom_threshold", thr != 0))
		if nontrivial && vstat.WantSample("create") {
			vstat.Sample("create", map[string]any{"nodes": n, "threshold": effThr, "validators": vals, "network": network, "deposit_amounts": amounts, "compounding": compounding, "lock_version": lock.Version})
		}
	})
}

func seq(n int) []int {
	out := make([]int, n)
	for i := range out {
		out[i] = i
	}
	return out
}

// ---------------------------------------------------------------- tamper evidence

type leaf struct {
	path   string
	parent any
	key    string
	idx    int
}

func collectLeaves(v any, path string, parent any, key string, idx int, out *[]leaf, arrays *[]leaf) {
	switch t := v.(type) {
	case map[string]any:
		keys := make([]string, 0, len(t))
		for k := range t {
			keys = append(keys, k)
		}
		sort.Strings(keys)
		for _, k := range keys {
			collectLeaves(t[k], path+"."+k, t, k, 0, out, arrays)
		}
	case []any:
		if parent != nil && len(t) > 0 {
			*arrays = append(*arrays, leaf{path, parent, key, idx})
		}
		for i, e := range t {
			collectLeaves(e, fmt.Sprintf("%s[%d]", path, i), t, "", i, out, arrays)
		}
	default:
		if parent != nil {
			*out = append(*out, leaf{path, parent, key, idx})
		}
	}
}

type base struct {
	name string
	doc  []byte
	full bool // signatures verifiable too
}

func isDefinitionDoc(doc []byte) bool {
	var m map[string]json.RawMessage
	if json.Unmarshal(doc, &m) != nil {
		return false
	}
	_, isLock := m["cluster_definition"]
	_, isDef := m["operators"]
	return !isLock && isDef
}

// loaderAccepts runs the document through the lock loader `charon run` uses (cluster.LoadClusterLock with
// verification on).
func loaderAccepts(doc []byte) error {
	f, err := os.CreateTemp("", "verif-c12-lock-*.json")
	if err != nil {
		panic("HARNESS-ERROR: " + err.Error())
	}
	defer os.Remove(f.Name())
	if _, err := f.Write(doc); err != nil {
		panic("HARNESS-ERROR: " + err.Error())
	}
	f.Close()
	_, err = cluster.LoadClusterLock(context.Background(), f.Name(), false, nil)
	return err
}

// verifyLock returns nil if the document is accepted as valid by some verification route: the Verify
// methods called directly and, for a fully verifiable lock, the loader. An altered document must be refused by
// every route.
func verifyLock(doc []byte, full bool) error {
	err := verifyDirect(doc, full)
	if err != nil && full && !isDefinitionDoc(doc) {
		if lerr := loaderAccepts(doc); lerr == nil {
			return nil // the loader lets through what the Verify methods refuse
		}
	}
	return err
}

// verifyAllRoutes: an unaltered base must be accepted by every route.
func verifyAllRoutes(doc []byte, full bool) error {
	if err := verifyDirect(doc, full); err != nil {
		return err
	}
	if full && !isDefinitionDoc(doc) {
		if err := loaderAccepts(doc); err != nil {
			return fmt.Errorf("loader: %w", err)
		}
	}
	return nil
}

// verifyDirect decodes and verifies a lock, or a definition file when the document is one.
func verifyDirect(doc []byte, full bool) error {
	if isDefinitionDoc(doc) {
		var def cluster.Definition
		if err := json.Unmarshal(doc, &def); err != nil {
			return fmt.Errorf("unmarshal: %w", err)
		}
		if err := def.VerifyHashes(); err != nil {
			return fmt.Errorf("hashes: %w", err)
		}
		if full {
			if err := def.VerifySignatures(nil); err != nil {
				return fmt.Errorf("signatures: %w", err)
			}
		}
		return nil
	}
	var lock cluster.Lock
	if err := json.Unmarshal(doc, &lock); err != nil {
		return fmt.Errorf("unmarshal: %w", err)
	}
	if err := lock.VerifyHashes(); err != nil {
		return fmt.Errorf("hashes: %w", err)
	}
	if full {
		if err := lock.VerifySignatures(nil); err != nil {
			return fmt.Errorf("signatures: %w", err)
		}
	}
	return nil
}

var basesCache []base

func repoRoot() string {
	if r := os.Getenv("VERIF_REPO"); r != "" {
		return r
	}
	return "/repo"
}

func bases(t *testing.T) []base {
	if basesCache != nil {
		return basesCache
	}
	var out []base
	for _, f := range []string{"cluster-lock-000.json", "cluster-lock-001.json", "cluster-lock-002.json", "cluster-lock-003.json"} {
		b, err := os.ReadFile(filepath.Join(repoRoot(), "cluster/examples", f))
		if err != nil {
			t.Fatalf("HARNESS-ERROR: %v", err)
		}
		out = append(out, base{"examples/" + f, b, true})
	}
	files, _ := filepath.Glob(filepath.Join(repoRoot(), "cluster/testdata/cluster_lock_*.json"))
	sort.Strings(files)
	for _, f := range files {
		b, _ := os.ReadFile(f)
		out = append(out, base{"golden/" + filepath.Base(f), b, false})
	}
	for _, v := range []string{"v1.10.0", "v1.11.0"} {
		for _, shape := range [][3]int{{1, 3, 4}, {2, 2, 3}, {3, 4, 6}} {
			lock, _, _ := cluster.NewForT(t, shape[0], shape[1], shape[2], 7+shape[0], rand.New(rand.NewSource(int64(7+shape[0]))), cluster.WithVersion(v))
			b, err := json.Marshal(lock)
			if err != nil {
				t.Fatalf("HARNESS-ERROR: %v", err)
			}
			out = append(out, base{fmt.Sprintf("NewForT/%s/%dv-%dof%d", v, shape[0], shape[1], shape[2]), b, true})
		}
	}
	// harness-assembled locks of every format version (full verification)
	shapes := [][3]int{{2, 3, 4}}
	if vstat.Thorough() {
		shapes = [][3]int{{1, 2, 3}, {2, 3, 4}, {3, 4, 6}, {1, 7, 10}}
	}
	for _, v := range allVersions {
		for i, sh := range shapes {
			out = append(out, assembledBase(t, shape{version: v, dv: sh[0], k: sh[1], n: sh[2], seed: 11 + i, amountsEth: [][]int{{8, 24}, {32}, {1, 2, 29}, nil}[i%4], compound: i%2 == 0, consensus: []string{"", "qbft"}[i%2]}))
		}
	}
	// ... and, for the versions that carry builder registrations, one whose first validator's fee recipient address
	// ends in a zero byte (a value that keeps its padded hash when trailing zero bytes are cut off): the seed of
	// the repository's own generator is searched for it
	zeroTailSeed := 0
	for sd := 1; sd < 40000 && zeroTailSeed == 0; sd++ {
		if b := (sd + 1) % 256; b == 0 || b >= 250 {
			continue // operator keys seed..seed+n-1: the repository's deterministic key generator spins on the bytes 0x00 / 0xff
		}
		if strings.HasSuffix(testutil.RandomETHAddressSeed(rand.New(rand.NewSource(int64(sd)))), "00") {
			zeroTailSeed = sd
		}
	}
	if zeroTailSeed == 0 {
		t.Fatalf("HARNESS-ERROR: no generator seed gives a fee recipient ending in a zero byte")
	}
	for _, v := range allVersions {
		if verNum(v) >= 7 {
			out = append(out, assembledBase(t, shape{version: v, dv: 1, k: 2, n: 3, seed: zeroTailSeed, amountsEth: []int{32}}))
		}
	}
	// v1.11 locks whose creator / operator signatures are Safe multisig signatures (several concatenated
	// 65 byte signatures): they cannot be verified without an execution client, so hash verification only
	for i, cnt := range []int{2, 3, 5} {
		out = append(out, multisigBase(t, shape{version: "v1.11.0", dv: 1, k: 2, n: 3, seed: 31 + i, amountsEth: []int{32}}, cnt))
	}
	// the definitions embedded in the full bases, as definition files of their own
	for _, b := range out {
		if !b.full {
			continue
		}
		var doc map[string]json.RawMessage
		if err := json.Unmarshal(b.doc, &doc); err != nil || doc["cluster_definition"] == nil {
			t.Fatalf("HARNESS-ERROR: %s has no cluster_definition", b.name)
		}
		out = append(out, base{"definition-of/" + b.name, doc["cluster_definition"], true})
	}
	for _, b := range out {
		if err := verifyAllRoutes(b.doc, b.full); err != nil {
			if strings.HasPrefix(b.name, "NewForT") || strings.Contains(b.name, "assembled/") {
				t.Fatalf("HARNESS-ERROR: base %s does not verify unaltered: %v", b.name, err)
			}
			// a committed, valid artifact of a supported format version stopped verifying: its hashes
			// (or signature rules) are no longer what the format defines
			t.Fatalf("COMMITTED LOCK NO LONGER VERIFIES: %s (unaltered) fails verification: %v", b.name, err)
		}
	}
	basesCache = out
	return out
}

// outside the hashed / signed declaration
var unhashed = regexp.MustCompile(`\.nonce$`)
var signatureOnly = regexp.MustCompile(`^\.(signature_aggregate|node_signatures)`)

func alterScalar(cur any, kind string, pos int) (any, bool) {
	if kind == "empty" {
		switch v := cur.(type) {
		case string:
			if v == "" || v == "0x" {
				return nil, false
			}
			if strings.HasPrefix(v, "0x") && pos%2 == 1 {
				return "0x", true
			}
			return "", true
		case json.Number:
			if string(v) == "0" {
				return nil, false
			}
			return json.Number("0"), true
		}
		return nil, false
	}
	if kind == "shorten" { // the value made shorter: the last byte / digit cut off (also when it is a zero)
		switch v := cur.(type) {
		case string:
			if strings.HasPrefix(v, "0x") {
				if len(v) < 6 {
					return nil, false
				}
				return v[:len(v)-2], true
			}
			if len(v) < 2 {
				return nil, false
			}
			return v[:len(v)-1], true
		case json.Number:
			if len(string(v)) < 2 {
				return nil, false
			}
			return json.Number(string(v)[:len(string(v))-1]), true
		}
		return nil, false
	}
	if kind == "extend" { // the value made longer: trailing bytes / digits appended
		switch v := cur.(type) {
		case string:
			if strings.HasPrefix(v, "0x") {
				return v + []string{"00", "ab", "0000"}[pos%3], true
			}
			if _, err := base64.StdEncoding.DecodeString(v); err == nil && len(v) >= 8 && len(v)%4 == 0 && !strings.ContainsAny(v, "-:. ") {
				return v + "AAAA", true
			}
			return v + "0", true
		case json.Number:
			return json.Number(string(v) + "0"), true
		}
		return nil, false
	}
	switch v := cur.(type) {
	case string:
		if v == "" {
			return "x", true
		}
		b := []byte(v)
		p := pos % len(b)
		if strings.HasPrefix(v, "0x") && len(v) > 2 {
			p = 2 + pos%(len(b)-2)
			c := b[p]
			switch {
			case c >= '0' && c <= '8', c >= 'a' && c <= 'e', c >= 'A' && c <= 'E':
				b[p] = c + 1
			case c == '9':
				b[p] = 'a'
			default:
				b[p] = '0'
			}
			return string(b), true
		}
		if kind == "plus1" {
			if b[p] >= '0' && b[p] <= '8' {
				b[p]++
			} else if b[p] == '9' {
				b[p] = '0'
			} else {
				b[p] ^= 1
			}
		} else {
			b[p] ^= 2
		}
		return string(b), string(b) != v
	case json.Number:
		var n int64
		fmt.Sscan(string(v), &n)
		if kind == "plus1" {
			return json.Number(fmt.Sprint(n + 1)), true
		}
		return json.Number(fmt.Sprint(n ^ 2)), true
	case bool:
		return !v, true
	}
	return nil, false
}

func legacyNoAggregate(root any) bool {
	m, _ := root.(map[string]any)
	def, _ := m["cluster_definition"].(map[string]any)
	v, _ := def["version"].(string)
	return v == "v1.0.0" || v == "v1.1.0"
}

func TestC12Tamper(t *testing.T) {
	vstat.Rule("C12", ruleTamper)
	bs := bases(t)
	exhaustive := vstat.Thorough()
	check := func(fail func(string, ...any), b base, path, kind string, pos int, arrayOp bool) (asserted bool, skipped bool) {
		dec := json.NewDecoder(bytes.NewReader(b.doc))
		dec.UseNumber()
		var root any
		if err := dec.Decode(&root); err != nil {
			fail("HARNESS-ERROR: %v", err)
		}
		var ls, arrs []leaf
		collectLeaves(root, "", nil, "", 0, &ls, &arrs)
		pool := ls
		if arrayOp {
			pool = arrs
		}
		var target *leaf
		for i := range pool {
			if pool[i].path == path {
				target = &pool[i]
			}
		}
		if target == nil {
			return false, true
		}
		get := func() any {
			if m, ok := target.parent.(map[string]any); ok {
				return m[target.key]
			}
			return target.parent.([]any)[target.idx]
		}
		set := func(v any) {
			if m, ok := target.parent.(map[string]any); ok {
				m[target.key] = v
			} else {
				target.parent.([]any)[target.idx] = v
			}
		}
		if arrayOp {
			arr := get().([]any)
			var na []any
			switch kind {
			case "remove":
				i := pos % len(arr)
				na = append(append(na, arr[:i]...), arr[i+1:]...)
			case "duplicate":
				i := pos % len(arr)
				na = append(append(append(na, arr[:i+1]...), arr[i]), arr[i+1:]...)
			default: // swap
				if len(arr) < 2 {
					return false, true
				}
				i := pos % (len(arr) - 1)
				na = append(na, arr...)
				na[i], na[i+1] = na[i+1], na[i]
				if fmt.Sprint(na[i]) == fmt.Sprint(na[i+1]) {
					return false, true
				}
			}
			set(na)
		} else if kind == "removeKey" {
			m, ok := target.parent.(map[string]any)
			if !ok {
				return false, true
			}
			switch v := m[target.key].(type) { // removing a zero value changes nothing
			case nil:
				return false, true
			case string:
				if v == "" || v == "0x" || v == "0" { // "0": integers carried as strings (amount)
					return false, true
				}
			case json.Number:
				if string(v) == "0" {
					return false, true
				}
			case bool:
				if !v {
					return false, true
				}
			}
			delete(m, target.key)
		} else {
			nv, ok := alterScalar(get(), kind, pos)
			if !ok {
				return false, true
			}
			set(nv)
		}
		if unhashed.MatchString(path) || (!b.full && signatureOnly.MatchString(path)) {
			return false, false
		}
		if (kind == "extend" || kind == "shorten") && !b.full {
			// zero bytes appended to a fixed-size value are refused by the length checks of signature
			// verification (keys, signatures), which a hash-only base cannot run: full bases only
			vstat.Count("extend_on_hash_only_base(no assertion)", 1)
			return false, false
		}
		if (kind == "empty" || kind == "removeKey") && path == ".signature_aggregate" && legacyNoAggregate(root) {
			// declared tolerance of the format: v1.0 / v1.1 locks were written without an aggregate
			// signature and verify without one
			return false, false
		}
		doc, err := json.Marshal(root)
		if err != nil {
			fail("HARNESS-ERROR: %v", err)
		}
		if err := verifyLock(doc, b.full); err == nil {
			// An alteration of the text that decodes to the identical value (unused trailing bits of a
			// base64 string, letter case of hex digits) changes no field.
			var l0, l1 cluster.Lock
			var d0, d1 cluster.Definition
			same := false
			if isDefinitionDoc(b.doc) {
				same = json.Unmarshal(b.doc, &d0) == nil && json.Unmarshal(doc, &d1) == nil && reflect.DeepEqual(d0, d1)
			} else {
				same = json.Unmarshal(b.doc, &l0) == nil && json.Unmarshal(doc, &l1) == nil && reflect.DeepEqual(l0, l1)
			}
			if same {
				vstat.Count("alteration_decodes_to_same_value(no assertion)", 1)
				return false, false
			}
			fail("TAMPERING UNDETECTED: %s: %s altered (%s) and the lock still decodes and verifies (hashes%s)", b.name, path, kind, map[bool]string{true: " and signatures", false: ""}[b.full])
		}
		return true, false
	}
	{
		// every leaf x every alteration of every base (quick tier: of the multisig bases and of one
		// assembled lock per format version, which are the shapes no committed file has)
		for bi, b := range bs {
			if !exhaustive && !(strings.HasPrefix(b.name, "multisig2") || (strings.HasPrefix(b.name, "assembled/") && bi%3 == int(vstat.Seed()%3))) {
				continue
			}
			dec := json.NewDecoder(bytes.NewReader(b.doc))
			dec.UseNumber()
			var root any
			_ = dec.Decode(&root)
			var ls, arrs []leaf
			collectLeaves(root, "", nil, "", 0, &ls, &arrs)
			for _, l := range ls {
				for _, kind := range []string{"plus1", "flip", "empty", "removeKey", "extend", "shorten"} {
					for _, pos := range []int{0, 3, 17, 141, 300, 1<<20 - 1} {
						if (kind == "empty" && pos > 3) || (kind == "removeKey" && pos > 0) || (kind == "extend" && pos > 17) || (kind == "shorten" && pos > 0) {
							continue
						}
						if a, _ := check(func(f string, a ...any) { t.Fatalf(f, a...) }, b, l.path, kind, pos, false); a {
							vstat.Case(fmt.Sprintf("%s|%s|%s|%d", b.name, l.path, kind, pos), true, "tamper_leaf", "base:"+b.name)
						}
					}
				}
			}
			for _, l := range arrs {
				for _, kind := range []string{"remove", "duplicate", "swap"} {
					for _, pos := range []int{0, 1} {
						if a, _ := check(func(f string, a ...any) { t.Fatalf(f, a...) }, b, l.path, kind, pos, true); a {
							vstat.Case(fmt.Sprintf("%s|%s|%s|%d", b.name, l.path, kind, pos), true, "tamper_array", "base:"+b.name)
						}
					}
				}
			}
		}
		if exhaustive {
			vstat.Exhaustive()
		}
	}
	rapid.Check(t, func(rt *rapid.T) {
		b := bs[rapid.IntRange(0, len(bs)-1).Draw(rt, "base")]
		dec := json.NewDecoder(bytes.NewReader(b.doc))
		dec.UseNumber()
		var root any
		_ = dec.Decode(&root)
		var ls, arrs []leaf
		collectLeaves(root, "", nil, "", 0, &ls, &arrs)
		arrayOp := len(arrs) > 0 && rapid.IntRange(0, 4).Draw(rt, "arrayOp") == 0
		var path, kind string
		if arrayOp {
			path = arrs[rapid.IntRange(0, len(arrs)-1).Draw(rt, "array")].path
			kind = rapid.SampledFrom([]string{"remove", "duplicate", "swap"}).Draw(rt, "arrayKind")
		} else {
			path = ls[rapid.IntRange(0, len(ls)-1).Draw(rt, "leaf")].path
			kind = rapid.SampledFrom([]string{"plus1", "flip", "plus1", "flip", "empty", "removeKey", "extend", "shorten"}).Draw(rt, "kind")
		}
		pos := rapid.IntRange(0, 2000).Draw(rt, "pos")
		asserted, skipped := check(func(f string, a ...any) { rt.Fatalf(f, a...) }, b, path, kind, pos, arrayOp)
		if skipped {
			rt.Skip("alteration not applicable")
		}
		vstat.Case(fmt.Sprintf("%s|%s|%s|%d", b.name, path, kind, pos), asserted, cls("tamper_asserted", asserted), cls("outside_declaration(no assertion)", !asserted), "base:"+b.name)
		if asserted && vstat.WantSample("tamper:"+kind) {
			vstat.Sample("tamper:"+kind, map[string]any{"base": b.name, "path": path, "alteration": kind, "full_verification": b.full})
		}
	})
}

// TestC12ReEncode: decoding then re-encoding a definition or lock never changes its hashes.
func TestC12ReEncode(t *testing.T) {
	vstat.Rule("C12", "re-encode: every committed definition and lock (examples and per-version golden files) and the generated locks: unmarshal -> marshal -> unmarshal leaves config / definition / lock hashes and VerifyHashes unchanged")
	for _, b := range bases(t) {
		if isDefinitionDoc(b.doc) {
			var d1, d2 cluster.Definition
			if err := json.Unmarshal(b.doc, &d1); err != nil {
				t.Fatalf("HARNESS-ERROR: %v", err)
			}
			enc, err := json.Marshal(d1)
			if err != nil {
				t.Fatalf("RE-ENCODE: %s does not marshal: %v", b.name, err)
			}
			if err := json.Unmarshal(enc, &d2); err != nil {
				t.Fatalf("RE-ENCODE: %s re-encoded form does not decode: %v", b.name, err)
			}
			if !bytes.Equal(d1.DefinitionHash, d2.DefinitionHash) || !bytes.Equal(d1.ConfigHash, d2.ConfigHash) || d2.VerifyHashes() != nil {
				t.Fatalf("RE-ENCODE: %s: hashes changed by decode / encode", b.name)
			}
			vstat.Case("reencode/"+b.name, true, "reencode_definition")
			continue
		}
		var l1, l2 cluster.Lock
		if err := json.Unmarshal(b.doc, &l1); err != nil {
			t.Fatalf("HARNESS-ERROR: %v", err)
		}
		enc, err := json.Marshal(l1)
		if err != nil {
			t.Fatalf("RE-ENCODE: %s does not marshal: %v", b.name, err)
		}
		if err := json.Unmarshal(enc, &l2); err != nil {
			t.Fatalf("RE-ENCODE: %s re-encoded form does not decode: %v", b.name, err)
		}
		if !bytes.Equal(l1.LockHash, l2.LockHash) || !bytes.Equal(l1.DefinitionHash, l2.DefinitionHash) || !bytes.Equal(l1.ConfigHash, l2.ConfigHash) {
			t.Fatalf("RE-ENCODE: %s: hashes changed by decode / encode", b.name)
		}
		if err := l2.VerifyHashes(); err != nil {
			t.Fatalf("RE-ENCODE: %s: re-encoded lock fails hash verification: %v", b.name, err)
		}
		vstat.Case("reencode/"+b.name, true, "reencode_lock")
	}
	defs, _ := filepath.Glob(filepath.Join(repoRoot(), "cluster/testdata/cluster_definition_*.json"))
	ex, _ := filepath.Glob(filepath.Join(repoRoot(), "cluster/examples/cluster-definition-*.json"))
	for _, f := range append(defs, ex...) {
		doc, _ := os.ReadFile(f)
		var d1, d2 cluster.Definition
		if err := json.Unmarshal(doc, &d1); err != nil {
			t.Fatalf("HARNESS-ERROR: %s: %v", f, err)
		}
		if err := d1.VerifyHashes(); err != nil {
			t.Fatalf("HARNESS-ERROR: committed definition %s fails hash verification: %v", f, err)
		}
		enc, err := json.Marshal(d1)
		if err != nil {
			t.Fatalf("RE-ENCODE: %s does not marshal: %v", f, err)
		}
		if err := json.Unmarshal(enc, &d2); err != nil {
			t.Fatalf("RE-ENCODE: %s re-encoded form does not decode: %v", f, err)
		}
		if !bytes.Equal(d1.DefinitionHash, d2.DefinitionHash) || !bytes.Equal(d1.ConfigHash, d2.ConfigHash) || d2.VerifyHashes() != nil {
			t.Fatalf("RE-ENCODE: %s: hashes changed by decode / encode", f)
		}
		vstat.Case("reencode/"+filepath.Base(f), true, "reencode_definition")
	}
}

func cls(name string, on bool) string {
	if on {
		return name
	}
	return ""
}
