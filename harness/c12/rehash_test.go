// C12 — a signed configuration field is changed and the hashes are recomputed honestly (no key is needed
// for that). The operators' (and the creator's) signatures are over the configuration hash, so the changed
// definition must no longer pass signature verification. A mutation that is only followed by verification is
// caught by the hash comparison alone; this one is caught by the signatures alone.
package c12

import (
	"encoding/json"
	"fmt"
	"strings"
	"testing"

	eth2p0 "github.com/attestantio/go-eth2-client/spec/phase0"
	"pgregory.net/rapid"

	"github.com/obolnetwork/charon/cluster"

	"verifharness/vstat"
)

// configAlterations: one change per field that the struct tags of cluster.Definition declare as part of the
// configuration hash (config_hash tag other than "-"). Each returns false when it does not apply.
var configAlterations = map[string]func(d *cluster.Definition) bool{
	"name":      func(d *cluster.Definition) bool { d.Name += "x"; return true },
	"uuid":      func(d *cluster.Definition) bool { d.UUID += "0"; return true },
	"timestamp": func(d *cluster.Definition) bool { d.Timestamp += " "; return true },
	"dkg_algorithm": func(d *cluster.Definition) bool {
		d.DKGAlgorithm = map[string]string{"default": "frost", "frost": "keycast", "keycast": "frost"}[d.DKGAlgorithm]
		if d.DKGAlgorithm == "" {
			d.DKGAlgorithm = "frost"
		}
		return true
	},
	"fork_version": func(d *cluster.Definition) bool {
		if len(d.ForkVersion) != 4 {
			return false
		}
		d.ForkVersion = append([]byte{}, d.ForkVersion...)
		d.ForkVersion[3] ^= 1
		return true
	},
	"deposit_amounts": func(d *cluster.Definition) bool {
		if len(d.DepositAmounts) < 2 {
			return false
		}
		a := append([]eth2p0.Gwei{}, d.DepositAmounts...)
		a[0], a[1] = a[0]+1000000000, a[1]-1000000000 // same total, other split
		d.DepositAmounts = a
		return true
	},
	"consensus_protocol": func(d *cluster.Definition) bool {
		if d.ConsensusProtocol == "" {
			return false
		}
		d.ConsensusProtocol += "x"
		return true
	},
	"target_gas_limit": func(d *cluster.Definition) bool {
		if d.TargetGasLimit == 0 {
			return false
		}
		d.TargetGasLimit++
		return true
	},
	"compounding": func(d *cluster.Definition) bool { d.Compounding = !d.Compounding; return true },
	"validators.fee_recipient_address": func(d *cluster.Definition) bool {
		if len(d.ValidatorAddresses) == 0 {
			return false
		}
		va := append([]cluster.ValidatorAddresses{}, d.ValidatorAddresses...)
		va[0].FeeRecipientAddress = flipAddress(va[0].FeeRecipientAddress)
		d.ValidatorAddresses = va
		return true
	},
	"validators.withdrawal_address": func(d *cluster.Definition) bool {
		if len(d.ValidatorAddresses) == 0 {
			return false
		}
		va := append([]cluster.ValidatorAddresses{}, d.ValidatorAddresses...)
		va[len(va)-1].WithdrawalAddress = flipAddress(va[len(va)-1].WithdrawalAddress)
		d.ValidatorAddresses = va
		return true
	},
	"operators.address": func(d *cluster.Definition) bool {
		if len(d.Operators) == 0 || d.Operators[0].Address == "" {
			return false
		}
		ops := append([]cluster.Operator{}, d.Operators...)
		ops[len(ops)-1].Address = flipAddress(ops[len(ops)-1].Address)
		d.Operators = ops
		return true
	},
}

func flipAddress(a string) string {
	if len(a) < 3 {
		return a
	}
	last := a[len(a)-1]
	repl := byte('1')
	if last == '1' {
		repl = '2'
	}
	return a[:len(a)-1] + string(repl)
}

func signedDefinitionBases(t *testing.T) []base {
	var out []base
	for _, b := range bases(t) {
		if !b.full || !isDefinitionDoc(b.doc) {
			continue
		}
		var def cluster.Definition
		if json.Unmarshal(b.doc, &def) != nil {
			continue
		}
		signed := false
		for _, op := range def.Operators {
			if len(op.ConfigSignature) > 0 {
				signed = true
			}
		}
		if signed {
			out = append(out, b)
		}
	}
	return out
}

func TestC12ConfigRehash(t *testing.T) {
	vstat.Rule("C12", "re-hash: a definition file that its operators signed (every format version that has such signatures); one field that the struct tags declare part of the configuration hash is changed and both hashes are recomputed with the exported SetDefinitionHashes; the result must be refused (the signatures are over the old configuration hash); a change that does not show in the re-encoded file (field not carried by that version) asserts nothing; non-trivial = every case; distinct by (base, field)")
	defs := signedDefinitionBases(t)
	if len(defs) == 0 {
		t.Fatalf("HARNESS-ERROR: no operator-signed definition among the bases")
	}
	var fields []string
	for f := range configAlterations {
		fields = append(fields, f)
	}
	sortStrings(fields)
	rapid.Check(t, func(rt *rapid.T) {
		b := defs[rapid.IntRange(0, len(defs)-1).Draw(rt, "base")]
		field := fields[rapid.IntRange(0, len(fields)-1).Draw(rt, "field")]
		var def cluster.Definition
		if err := json.Unmarshal(b.doc, &def); err != nil {
			rt.Fatalf("HARNESS-ERROR: %v", err)
		}
		if !configAlterations[field](&def) {
			rt.Skip("field does not apply to this definition")
		}
		rehashed, err := def.SetDefinitionHashes()
		if err != nil {
			vstat.Case(fmt.Sprintf("rehash/%s/%s", b.name, field), true, "rehash_refused_at_hashing")
			return
		}
		doc, err := json.Marshal(rehashed)
		if err != nil {
			vstat.Case(fmt.Sprintf("rehash/%s/%s", b.name, field), true, "rehash_refused_at_encoding")
			return
		}
		if sameButHashes(doc, b.doc) {
			rt.Skip("this format version does not carry the field")
		}
		if err := verifyDirect(doc, true); err == nil {
			rt.Fatalf("UNDETECTED: %s: %s changed and the hashes recomputed: the definition still passes hash and signature verification although its operators signed another configuration", b.name, field)
		}
		vstat.Case(fmt.Sprintf("rehash/%s/%s", b.name, field), true, "rehash:"+field, "rehash_version:"+def.Version)
	})
}

func sameButHashes(a, b []byte) bool {
	norm := func(x []byte) string {
		var m map[string]any
		if json.Unmarshal(x, &m) != nil {
			return string(x)
		}
		delete(m, "config_hash")
		delete(m, "definition_hash")
		out, _ := json.Marshal(m)
		return string(out)
	}
	return norm(a) == norm(b)
}

func sortStrings(s []string) {
	for i := range s {
		for j := i + 1; j < len(s); j++ {
			if strings.Compare(s[j], s[i]) < 0 {
				s[i], s[j] = s[j], s[i]
			}
		}
	}
}
