// Plain regression checks for C12 (no generator): shrunk failures found earlier, replayed directly.
package c12

import (
	"encoding/json"
	"math/rand"
	"strings"
	"testing"

	"github.com/obolnetwork/charon/cluster"

	"verifharness/vstat"
)

// TestC12Regression: (1) fixed 5d2205d: a builder registration fee recipient extended by zero bytes (or with a
// trailing zero byte removed) kept the lock hash. (2) seed C12-10: a node signature altered only in its last
// (recovery) byte passed verification.
func TestC12Regression(t *testing.T) {
	vstat.Rule("C12", ruleTamper)
	for _, v := range []string{"v1.10.0", "v1.11.0"} {
		lock, _, _ := cluster.NewForT(t, 2, 3, 4, 5, rand.New(rand.NewSource(5)), cluster.WithVersion(v))
		doc, err := json.Marshal(lock)
		if err != nil {
			t.Fatalf("HARNESS-ERROR: %v", err)
		}
		if err := verifyAllRoutes(doc, true); err != nil {
			t.Fatalf("HARNESS-ERROR: unaltered %s lock does not verify: %v", v, err)
		}
		var root map[string]any
		if err := json.Unmarshal(doc, &root); err != nil {
			t.Fatalf("HARNESS-ERROR: %v", err)
		}
		alter := func(name string, f func(m map[string]any) bool) {
			var m map[string]any
			_ = json.Unmarshal(doc, &m)
			if !f(m) {
				t.Fatalf("HARNESS-ERROR: %s: field not found in a %s lock", name, v)
			}
			b, _ := json.Marshal(m)
			if err := verifyLock(b, true); err == nil {
				t.Fatalf("UNDETECTED: %s lock with %s passes decoding, hash and signature verification", v, name)
			}
		}
		alter("builder_registration.message.fee_recipient extended by a zero byte", func(m map[string]any) bool {
			vals, _ := m["distributed_validators"].([]any)
			if len(vals) == 0 {
				return false
			}
			reg, _ := vals[0].(map[string]any)["builder_registration"].(map[string]any)
			msg, _ := reg["message"].(map[string]any)
			fr, ok := msg["fee_recipient"].(string)
			if !ok {
				return false
			}
			msg["fee_recipient"] = fr + "00"
			return true
		})
		alter("the last byte of a node signature changed", func(m map[string]any) bool {
			sigs, _ := m["node_signatures"].([]any)
			if len(sigs) == 0 {
				return false
			}
			s, ok := sigs[0].(string)
			if !ok || len(s) < 4 {
				return false
			}
			last := s[len(s)-2:]
			repl := "02"
			if strings.EqualFold(last, "02") {
				repl = "03"
			}
			sigs[0] = s[:len(s)-2] + repl
			return true
		})
	}
	vstat.Case("regression-c12", true, "regression")
}
