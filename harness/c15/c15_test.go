// C15 — the scheduler triggers every resolved duty exactly once, not before its time.
//
// Production scheduler.New (real clock and delay function => the bubble's virtual time) over the
// scripted beacon node with the production DutiesCache wired as in app.go.
package c15

import (
	"context"
	"fmt"
	"os"
	"sort"
	"strings"
	"sync"
	"testing"
	"testing/synctest"
	"time"

	eth2v1 "github.com/attestantio/go-eth2-client/api/v1"
	eth2p0 "github.com/attestantio/go-eth2-client/spec/phase0"
	"pgregory.net/rapid"

	"github.com/obolnetwork/charon/app/eth2wrap"
	"github.com/obolnetwork/charon/app/featureset"
	"github.com/obolnetwork/charon/core"
	"github.com/obolnetwork/charon/core/scheduler"

	"verifharness/fakebn"
	"verifharness/vstat"
)

func TestMain(m *testing.M) { vstat.Main(m) }

const rule = "slots-per-epoch 4 or 8, 3-5 epochs, 1-5 cluster validators plus foreign ones; per-validator activation / exit epochs, one attester slot per active validator and epoch, proposer assignments of any slot to any validator (several per validator, also foreign), sync-committee membership per epoch; start anywhere inside an epoch; per-endpoint failure scripts; beacon calls that take several slots of virtual time (missed ticks); " +
	"oracle over the recorded (duty, definition set, virtual time) subscriber calls: no duty twice, every definition is the beacon node's assignment of that slot to an active cluster validator, trigger time >= slot start + type offset (1/3, 2/3, 0), and for every ticked slot that began after its epoch was resolved the triggered sets equal the model exactly; " +
	"separate runs with the opt-in scheduler features fetch_att_on_block(_with_delay), disable_duties_cache and sse_reorg_duties (reorg events at drawn times; such runs assert only the never-wrong clauses); " +
	"non-trivial = (>=1 failed resolution or >=1 skipped slot or >=1 activation/exit) and >=1 epoch boundary; distinct by (configuration, failure script, trigger trace)"

func pubkeyOf(i eth2p0.ValidatorIndex) eth2p0.BLSPubKey {
	var p eth2p0.BLSPubKey
	p[0], p[1], p[47] = 0x80|byte(i), byte(i>>8), 1
	return p
}

type trig struct {
	duty core.Duty
	defs core.DutyDefinitionSet
	at   time.Time
}

func TestC15Scheduler(t *testing.T) {
	vstat.Rule("C15", rule)
	vstat.Assume("an epoch counts as resolved when its last duty-resolution call (sync duties) first succeeded before the slot began, or when the scheduler itself reports the epoch as resolved (GetDutyDefinition) one second before the slot begins; other slots assert only the never-wrong clauses")
	// optional, opt-in scheduler features (one set per process; the default run has none)
	features = nil
	for _, f := range strings.Split(os.Getenv("VERIF_C15_FEATURES"), ",") {
		if f = strings.TrimSpace(f); f != "" {
			featureset.EnableForT(t, featureset.Feature(f))
			features = append(features, f)
		}
	}
	rapid.Check(t, func(rt *rapid.T) {
		rapid.SyncTest(rt, func(rt *rapid.T) { runCase(rt) })
	})
}

var features []string

func featureOn(name string) bool {
	for _, f := range features {
		if f == name {
			return true
		}
	}
	return false
}

func runCase(rt *rapid.T) {
	spe := uint64(rapid.SampledFrom([]int{4, 8}).Draw(rt, "spe"))
	nEpochs := rapid.IntRange(3, 5).Draw(rt, "epochs")
	// slot durations: mainnet's 12 s, and durations whose nanosecond count is not divisible by three (the duty
	// offsets are thirds of a slot)
	slotDur := time.Duration(rapid.SampledFrom([]int{12, 12, 12, 5, 2}).Draw(rt, "slotSeconds")) * time.Second
	startSlot := uint64(rapid.IntRange(0, int(spe)).Draw(rt, "startSlot"))
	genesis := time.Now().Add(-time.Duration(startSlot)*slotDur - time.Duration(rapid.IntRange(0, int(slotDur/time.Millisecond)-1000).Draw(rt, "intoSlotMs"))*time.Millisecond)
	bn := fakebn.NewCompact(genesis, slotDur, spe)
	nCluster := rapid.IntRange(1, 5).Draw(rt, "clusterVals")
	nForeign := rapid.IntRange(0, 3).Draw(rt, "foreignVals")
	infos := map[eth2p0.ValidatorIndex]fakebn.ValInfo{}
	var cluster, everyone []eth2p0.ValidatorIndex
	lifecycle := false
	for i := 0; i < nCluster; i++ {
		idx := eth2p0.ValidatorIndex(20 + i)
		info := fakebn.ValInfo{PubKey: pubkeyOf(idx), ActivationEpoch: 0, ExitEpoch: 1 << 40}
		switch rapid.IntRange(0, 5).Draw(rt, "lifecycle") {
		case 0:
			info.ActivationEpoch = eth2p0.Epoch(rapid.IntRange(1, nEpochs).Draw(rt, "activation"))
			lifecycle = true
		case 1:
			info.ExitEpoch = eth2p0.Epoch(rapid.IntRange(1, nEpochs).Draw(rt, "exit"))
			lifecycle = true
		}
		infos[idx] = info
		cluster = append(cluster, idx)
		everyone = append(everyone, idx)
	}
	for i := 0; i < nForeign; i++ {
		everyone = append(everyone, eth2p0.ValidatorIndex(70+i))
	}
	activeIn := func(v eth2p0.ValidatorIndex, e eth2p0.Epoch) bool {
		info, ok := infos[v]
		return ok && info.ActivationEpoch <= e && e < info.ExitEpoch
	}
	anyActive := false
	for _, v := range cluster {
		if activeIn(v, 0) {
			anyActive = true
		}
	}
	if !anyActive { // keep one validator active throughout (an empty cluster resolves without beacon calls)
		info := infos[cluster[0]]
		info.ActivationEpoch, info.ExitEpoch = 0, 1<<40
		infos[cluster[0]] = info
	}
	bn.SetValInfos(infos)
	bn.LeakForeign = rapid.Bool().Draw(rt, "beaconIgnoresFilter")

	// beacon assignments. Real beacon nodes keep answering for validators that are no longer (or not yet)
	// active, e.g. an exited validator stays in the sync committee until the period ends: when drawn,
	// the tables also hold sync-committee duties for cluster validators after their exit epoch. They are served
	// only if asked for (or always, when the beacon node ignores the index filter) and must never be
	// triggered.
	assignInactive := rapid.Bool().Draw(rt, "beaconAssignsInactive")
	inactiveAssigned := false
	tables := fakebn.NewDutyTables()
	for e := 0; e <= nEpochs+1; e++ {
		ep := eth2p0.Epoch(e)
		tables.Att[ep] = map[eth2p0.ValidatorIndex]eth2v1.AttesterDuty{}
		tables.Sync[ep] = map[eth2p0.ValidatorIndex]eth2v1.SyncCommitteeDuty{}
		for _, v := range everyone {
			isForeign := v >= 70
			if info, ok := infos[v]; ok && assignInactive && !isForeign && ep > info.ExitEpoch && rapid.IntRange(0, 1).Draw(rt, "exitedStillInSyncCommittee") == 0 {
				// (from the epoch after the exit epoch on: the exit epoch itself is resolved one slot early,
				// while the validator still counts as active — whether that boundary duty is "for an
				// inactive validator" is a matter of reading, so it is not generated)
				// only sync-committee membership outlives a validator's active life on a real beacon node
				tables.Sync[ep][v] = eth2v1.SyncCommitteeDuty{PubKey: pubkeyOf(v), ValidatorIndex: v, ValidatorSyncCommitteeIndices: []eth2p0.CommitteeIndex{eth2p0.CommitteeIndex(v)}}
				inactiveAssigned = true
			}
			if isForeign || activeIn(v, ep) {
				slot := eth2p0.Slot(uint64(e)*spe + uint64(rapid.IntRange(0, int(spe)-1).Draw(rt, "attSlot")))
				tables.Att[ep][v] = eth2v1.AttesterDuty{PubKey: pubkeyOf(v), Slot: slot, ValidatorIndex: v, CommitteeIndex: eth2p0.CommitteeIndex(uint64(v) % 4), CommitteeLength: 16, CommitteesAtSlot: 4, ValidatorCommitteeIndex: uint64(v) % 16}
				if rapid.IntRange(0, 3).Draw(rt, "sync?") == 0 {
					tables.Sync[ep][v] = eth2v1.SyncCommitteeDuty{PubKey: pubkeyOf(v), ValidatorIndex: v, ValidatorSyncCommitteeIndices: []eth2p0.CommitteeIndex{eth2p0.CommitteeIndex(v)}}
				}
			}
		}
		for s := uint64(0); s < spe; s++ {
			if rapid.IntRange(0, 2).Draw(rt, "proposal?") != 0 {
				continue
			}
			v := everyone[rapid.IntRange(0, len(everyone)-1).Draw(rt, "proposer")]
			if v < 70 && !activeIn(v, ep) {
				continue
			}
			tables.Pro[ep] = append(tables.Pro[ep], eth2v1.ProposerDuty{PubKey: pubkeyOf(v), Slot: eth2p0.Slot(uint64(e)*spe + s), ValidatorIndex: v})
		}
	}
	bn.SetDuties(tables)
	buildExpect := func() map[core.Duty]map[core.PubKey]string {
		expect := map[core.Duty]map[core.PubKey]string{}
		add := func(d core.Duty, v eth2p0.ValidatorIndex, def string) {
			if expect[d] == nil {
				expect[d] = map[core.PubKey]string{}
			}
			pk := core.PubKeyFrom48Bytes(pubkeyOf(v))
			if _, dup := expect[d][pk]; !dup { // the first definition per (duty, validator) wins
				expect[d][pk] = def
			}
		}
		for e := 0; e <= nEpochs+1; e++ {
			ep := eth2p0.Epoch(e)
			for v, d := range tables.Att[ep] {
				if v < 70 && activeIn(v, ep) {
					add(core.NewAttesterDuty(uint64(d.Slot)), v, fmt.Sprint(d))
					add(core.NewAggregatorDuty(uint64(d.Slot)), v, fmt.Sprint(d))
				}
			}
			for _, d := range tables.Pro[ep] {
				if d.ValidatorIndex < 70 && activeIn(d.ValidatorIndex, ep) {
					add(core.NewProposerDuty(uint64(d.Slot)), d.ValidatorIndex, fmt.Sprint(d))
				}
			}
			for v, d := range tables.Sync[ep] {
				if v < 70 && activeIn(v, ep) {
					for s := uint64(e) * spe; s < uint64(e+1)*spe; s++ {
						add(core.NewSyncContributionDuty(s), v, fmt.Sprint(d))
					}
				}
			}
		}
		return expect
	}
	type tableVersion struct {
		fromSlot uint64 // first slot whose duties follow this version of the tables
		expect   map[core.Duty]map[core.PubKey]string
	}
	var versions []tableVersion
	lastChangeSlot := uint64(0)
	reassigned := 0
	dc := eth2wrap.NewDutiesCache(bn, nil)
	bn.SetDutiesCache(dc.ProposerDutiesCache, dc.AttesterDutiesCache, dc.SyncCommDutiesCache)

	sched, err := scheduler.New(nil, bn, false)
	if err != nil {
		rt.Fatalf("HARNESS-ERROR: %v", err)
	}
	var mu sync.Mutex
	var trigs []trig
	ticked := map[uint64]time.Time{}
	sched.SubscribeDuties(func(_ context.Context, d core.Duty, defs core.DutyDefinitionSet) error {
		mu.Lock()
		trigs = append(trigs, trig{d, defs, time.Now()})
		mu.Unlock()
		return nil
	})
	sched.SubscribeSlots(func(_ context.Context, s core.Slot) error {
		mu.Lock()
		ticked[s.Slot] = time.Now()
		mu.Unlock()
		return nil
	})
	// With the early-attestation-fetch feature the scheduler hands the attester definitions of a slot to a
	// fetch-only receiver when a head event arrives. The receiver here keeps nothing of what it is handed
	// intact (as any other subscriber may): what is triggered later must not be affected.
	headEvents := 0
	earlyFetch := featureOn("fetch_att_on_block") || featureOn("fetch_att_on_block_with_delay")
	if earlyFetch {
		sched.RegisterFetcherFetchOnly(func(_ context.Context, _ core.Duty, defs core.DutyDefinitionSet, _ string, _ eth2p0.Root) error {
			for pk, def := range defs {
				if ad, ok := def.(core.AttesterDefinition); ok {
					ad.PubKey[0], ad.PubKey[1] = 0xde, 0xad
					ad.CommitteeIndex += 77
					defs[pk] = ad
				}
			}
			for pk := range defs {
				delete(defs, pk)
				break
			}
			return nil
		})
	}
	runDone := make(chan struct{})
	go func() { defer close(runDone); _ = sched.Run() }()

	// fault script: at drawn slots make an endpoint fail n times / make beacon calls slow
	endSlot := uint64(nEpochs) * spe
	claimed := map[uint64]bool{}
	failures, slowdowns, lookAheads := 0, 0, 0
	var reorgs []time.Time
	calm := rapid.IntRange(0, 2).Draw(rt, "calmBeaconNode") == 0
	var otherUsers sync.WaitGroup
	var script []string
	for s := startSlot; s < endSlot+1; s++ {
		slotStart := genesis.Add(time.Duration(s) * slotDur)
		if d := time.Until(slotStart.Add(-time.Second)); d > 0 {
			time.Sleep(d) // one second before the slot starts: set up its faults
		}
		// does the scheduler itself report the slot's epoch as resolved one second before the slot starts?
		qctx, qcancel := context.WithTimeout(context.Background(), 500*time.Millisecond)
		if _, err := sched.GetDutyDefinition(qctx, core.NewAttesterDuty(s)); err == nil || strings.Contains(err.Error(), "duty not present for resolved epoch") {
			claimed[s] = true
		}
		qcancel()
		if earlyFetch && rapid.IntRange(0, 2).Draw(rt, "headEvent") == 0 {
			// a head event for this slot, some time into it (before or after the attester offset)
			at := time.Duration(rapid.IntRange(0, int(slotDur/time.Millisecond)-1000).Draw(rt, "headEventMs")) * time.Millisecond
			otherUsers.Add(1)
			go func() {
				defer otherUsers.Done()
				time.Sleep(time.Until(slotStart.Add(at)))
				sched.HandleHeadEvent(context.Background(), eth2p0.Slot(s), eth2p0.Root{1}, "bn")
			}()
			headEvents++
		}
		faultDraw := rapid.IntRange(0, 9).Draw(rt, "fault")
		if calm && faultDraw < 2 {
			faultDraw = 4 // a calm run has no beacon errors or delays, only other users of the duties cache
		}
		switch faultDraw {
		case 0:
			ep := rapid.SampledFrom([]string{"attester", "proposer", "sync", "validators"}).Draw(rt, "failEndpoint")
			n := rapid.IntRange(1, 3).Draw(rt, "failCount")
			bn.Fail(ep, n)
			failures++
			script = append(script, fmt.Sprintf("s%d:fail(%s,%d)", s, ep, n))
		case 1:
			lat := time.Duration(rapid.IntRange(1, 30).Draw(rt, "latencySec")) * time.Second
			bn.SetLatency(lat)
			slowdowns++
			script = append(script, fmt.Sprintf("s%d:latency(%v)", s, lat))
		case 2, 3:
			bn.SetLatency(0)
		case 6:
			if featureOn("sse_reorg_duties") {
				// a chain reorg event reaching back into an earlier epoch: the scheduler drops the duties of
				// its resolved epoch and resolves them again in the next slot (assignments unchanged here)
				back := uint64(rapid.IntRange(1, 2).Draw(rt, "reorgDepthEpochs"))
				if cur := s / spe; cur >= back {
					// Half of the reorgs change the assignments of the slots that have not begun yet (this slot
					// to the end of its epoch), as a reorg does: what is triggered for those slots must follow
					// the new assignments. Only when the scheduler itself reports this slot's epoch as resolved
					// (then the event makes it drop exactly that epoch's duties and resolve them afresh; an
					// event that meets a half-resolved epoch is ignored by design and proves nothing), and only
					// while the beacon node has been answering at once: a resolution call that is under way
					// during the event (slow node) may legitimately come back with the old answer. Reorg events
					// are outside what the property quantifies over; this is the "never altered" clause only.
					// (and only when the slot has not begun: a run may start inside its first slot, whose duties
					// are then already on their way with the assignments of before the event)
					if claimed[s] && slowdowns == 0 && time.Now().Before(slotStart) && rapid.Bool().Draw(rt, "reorgChangesDuties") {
						versions = append(versions, tableVersion{fromSlot: lastChangeSlot, expect: buildExpect()})
						lastChangeSlot = s
						ep := eth2p0.Epoch(s / spe)
						epochEnd := (uint64(ep) + 1) * spe
						bn.MutateDuties(func(t *fakebn.DutyTables) {
							for _, v := range everyone {
								d, ok := t.Att[ep][v]
								if !ok || uint64(d.Slot) < s || rapid.Bool().Draw(rt, "keepAttester") {
									continue
								}
								d.Slot = eth2p0.Slot(s + uint64(rapid.IntRange(0, int(epochEnd-s)-1).Draw(rt, "newAttSlot")))
								d.CommitteeIndex = (d.CommitteeIndex + 1) % 4
								t.Att[ep][v] = d
								reassigned++
							}
							var pro []eth2v1.ProposerDuty
							for _, d := range t.Pro[ep] {
								if uint64(d.Slot) < s {
									pro = append(pro, d)
								}
							}
							for sl := s; sl < epochEnd; sl++ {
								if rapid.IntRange(0, 2).Draw(rt, "newProposal?") != 0 {
									continue
								}
								v := everyone[rapid.IntRange(0, len(everyone)-1).Draw(rt, "newProposer")]
								if v < 70 && !activeIn(v, ep) {
									continue
								}
								pro = append(pro, eth2v1.ProposerDuty{PubKey: pubkeyOf(v), Slot: eth2p0.Slot(sl), ValidatorIndex: v})
								reassigned++
							}
							t.Pro[ep] = pro
						})
					}
					sched.HandleChainReorgEvent(context.Background(), eth2p0.Epoch(cur-back))
					dc.InvalidateCache(context.Background(), eth2p0.Epoch(cur-back)) // the second subscriber of the event, as wired in app.go
					reorgs = append(reorgs, time.Now())
					claimed[s] = false
					script = append(script, fmt.Sprintf("s%d:reorg(e%d)", s, cur-back))
				}
			}
		case 4, 5:
			// another user of the shared duties cache (the validator API serves validator clients that
			// look ahead, one or a few validators at a time) asks for this or the next epoch before or
			// after the scheduler does; what the scheduler is then served must still be complete
			ep := eth2p0.Epoch(s/spe) + eth2p0.Epoch(rapid.IntRange(0, 1).Draw(rt, "lookAhead"))
			var idx []eth2p0.ValidatorIndex
			for _, v := range cluster {
				if rapid.IntRange(0, 2).Draw(rt, "lookFor") == 0 {
					idx = append(idx, v)
				}
			}
			if len(idx) == 0 {
				idx = []eth2p0.ValidatorIndex{cluster[rapid.IntRange(0, len(cluster)-1).Draw(rt, "lookForOne")]}
			}
			kind := rapid.SampledFrom([]string{"proposer", "attester"}).Draw(rt, "lookKind")
			otherUsers.Add(1)
			go func() {
				defer otherUsers.Done()
				cctx, ccancel := context.WithTimeout(context.Background(), 40*slotDur)
				defer ccancel()
				// like the validator API, the other user rewrites what it was handed (it swaps the public key
				// for the node's public share before answering its validator client)
				if kind == "proposer" {
					if r, err := dc.ProposerDutiesCache(cctx, ep, idx); err == nil {
						for _, d := range r.Duties {
							d.PubKey[0], d.PubKey[1] = 0xde, 0xad
							d.Slot += 1000
						}
					}
				} else {
					if r, err := dc.AttesterDutiesCache(cctx, ep, idx); err == nil {
						for _, d := range r.Duties {
							d.PubKey[0], d.PubKey[1] = 0xde, 0xad
							d.CommitteeIndex += 50
						}
					}
				}
			}()
			lookAheads++
			script = append(script, fmt.Sprintf("s%d:other_cache_user(%s,e%d,%v)", s, kind, ep, idx))
		}
	}
	bn.SetLatency(0)
	// Let everything that is merely late finish: slow beacon calls may hold the scheduler's loop for
	// several slots (the property allows delay), so wait well beyond the slowest possible backlog.
	time.Sleep(60 * slotDur)
	synctest.Wait()
	otherUsers.Wait()
	sched.Stop()
	<-runDone
	synctest.Wait()

	// ---- oracle
	mu.Lock()
	defer mu.Unlock()
	// when was each epoch resolved (first successful sync-duties call)
	resolvedAt := map[eth2p0.Epoch]time.Time{}
	for _, r := range bn.Records {
		if r.Endpoint == "sync" && r.OK {
			if _, ok := resolvedAt[r.Epoch]; !ok {
				resolvedAt[r.Epoch] = r.At
			}
		}
	}
	// A run in which the beacon node answered every call at once and without error leaves the scheduler no
	// excuse: every epoch whose first slot was ticked must have been resolved by the end of that slot.
	if failures == 0 && slowdowns == 0 {
		for e := startSlot/spe + 1; e*spe < endSlot; e++ {
			first := e * spe
			if _, tickedFirst := ticked[first]; !tickedFirst {
				continue
			}
			someActive := false
			for _, v := range cluster {
				if activeIn(v, eth2p0.Epoch(e)) && (e == 0 || activeIn(v, eth2p0.Epoch(e-1))) {
					someActive = true // active when the epoch is resolved (one slot early) and throughout it
				}
			}
			if !someActive {
				continue // nothing to resolve: the scheduler makes no duty calls for an epoch without active validators
			}
			at, ok := resolvedAt[eth2p0.Epoch(e)]
			limit := genesis.Add(time.Duration(first+1) * slotDur)
			if !ok || at.After(limit) {
				var recs []string
				for _, r := range bn.Records {
					if uint64(r.Epoch) == e {
						recs = append(recs, fmt.Sprintf("%s ok=%v at slot %.2f", r.Endpoint, r.OK, float64(r.At.Sub(genesis))/float64(slotDur)))
					}
				}
				rt.Fatalf("UNRESOLVED: the duties of epoch %d were not resolved by the end of its first slot although the beacon node answered every call without error or delay (resolved: %v; beacon calls for that epoch %v; script %v)", e, ok, recs, script)
			}
		}
	}
	offset := func(t core.DutyType) time.Duration {
		switch t {
		case core.DutyAttester:
			return slotDur / 3
		case core.DutyAggregator, core.DutySyncContribution:
			return 2 * slotDur / 3
		}
		return 0
	}
	// model: expected definitions per duty (the final tables; earlier versions were recorded at each reorg that
	// changed assignments)
	versions = append(versions, tableVersion{fromSlot: lastChangeSlot, expect: buildExpect()})
	expectFor := func(slot uint64) map[core.Duty]map[core.PubKey]string {
		exp := versions[0].expect
		for _, v := range versions {
			if v.fromSlot <= slot {
				exp = v.expect
			}
		}
		return exp
	}
	expect := versions[len(versions)-1].expect
	seen := map[core.Duty]int{}
	skipped := 0
	var ts []string
	for _, tr := range trigs {
		seen[tr.duty]++
		if seen[tr.duty] > 1 {
			rt.Fatalf("TWICE: duty %v triggered %d times (script %v)", tr.duty, seen[tr.duty], script)
		}
		if len(tr.defs) == 0 {
			// the scheduler only files a duty when it has a definition for it: a trigger without any is a duty
			// "for an unassigned slot" / with an altered definition set, whatever feature is on
			rt.Fatalf("EMPTY: duty %v triggered with an empty definition set (script %v)", tr.duty, script)
		}
		slotStart := genesis.Add(time.Duration(tr.duty.Slot) * slotDur)
		if tr.at.Before(slotStart.Add(offset(tr.duty.Type))) {
			rt.Fatalf("EARLY: duty %v triggered at slot start %+v, its offset is %v", tr.duty, tr.at.Sub(slotStart), offset(tr.duty.Type))
		}
		want := expectFor(tr.duty.Slot)[tr.duty]
		for pk, def := range tr.defs {
			w, ok := want[pk]
			if !ok {
				rt.Fatalf("WRONG DEFINITION: duty %v triggered for validator %s which the beacon node did not assign to that slot / is not an active cluster validator (script %v)", tr.duty, pk, script)
			}
			var got string
			switch d := def.(type) {
			case core.AttesterDefinition:
				got = fmt.Sprint(d.AttesterDuty)
			case core.ProposerDefinition:
				got = fmt.Sprint(d.ProposerDuty)
			case core.SyncCommitteeDefinition:
				got = fmt.Sprint(d.SyncCommitteeDuty)
			}
			if got != w {
				rt.Fatalf("ALTERED DEFINITION: duty %v validator %s: triggered %s, beacon assignment %s", tr.duty, pk, got, w)
			}
		}
		ts = append(ts, tr.duty.String())
	}
	// completeness for slots that began after their epoch was resolved
	complete := 0
	for s := startSlot; s < endSlot; s++ {
		tickAt, wasTicked := ticked[s]
		if !wasTicked {
			skipped++
			continue
		}
		_ = tickAt
		ep := eth2p0.Epoch(s / spe)
		ra, ok := resolvedAt[ep]
		slotStart := genesis.Add(time.Duration(s) * slotDur)
		if len(reorgs) > 0 {
			// Reorg events are not among the circumstances the property quantifies over. With them the
			// scheduler drops and re-resolves duties, and an in-flight resolution that finishes after the
			// event can mark the epoch resolved with part of its duties gone (observed with a slow beacon
			// node; recorded in DESIGN.md as an observation). Runs with reorg events therefore assert only
			// the never-wrong clauses: nothing twice, nothing early, nothing altered, nobody else's duty.
			continue
		} else if !claimed[s] && (!ok || !ra.Before(slotStart)) {
			continue
		}
		for _, typ := range []core.DutyType{core.DutyAttester, core.DutyAggregator, core.DutyProposer, core.DutySyncContribution} {
			d := core.Duty{Slot: s, Type: typ}
			want := expect[d]
			var got core.DutyDefinitionSet
			for _, tr := range trigs {
				if tr.duty == d {
					got = tr.defs
				}
			}
			if len(want) != len(got) {
				var wk []string
				for pk := range want {
					wk = append(wk, string(pk)[:10])
				}
				sort.Strings(wk)
				rt.Fatalf("MISSING / EXTRA: duty %v of a slot that began after its epoch was resolved (%v after the last resolution call; reported resolved by the scheduler beforehand: %v): triggered for %d validators, the beacon node assigned %d (%v) (script %v, ticked at %v)", d, slotStart.Sub(ra), claimed[s], len(got), len(want), wk, script, tickAt.Sub(slotStart))
			}
			if len(want) > 0 {
				complete++
			}
		}
	}
	boundary := nEpochs >= 2
	nontrivial := (failures > 0 || skipped > 0 || lifecycle) && boundary
	sort.Strings(ts)
	vstat.Case(fmt.Sprintf("%d/%d/%d/%d|%v|%v", spe, nEpochs, nCluster, startSlot, script, strings.Join(ts, ",")), nontrivial,
		cls("failed_resolution", failures > 0), cls("slow_beacon", slowdowns > 0), cls("skipped_slot", skipped > 0), cls("activation_or_exit", lifecycle), cls("foreign_leak", bn.LeakForeign && nForeign > 0), cls("beacon_assigns_inactive_cluster_validators", inactiveAssigned), cls("other_duties_cache_user", lookAheads > 0), cls("calm_beacon_node", calm), cls("complete_slots_checked", complete > 0), cls("reorg_event", len(reorgs) > 0), cls("reorg_changed_assignments", reassigned > 0), cls("head_events_with_mutating_fetch_only_receiver", headEvents > 0), "features:"+strings.Join(features, "+"))
	vstat.Count("triggers", int64(len(trigs)))
	vstat.Count("complete_duties_checked", int64(complete))
	if nontrivial && skipped > 0 && vstat.WantSample("skipped") {
		vstat.Sample("skipped", map[string]any{"slots_per_epoch": spe, "epochs": nEpochs, "cluster_validators": nCluster, "start_slot": startSlot, "script": script, "triggers": len(trigs), "skipped_slots": skipped})
	} else if nontrivial && vstat.WantSample("plain") {
		vstat.Sample("plain", map[string]any{"slots_per_epoch": spe, "epochs": nEpochs, "cluster_validators": nCluster, "start_slot": startSlot, "script": script, "triggers": len(trigs)})
	}
}

func cls(name string, on bool) string {
	if on {
		return name
	}
	return ""
}
