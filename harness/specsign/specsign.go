// Package specsign is the harness's own eth2 signing table (DESIGN.md appendix A): for a signed
// duty object it names the domain, epoch and object root from the consensus specs, independent of
// charon's core/eth2signeddata.go and of the MessageRoot / DomainName / Epoch methods of the core
// types. Roots come from go-eth2-client's SSZ HashTreeRoot on the spec structs, domains from the
// fake beacon node's compute_domain.
package specsign

import (
	"encoding/binary"
	"fmt"

	eth2spec "github.com/attestantio/go-eth2-client/spec"
	"github.com/attestantio/go-eth2-client/spec/altair"
	eth2p0 "github.com/attestantio/go-eth2-client/spec/phase0"

	"github.com/obolnetwork/charon/core"
	"github.com/obolnetwork/charon/tbls"

	"verifharness/fakebn"
)

// Spec is what the consensus specs say must be signed for an object.
type Spec struct {
	Domain string       // DOMAIN_* name
	Epoch  eth2p0.Epoch // epoch that selects the fork version
	Root   eth2p0.Root  // object root
}

func uintRoot(v uint64) eth2p0.Root {
	var r eth2p0.Root
	binary.LittleEndian.PutUint64(r[:8], v)
	return r
}

type htr interface{ HashTreeRoot() ([32]byte, error) }

func mustRoot(h htr) eth2p0.Root {
	r, err := h.HashTreeRoot()
	if err != nil {
		panic("HARNESS-ERROR: hash tree root: " + err.Error())
	}
	return r
}

// Of returns the signing specification of a core signed-data value.
func Of(bn *fakebn.BN, data core.SignedData) (Spec, error) {
	epochOf := func(slot eth2p0.Slot) eth2p0.Epoch { return eth2p0.Epoch(uint64(slot) / bn.SPE) }
	switch d := data.(type) {
	case core.VersionedAttestation:
		var ad *eth2p0.AttestationData
		switch d.Version {
		case eth2spec.DataVersionPhase0:
			ad = d.Phase0.Data
		case eth2spec.DataVersionAltair:
			ad = d.Altair.Data
		case eth2spec.DataVersionBellatrix:
			ad = d.Bellatrix.Data
		case eth2spec.DataVersionCapella:
			ad = d.Capella.Data
		case eth2spec.DataVersionDeneb:
			ad = d.Deneb.Data
		case eth2spec.DataVersionElectra:
			ad = d.Electra.Data
		case eth2spec.DataVersionFulu:
			ad = d.Fulu.Data
		default:
			return Spec{}, fmt.Errorf("attestation version %v", d.Version)
		}
		return Spec{"DOMAIN_BEACON_ATTESTER", ad.Target.Epoch, mustRoot(ad)}, nil
	case core.VersionedSignedProposal:
		var slot eth2p0.Slot
		var msg htr
		switch {
		case d.Version == eth2spec.DataVersionPhase0:
			slot, msg = d.Phase0.Message.Slot, d.Phase0.Message
		case d.Version == eth2spec.DataVersionAltair:
			slot, msg = d.Altair.Message.Slot, d.Altair.Message
		case d.Version == eth2spec.DataVersionBellatrix && !d.Blinded:
			slot, msg = d.Bellatrix.Message.Slot, d.Bellatrix.Message
		case d.Version == eth2spec.DataVersionBellatrix:
			slot, msg = d.BellatrixBlinded.Message.Slot, d.BellatrixBlinded.Message
		case d.Version == eth2spec.DataVersionCapella && !d.Blinded:
			slot, msg = d.Capella.Message.Slot, d.Capella.Message
		case d.Version == eth2spec.DataVersionCapella:
			slot, msg = d.CapellaBlinded.Message.Slot, d.CapellaBlinded.Message
		case d.Version == eth2spec.DataVersionDeneb && !d.Blinded:
			slot, msg = d.Deneb.SignedBlock.Message.Slot, d.Deneb.SignedBlock.Message
		case d.Version == eth2spec.DataVersionDeneb:
			slot, msg = d.DenebBlinded.Message.Slot, d.DenebBlinded.Message
		case d.Version == eth2spec.DataVersionElectra && !d.Blinded:
			slot, msg = d.Electra.SignedBlock.Message.Slot, d.Electra.SignedBlock.Message
		case d.Version == eth2spec.DataVersionElectra:
			slot, msg = d.ElectraBlinded.Message.Slot, d.ElectraBlinded.Message
		case d.Version == eth2spec.DataVersionFulu && !d.Blinded:
			slot, msg = d.Fulu.SignedBlock.Message.Slot, d.Fulu.SignedBlock.Message
		case d.Version == eth2spec.DataVersionFulu:
			slot, msg = d.FuluBlinded.Message.Slot, d.FuluBlinded.Message
		default:
			return Spec{}, fmt.Errorf("proposal version %v", d.Version)
		}
		return Spec{"DOMAIN_BEACON_PROPOSER", epochOf(slot), mustRoot(msg)}, nil
	case core.SignedRandao:
		return Spec{"DOMAIN_RANDAO", d.SignedEpoch.Epoch, uintRoot(uint64(d.SignedEpoch.Epoch))}, nil
	case core.SignedVoluntaryExit:
		return Spec{"DOMAIN_VOLUNTARY_EXIT", d.Message.Epoch, mustRoot(d.Message)}, nil
	case core.VersionedSignedValidatorRegistration:
		return Spec{"DOMAIN_APPLICATION_BUILDER", 0, mustRoot(d.V1.Message)}, nil
	case core.BeaconCommitteeSelection:
		return Spec{"DOMAIN_SELECTION_PROOF", epochOf(d.Slot), uintRoot(uint64(d.Slot))}, nil
	case core.SignedAggregateAndProof:
		return Spec{"DOMAIN_AGGREGATE_AND_PROOF", epochOf(d.Message.Aggregate.Data.Slot), mustRoot(d.Message)}, nil
	case core.VersionedSignedAggregateAndProof:
		switch d.Version {
		case eth2spec.DataVersionPhase0:
			return Spec{"DOMAIN_AGGREGATE_AND_PROOF", epochOf(d.Phase0.Message.Aggregate.Data.Slot), mustRoot(d.Phase0.Message)}, nil
		case eth2spec.DataVersionAltair:
			return Spec{"DOMAIN_AGGREGATE_AND_PROOF", epochOf(d.Altair.Message.Aggregate.Data.Slot), mustRoot(d.Altair.Message)}, nil
		case eth2spec.DataVersionBellatrix:
			return Spec{"DOMAIN_AGGREGATE_AND_PROOF", epochOf(d.Bellatrix.Message.Aggregate.Data.Slot), mustRoot(d.Bellatrix.Message)}, nil
		case eth2spec.DataVersionCapella:
			return Spec{"DOMAIN_AGGREGATE_AND_PROOF", epochOf(d.Capella.Message.Aggregate.Data.Slot), mustRoot(d.Capella.Message)}, nil
		case eth2spec.DataVersionDeneb:
			return Spec{"DOMAIN_AGGREGATE_AND_PROOF", epochOf(d.Deneb.Message.Aggregate.Data.Slot), mustRoot(d.Deneb.Message)}, nil
		case eth2spec.DataVersionElectra:
			return Spec{"DOMAIN_AGGREGATE_AND_PROOF", epochOf(d.Electra.Message.Aggregate.Data.Slot), mustRoot(d.Electra.Message)}, nil
		case eth2spec.DataVersionFulu:
			return Spec{"DOMAIN_AGGREGATE_AND_PROOF", epochOf(d.Fulu.Message.Aggregate.Data.Slot), mustRoot(d.Fulu.Message)}, nil
		}
		return Spec{}, fmt.Errorf("aggregate version %v", d.Version)
	case core.SignedSyncMessage:
		return Spec{"DOMAIN_SYNC_COMMITTEE", epochOf(d.Slot), d.BeaconBlockRoot}, nil
	case core.SyncCommitteeSelection:
		return Spec{"DOMAIN_SYNC_COMMITTEE_SELECTION_PROOF", epochOf(d.Slot), mustRoot(&altair.SyncAggregatorSelectionData{Slot: d.Slot, SubcommitteeIndex: d.SubcommitteeIndex})}, nil
	case core.SignedSyncContributionAndProof:
		return Spec{"DOMAIN_CONTRIBUTION_AND_PROOF", epochOf(d.Message.Contribution.Slot), mustRoot(d.Message)}, nil
	}
	return Spec{}, fmt.Errorf("no signing rule for %T", data)
}

// DomainOf computes the domain value for a signing spec on the fake node's fork schedule.
func DomainOf(bn *fakebn.BN, s Spec) eth2p0.Domain {
	dt := fakebn.DomainTypes[s.Domain]
	switch s.Domain {
	case "DOMAIN_APPLICATION_BUILDER":
		return fakebn.ComputeDomain(dt, bn.Forks[0].Version, eth2p0.Root{})
	case "DOMAIN_VOLUNTARY_EXIT": // EIP-7044
		return fakebn.ComputeDomain(dt, bn.ForkByName("capella").Version, bn.GenesisValidatorsRoot)
	}
	return fakebn.ComputeDomain(dt, bn.ForkAt(s.Epoch).Version, bn.GenesisValidatorsRoot)
}

// SigningRoot is hash_tree_root(SigningData(object_root, domain)).
func SigningRoot(bn *fakebn.BN, data core.SignedData) ([32]byte, error) {
	s, err := Of(bn, data)
	if err != nil {
		return [32]byte{}, err
	}
	return mustRoot(&eth2p0.SigningData{ObjectRoot: s.Root, Domain: DomainOf(bn, s)}), nil
}

// Sign signs the object's spec signing root with the key and returns the object carrying it.
func Sign(bn *fakebn.BN, key tbls.PrivateKey, data core.SignedData) (core.SignedData, error) {
	root, err := SigningRoot(bn, data)
	if err != nil {
		return nil, err
	}
	sig, err := tbls.Sign(key, root[:])
	if err != nil {
		return nil, err
	}
	return data.SetSignature(core.Signature(sig[:]))
}

// Verify checks the object's signature against its spec signing root.
func Verify(bn *fakebn.BN, pub tbls.PublicKey, data core.SignedData) error {
	root, err := SigningRoot(bn, data)
	if err != nil {
		return err
	}
	var sig tbls.Signature
	copy(sig[:], data.Signature())
	return tbls.Verify(pub, root[:], sig)
}
