// Package dkgoracle states what a successful key-generation ceremony must have produced (C11).
//
// It looks only at the values the ceremony returned on every node (share.Share per validator) and
// judges them with the threshold-BLS primitives (tbls) plus an independent Lagrange interpolation
// in G1 written here with the kryptology curve arithmetic, so that "any t public shares
// reconstruct the group key" does not rest on tbls.RecoverPubkey alone.
//
// The package is stamped both into the external harness module and (through the build overlay)
// into the charon module, so it must not import anything from the harness.
package dkgoracle

import (
	"bytes"
	"fmt"
	"sort"

	"github.com/coinbase/kryptology/pkg/core/curves"

	"github.com/obolnetwork/charon/dkg/share"
	"github.com/obolnetwork/charon/tbls"
)

// Stats describes what one Check call looked at.
type Stats struct {
	Subsets        int  // t-subsets examined per validator (summed)
	AllSubsets     bool // every t-subset of every validator was examined
	PubRecoveries  int
	SigAggregates  int
	SecRecoveries  int
	DistinctGroups int // distinct group keys among the validators of the ceremony
}

// Check verifies the outputs of one ceremony. perNode[i] is what node i (share index i+1) returned,
// one share.Share per validator. pick(k) must return an integer in [0,k); it is only used when the
// number of t-subsets exceeds maxSubsets (then maxSubsets subsets are drawn with it).
// The returned string is empty when everything holds, else a description of the first violation.
func Check(n, t, numVals int, perNode [][]share.Share, maxSubsets int, pick func(k int) int) (Stats, string) {
	var st Stats
	if len(perNode) != n {
		return st, fmt.Sprintf("OUTPUT COUNT: %d nodes returned shares, want %d", len(perNode), n)
	}
	for i, shares := range perNode {
		if len(shares) != numVals {
			return st, fmt.Sprintf("OUTPUT COUNT: node %d returned %d shares, want %d validators", i, len(shares), numVals)
		}
	}

	groups := map[tbls.PublicKey]bool{}
	st.AllSubsets = true
	for v := 0; v < numVals; v++ {
		ref := perNode[0][v]
		// (1) every node holds the same group key and the same n public shares.
		for i := 0; i < n; i++ {
			sh := perNode[i][v]
			if sh.PubKey != ref.PubKey {
				return st, fmt.Sprintf("GROUP KEY DIFFERS: validator %d: node 0 has %x, node %d has %x", v, ref.PubKey[:6], i, sh.PubKey[:6])
			}
			if len(sh.PublicShares) != n {
				return st, fmt.Sprintf("PUBLIC SHARE COUNT: validator %d node %d holds %d public shares, want %d (indices %v)", v, i, len(sh.PublicShares), n, keys(sh.PublicShares))
			}
			for idx := 1; idx <= n; idx++ {
				ps, ok := sh.PublicShares[idx]
				if !ok {
					return st, fmt.Sprintf("PUBLIC SHARE INDEX: validator %d node %d has no public share for share index %d (indices %v)", v, i, idx, keys(sh.PublicShares))
				}
				if ps != ref.PublicShares[idx] {
					return st, fmt.Sprintf("PUBLIC SHARES DIFFER: validator %d share index %d: node 0 has %x, node %d has %x", v, idx, short(ref.PublicShares[idx]), i, short(ps))
				}
			}
		}
		if groups[ref.PubKey] {
			return st, fmt.Sprintf("GROUP KEY REUSED: validator %d has the same group key as an earlier validator of the ceremony", v)
		}
		groups[ref.PubKey] = true

		// (2) node i's secret share matches the public share published for share index i+1.
		secrets := map[int]tbls.PrivateKey{}
		for i := 0; i < n; i++ {
			sec := perNode[i][v].SecretShare
			pub, err := tbls.SecretToPublicKey(sec)
			if err != nil {
				return st, fmt.Sprintf("SECRET SHARE INVALID: validator %d node %d: %v", v, i, err)
			}
			if pub != ref.PublicShares[i+1] {
				return st, fmt.Sprintf("SECRET/PUBLIC SHARE MISMATCH: validator %d node %d (share index %d): secret share's public key %x, published %x", v, i, i+1, short(pub), short(ref.PublicShares[i+1]))
			}
			secrets[i+1] = sec
		}

		// (3)+(4) t-subsets.
		subsets, all := chooseSubsets(n, t, maxSubsets, pick)
		if !all {
			st.AllSubsets = false
		}
		msg := []byte(fmt.Sprintf("dkgoracle message for validator %d %x", v, ref.PubKey[:8]))
		partials := map[int]tbls.Signature{}
		for idx, sec := range secrets {
			sig, err := tbls.Sign(sec, msg)
			if err != nil {
				return st, fmt.Sprintf("SIGN: %v", err)
			}
			partials[idx] = sig
		}
		for _, sub := range subsets {
			st.Subsets++
			pubs := map[int]tbls.PublicKey{}
			sigs := map[int]tbls.Signature{}
			secs := map[int]tbls.PrivateKey{}
			for _, idx := range sub {
				pubs[idx] = ref.PublicShares[idx]
				sigs[idx] = partials[idx]
				secs[idx] = secrets[idx]
			}
			// any t public shares reconstruct the group key: tbls and the independent interpolation.
			rec, err := tbls.RecoverPubkey(pubs)
			if err != nil {
				return st, fmt.Sprintf("PUBKEY RECOVERY FAILED: validator %d subset %v: %v", v, sub, err)
			}
			if rec != ref.PubKey {
				return st, fmt.Sprintf("PUBLIC SHARES DO NOT RECONSTRUCT GROUP KEY: validator %d subset %v gives %x, group key %x", v, sub, short(rec), short(ref.PubKey))
			}
			rec2, err := Interpolate(pubs)
			if err != nil {
				return st, fmt.Sprintf("PUBKEY INTERPOLATION FAILED: validator %d subset %v: %v", v, sub, err)
			}
			if !bytes.Equal(rec2, ref.PubKey[:]) {
				return st, fmt.Sprintf("PUBLIC SHARES DO NOT RECONSTRUCT GROUP KEY (independent interpolation): validator %d subset %v gives %x, group key %x", v, sub, rec2[:6], short(ref.PubKey))
			}
			st.PubRecoveries++
			// any t secret shares produce partial signatures that combine into a valid group signature.
			agg, err := tbls.ThresholdAggregate(sigs)
			if err != nil {
				return st, fmt.Sprintf("THRESHOLD AGGREGATE FAILED: validator %d subset %v: %v", v, sub, err)
			}
			if err := tbls.Verify(ref.PubKey, msg, agg); err != nil {
				return st, fmt.Sprintf("COMBINED SIGNATURE INVALID UNDER GROUP KEY: validator %d subset %v: %v", v, sub, err)
			}
			st.SigAggregates++
			// the shared secret itself (never assembled in production) has the group key.
			secret, err := tbls.RecoverSecret(secs, uint(n), uint(t))
			if err != nil {
				return st, fmt.Sprintf("SECRET RECOVERY FAILED: validator %d subset %v: %v", v, sub, err)
			}
			gp, err := tbls.SecretToPublicKey(secret)
			if err != nil || gp != ref.PubKey {
				return st, fmt.Sprintf("RECOVERED SECRET HAS ANOTHER PUBLIC KEY: validator %d subset %v: %x vs group %x (%v)", v, sub, short(gp), short(ref.PubKey), err)
			}
			st.SecRecoveries++
		}
		// the polynomial has degree exactly t-1 in the sense that matters to users: fewer than t
		// shares must not reconstruct the key (a ceremony that silently used a lower threshold is not
		// "threshold t"). Checked on one (t-1)-subset when t > 1.
		if t > 1 && len(subsets) > 0 {
			sub := subsets[0][:t-1]
			pubs := map[int]tbls.PublicKey{}
			for _, idx := range sub {
				pubs[idx] = ref.PublicShares[idx]
			}
			if rec, err := Interpolate(pubs); err == nil && bytes.Equal(rec, ref.PubKey[:]) {
				return st, fmt.Sprintf("THRESHOLD TOO LOW: validator %d: %d public shares %v already reconstruct the group key (threshold %d)", v, t-1, sub, t)
			}
		}
	}
	st.DistinctGroups = len(groups)
	return st, ""
}

func keys(m map[int]tbls.PublicKey) []int {
	var ks []int
	for k := range m {
		ks = append(ks, k)
	}
	sort.Ints(ks)
	return ks
}

func short(p tbls.PublicKey) []byte { return p[:6] }

// chooseSubsets returns all t-subsets of 1..n when there are at most max of them, else max drawn ones.
func chooseSubsets(n, t, max int, pick func(int) int) ([][]int, bool) {
	total := binom(n, t)
	if total <= max {
		var out [][]int
		cur := make([]int, 0, t)
		var rec func(next int)
		rec = func(next int) {
			if len(cur) == t {
				out = append(out, append([]int(nil), cur...))
				return
			}
			for i := next; i <= n; i++ {
				cur = append(cur, i)
				rec(i + 1)
				cur = cur[:len(cur)-1]
			}
		}
		rec(1)
		return out, true
	}
	var out [][]int
	for len(out) < max {
		idx := make([]int, n)
		for i := range idx {
			idx[i] = i + 1
		}
		var sub []int
		for len(sub) < t {
			k := pick(len(idx))
			sub = append(sub, idx[k])
			idx = append(idx[:k], idx[k+1:]...)
		}
		sort.Ints(sub)
		out = append(out, sub)
	}
	return out, false
}

func binom(n, k int) int {
	if k < 0 || k > n {
		return 0
	}
	r := 1
	for i := 1; i <= k; i++ {
		r = r * (n - k + i) / i
	}
	return r
}

// Interpolate evaluates at zero the polynomial (in the exponent) through the given public shares:
// sum_i lambda_i * P_i with lambda_i = prod_{j != i} x_j / (x_j - x_i). Result: compressed G1 point.
func Interpolate(pubs map[int]tbls.PublicKey) ([]byte, error) {
	curve := curves.BLS12381G1()
	acc := curve.Point.Identity()
	for i, pk := range pubs {
		p, err := curve.Point.FromAffineCompressed(pk[:])
		if err != nil {
			return nil, err
		}
		num := curve.Scalar.One()
		den := curve.Scalar.One()
		xi := curve.Scalar.New(i)
		for j := range pubs {
			if j == i {
				continue
			}
			xj := curve.Scalar.New(j)
			num = num.Mul(xj)
			den = den.Mul(xj.Sub(xi))
		}
		inv, err := den.Invert()
		if err != nil {
			return nil, err
		}
		acc = acc.Add(p.Mul(num.Mul(inv)))
	}
	return acc.ToAffineCompressed(), nil
}
