// Package valgen produces values of every core duty-data type (every fork version, blinded and
// full) with the repository's own notion of a valid value (testutil.NewEth2Fuzzer, seeded), and a
// reflect walker over everything reachable from a value (for aliasing checks and scribbling).
package valgen

import (
	"fmt"
	"math/big"
	"strings"

	eth2spec "github.com/attestantio/go-eth2-client/spec"
	"reflect"
	"testing"
	"time"

	"github.com/obolnetwork/charon/core"
	"github.com/obolnetwork/charon/testutil"
)

// Kind describes one core data type.
type Kind struct {
	Name     string
	Duty     core.DutyType
	Unsigned bool
	New      func() any // pointer to a zero value
}

var Kinds = []Kind{
	{"AttestationData", core.DutyAttester, true, func() any { return new(core.AttestationData) }},
	{"VersionedAggregatedAttestation", core.DutyAggregator, true, func() any { return new(core.VersionedAggregatedAttestation) }},
	{"AggregatedAttestation(legacy)", core.DutyAggregator, true, func() any { return new(core.AggregatedAttestation) }}, // what nodes of older releases still propose
	{"VersionedProposal", core.DutyProposer, true, func() any { return new(core.VersionedProposal) }},
	{"SyncContribution", core.DutySyncContribution, true, func() any { return new(core.SyncContribution) }},
	{"SyncContributions", core.DutySyncContribution, true, func() any { return new(core.SyncContributions) }},

	{"VersionedSignedProposal", core.DutyProposer, false, func() any { return new(core.VersionedSignedProposal) }},
	{"VersionedSignedProposal(blinded)", core.DutyProposer, false, func() any { r := new(core.VersionedSignedProposal); r.Blinded = true; return r }},
	{"VersionedAttestation", core.DutyAttester, false, func() any { return new(core.VersionedAttestation) }},
	// what the validator API builds for the attestation formats before Electra: no validator index (the older wire form)
	{"VersionedAttestation(no validator index)", core.DutyAttester, false, func() any { return new(core.VersionedAttestation) }},
	{"Signature", core.DutySignature, false, func() any { return new(core.Signature) }},
	{"SignedVoluntaryExit", core.DutyExit, false, func() any { return new(core.SignedVoluntaryExit) }},
	{"VersionedSignedValidatorRegistration", core.DutyBuilderRegistration, false, func() any { return new(core.VersionedSignedValidatorRegistration) }},
	{"SignedRandao", core.DutyRandao, false, func() any { return new(core.SignedRandao) }},
	{"BeaconCommitteeSelection", core.DutyPrepareAggregator, false, func() any { return new(core.BeaconCommitteeSelection) }},
	{"SignedAggregateAndProof", core.DutyAggregator, false, func() any { return new(core.SignedAggregateAndProof) }},
	{"VersionedSignedAggregateAndProof", core.DutyAggregator, false, func() any { return new(core.VersionedSignedAggregateAndProof) }},
	{"SignedSyncMessage", core.DutySyncMessage, false, func() any { return new(core.SignedSyncMessage) }},
	{"SyncCommitteeSelection", core.DutyPrepareSyncContribution, false, func() any { return new(core.SyncCommitteeSelection) }},
	{"SignedSyncContributionAndProof", core.DutySyncContribution, false, func() any { return new(core.SignedSyncContributionAndProof) }},
}

// KindByName returns the kind with that name (panics if there is none: a harness error).
func KindByName(name string) Kind {
	for _, k := range Kinds {
		if k.Name == name {
			return k
		}
	}
	panic("HARNESS-ERROR: no value kind " + name)
}

func UnsignedKinds() []Kind {
	var out []Kind
	for _, k := range Kinds {
		if k.Unsigned {
			out = append(out, k)
		}
	}
	return out
}

func SignedKinds() []Kind {
	var out []Kind
	for _, k := range Kinds {
		if !k.Unsigned {
			out = append(out, k)
		}
	}
	return out
}

// GenPtr returns a pointer to a fuzzed value of the kind (deterministic per seed != 0).
func GenPtr(t *testing.T, k Kind, seed int64) any {
	if seed == 0 {
		seed = 1
	}
	// testutil's fuzzer has a nil dereference of its own for some blinded Electra/Fulu draws
	// (it trims e.ElectraBlinded from e.Electra); such seeds are skipped deterministically.
	for i := int64(0); i < 50; i++ {
		if p, ok := tryGen(t, k, seed+i*1000003); ok {
			return p
		}
	}
	panic("HARNESS-ERROR: no usable seed for " + k.Name)
}

func tryGen(t *testing.T, k Kind, seed int64) (p any, ok bool) {
	defer func() {
		if r := recover(); r != nil {
			p, ok = nil, false
		}
	}()
	p = k.New()
	testutil.NewEth2Fuzzer(t, seed).Fuzz(p)
	if a, isAtt := p.(*core.VersionedAttestation); isAtt && strings.Contains(k.Name, "no validator index") {
		if a.Version == eth2spec.DataVersionElectra || a.Version == eth2spec.DataVersionFulu {
			return nil, false // next seed: only the formats before Electra come without an index
		}
		a.ValidatorIndex = nil
	}
	if r, isReg := p.(*core.VersionedSignedValidatorRegistration); isReg {
		r.Version = eth2spec.BuilderVersionV1 // the only builder version; the fuzzer has no rule for it
	}
	return p, true
}

// Unsigned returns the fuzzed value as core.UnsignedData.
func Unsigned(t *testing.T, k Kind, seed int64) core.UnsignedData {
	v := reflect.ValueOf(GenPtr(t, k, seed)).Elem().Interface()
	u, ok := v.(core.UnsignedData)
	if !ok {
		panic(fmt.Sprintf("HARNESS-ERROR: %s is not UnsignedData", k.Name))
	}
	return u
}

// Signed returns the fuzzed value as core.SignedData.
func Signed(t *testing.T, k Kind, seed int64) core.SignedData {
	v := reflect.ValueOf(GenPtr(t, k, seed)).Elem().Interface()
	s, ok := v.(core.SignedData)
	if !ok {
		panic(fmt.Sprintf("HARNESS-ERROR: %s is not SignedData", k.Name))
	}
	return s
}

// Ref is one reachable reference inside a value.
type Ref struct {
	Path string
	Kind reflect.Kind
	Addr uintptr
	Len  int
}

// Walk visits everything reachable from v and returns the addresses of all pointer targets,
// non-empty slice backing arrays and maps.
func Walk(v any) []Ref {
	var out []Ref
	seen := map[uintptr]bool{}
	var rec func(val reflect.Value, path string, depth int)
	rec = func(val reflect.Value, path string, depth int) {
		if depth > 40 || !val.IsValid() {
			return
		}
		switch val.Kind() {
		case reflect.Interface:
			if !val.IsNil() {
				rec(val.Elem(), path, depth+1)
			}
		case reflect.Pointer:
			if val.IsNil() {
				return
			}
			addr := val.Pointer()
			if seen[addr] && val.Elem().Kind() != reflect.Struct {
				return
			}
			seen[addr] = true
			if val.Elem().Type().Size() > 0 {
				out = append(out, Ref{path, reflect.Pointer, addr, 0})
			}
			rec(val.Elem(), path+"*", depth+1)
		case reflect.Slice:
			if val.IsNil() || val.Len() == 0 {
				return
			}
			out = append(out, Ref{path, reflect.Slice, val.Pointer(), val.Len()})
			ek := val.Type().Elem().Kind()
			if ek == reflect.Uint8 {
				return
			}
			for i := 0; i < val.Len(); i++ {
				rec(val.Index(i), fmt.Sprintf("%s[%d]", path, i), depth+1)
			}
		case reflect.Array:
			ek := val.Type().Elem().Kind()
			if ek == reflect.Uint8 || ek == reflect.Uint64 {
				return
			}
			for i := 0; i < val.Len(); i++ {
				rec(val.Index(i), fmt.Sprintf("%s[%d]", path, i), depth+1)
			}
		case reflect.Map:
			if val.IsNil() {
				return
			}
			out = append(out, Ref{path, reflect.Map, val.Pointer(), val.Len()})
			it := val.MapRange()
			for it.Next() {
				rec(it.Value(), fmt.Sprintf("%s[%v]", path, it.Key()), depth+1)
			}
		case reflect.Struct:
			if val.Type() == reflect.TypeOf(time.Time{}) {
				return // immutable value type (its *Location is shared by design)
			}
			for i := 0; i < val.NumField(); i++ {
				f := val.Type().Field(i)
				if !f.IsExported() {
					continue // not reachable for a caller
				}
				rec(val.Field(i), path+"."+f.Name, depth+1)
			}
		}
	}
	rec(reflect.ValueOf(v), "", 0)
	return out
}

// Scribble overwrites everything reachable through references of v (pointer targets, slice
// elements, map values): numbers are incremented, bytes flipped, strings extended. Values held
// directly (not behind a reference) cannot be shared and are left alone at the top level.
// It returns the number of locations changed.
func Scribble(v any) int {
	n := 0
	var rec func(val reflect.Value, settable bool, depth int)
	rec = func(val reflect.Value, settable bool, depth int) {
		if depth > 40 || !val.IsValid() {
			return
		}
		switch val.Kind() {
		case reflect.Interface:
			if !val.IsNil() {
				rec(val.Elem(), false, depth+1)
			}
		case reflect.Pointer:
			if !val.IsNil() {
				if bi, ok := val.Interface().(*big.Int); ok {
					bi.Add(bi, big.NewInt(1)) // mutable through its methods only
					n++
					return
				}
				rec(val.Elem(), true, depth+1)
			}
		case reflect.Slice:
			for i := 0; i < val.Len(); i++ {
				rec(val.Index(i), true, depth+1)
			}
		case reflect.Array:
			for i := 0; i < val.Len(); i++ {
				rec(val.Index(i), settable && val.CanSet() || val.Index(i).CanSet(), depth+1)
			}
		case reflect.Map:
			// map values are not addressable: replace entries by scribbled copies
			it := val.MapRange()
			type kv struct{ k, v reflect.Value }
			var upd []kv
			for it.Next() {
				cp := reflect.New(it.Value().Type()).Elem()
				cp.Set(it.Value())
				rec(cp, true, depth+1)
				upd = append(upd, kv{it.Key(), cp})
			}
			for _, e := range upd {
				val.SetMapIndex(e.k, e.v)
			}
		case reflect.Struct:
			if val.Type() == reflect.TypeOf(time.Time{}) {
				return
			}
			for i := 0; i < val.NumField(); i++ {
				if val.Type().Field(i).IsExported() {
					rec(val.Field(i), settable, depth+1)
				}
			}
		case reflect.Uint8, reflect.Uint16, reflect.Uint32, reflect.Uint64, reflect.Uint:
			if settable && val.CanSet() {
				val.SetUint(val.Uint() ^ 0x5a)
				n++
			}
		case reflect.Int8, reflect.Int16, reflect.Int32, reflect.Int64, reflect.Int:
			if settable && val.CanSet() {
				val.SetInt(val.Int() + 1)
				n++
			}
		case reflect.Bool:
			if settable && val.CanSet() {
				val.SetBool(!val.Bool())
				n++
			}
		case reflect.String:
			if settable && val.CanSet() {
				val.SetString(val.String() + "x")
				n++
			}
		}
	}
	rec(reflect.ValueOf(v), false, 0)
	return n
}

// Shared returns the references two values have in common (same pointer target / backing array / map).
func Shared(a, b any) []Ref {
	idx := map[uintptr]Ref{}
	for _, r := range Walk(a) {
		idx[r.Addr] = r
	}
	var out []Ref
	for _, r := range Walk(b) {
		if o, ok := idx[r.Addr]; ok && o.Kind == r.Kind {
			out = append(out, r)
		}
	}
	return out
}

// Leaf is one alterable scalar location inside a value.
type Leaf struct {
	Path   string
	Mutate func(bit int)
}

// Leaves enumerates every settable scalar reachable from the pointer p: unsigned / signed integers,
// booleans, byte arrays and byte slices (one leaf each, a bit of them is flipped), strings.
func Leaves(p any) []Leaf {
	var out []Leaf
	var rec func(val reflect.Value, path string, depth int)
	rec = func(val reflect.Value, path string, depth int) {
		if depth > 40 || !val.IsValid() {
			return
		}
		switch val.Kind() {
		case reflect.Interface, reflect.Pointer:
			if !val.IsNil() {
				rec(val.Elem(), path, depth+1)
			}
		case reflect.Struct:
			if val.Type() == reflect.TypeOf(time.Time{}) || val.Type().String() == "big.Int" {
				return
			}
			for i := 0; i < val.NumField(); i++ {
				if val.Type().Field(i).IsExported() {
					rec(val.Field(i), path+"."+val.Type().Field(i).Name, depth+1)
				}
			}
		case reflect.Array, reflect.Slice:
			if val.Type().Elem().Kind() == reflect.Uint8 {
				if val.Len() == 0 || !val.Index(0).CanSet() {
					return
				}
				v := val
				out = append(out, Leaf{path, func(bit int) {
					e := v.Index((bit / 8) % v.Len())
					e.SetUint(e.Uint() ^ (1 << uint(bit%8)))
				}})
				return
			}
			for i := 0; i < val.Len(); i++ {
				rec(val.Index(i), fmt.Sprintf("%s[%d]", path, i), depth+1)
			}
		case reflect.Uint8, reflect.Uint16, reflect.Uint32, reflect.Uint64, reflect.Uint:
			if val.CanSet() {
				v := val
				out = append(out, Leaf{path, func(bit int) {
					if bit%2 == 0 {
						v.SetUint(v.Uint() + 1)
					} else {
						v.SetUint(v.Uint() ^ (1 << uint(bit%16)))
					}
				}})
			}
		case reflect.Int8, reflect.Int16, reflect.Int32, reflect.Int64, reflect.Int:
			if val.CanSet() {
				v := val
				out = append(out, Leaf{path, func(int) { v.SetInt(v.Int() + 1) }})
			}
		case reflect.Bool:
			if val.CanSet() {
				v := val
				out = append(out, Leaf{path, func(int) { v.SetBool(!v.Bool()) }})
			}
		}
	}
	rec(reflect.ValueOf(p), "", 0)
	return out
}

// UintLeaf is a settable 64-bit unsigned scalar (slot, epoch, index, amount ...) inside a value.
type UintLeaf struct {
	Path string
	Set  func(uint64)
}

// Uint64Leaves enumerates, in declaration order, the settable uint64-kinded scalars reachable from the
// pointer p, except fork/format version selectors (their value decides how the rest is encoded) and
// anything inside byte containers. The first entries are the first fixed-size fields of the value,
// i.e. the leading bytes of its SSZ encoding.
func Uint64Leaves(p any) []UintLeaf {
	var out []UintLeaf
	var rec func(val reflect.Value, path string, depth int)
	rec = func(val reflect.Value, path string, depth int) {
		if depth > 40 || !val.IsValid() {
			return
		}
		switch val.Kind() {
		case reflect.Interface, reflect.Pointer:
			if !val.IsNil() {
				rec(val.Elem(), path, depth+1)
			}
		case reflect.Struct:
			if val.Type() == reflect.TypeOf(time.Time{}) || val.Type().String() == "big.Int" || val.Type().String() == "uint256.Int" {
				return
			}
			for i := 0; i < val.NumField(); i++ {
				f := val.Type().Field(i)
				if f.IsExported() && f.Name != "Version" {
					rec(val.Field(i), path+"."+f.Name, depth+1)
				}
			}
		case reflect.Array, reflect.Slice:
			if val.Type().Elem().Kind() == reflect.Uint8 {
				return
			}
			for i := 0; i < val.Len() && i < 4; i++ {
				rec(val.Index(i), fmt.Sprintf("%s[%d]", path, i), depth+1)
			}
		case reflect.Uint64:
			if val.CanSet() && !strings.Contains(val.Type().String(), "Version") {
				v := val
				out = append(out, UintLeaf{path, func(x uint64) { v.SetUint(x) }})
			}
		}
	}
	rec(reflect.ValueOf(p), "", 0)
	return out
}

// PtrTo returns a pointer to a fresh copy of v (so that its fields are addressable for Leaves).
func PtrTo(v any) any {
	p := reflect.New(reflect.TypeOf(v))
	p.Elem().Set(reflect.ValueOf(v))
	return p.Interface()
}

// Deref returns the value a pointer made by PtrTo points to.
func Deref(p any) any { return reflect.ValueOf(p).Elem().Interface() }
