// C20 — the duties cache answers exactly what the beacon node would answer.
//
// Model-based: production eth2wrap.NewDutiesCache over the scripted beacon node; every answer is
// compared, as a multiset, with the beacon node's direct answer for the same epoch and index set.
package c20

import (
	"context"
	"encoding/json"
	"fmt"
	"sort"
	"strings"
	"testing"

	eth2api "github.com/attestantio/go-eth2-client/api"
	eth2v1 "github.com/attestantio/go-eth2-client/api/v1"
	eth2p0 "github.com/attestantio/go-eth2-client/spec/phase0"
	"pgregory.net/rapid"

	"github.com/obolnetwork/charon/app/eth2wrap"

	"verifharness/fakebn"
	"verifharness/valgen"
	"verifharness/vstat"
)

func TestMain(m *testing.M) { vstat.Main(m) }

const rule = "6-10 validator indices, 4+ epochs, per epoch attester (0..1 per validator), proposer (0..3 per validator) and sync-committee (0..1, with index lists) tables; operation sequences: request(type, epoch, explicit non-empty index set: overlapping, disjoint, repeated, singletons then all), empty request (= all active), UpdateActiveValIndices, InvalidateCache(epoch) together with a change of the tables above that epoch, Trim(epoch), mutation of a previously returned result, beacon error injection; " +
	"oracle: every answer equals as a multiset the beacon node's direct answer for the same epoch and index set; after invalidation / trim the next request for an affected epoch reaches the beacon node; mutating a returned result changes no later answer; the caller's index slice is untouched; " +
	"non-trivial = >=1 partial hit (amend path), or a validator with 0 or >=2 duties, or an invalidation; distinct by op trace"

func pubkeyOf(i eth2p0.ValidatorIndex) eth2p0.BLSPubKey {
	var p eth2p0.BLSPubKey
	p[0], p[1] = byte(i), byte(i>>8)
	return p
}

func canon(list []string) string {
	sort.Strings(list)
	return strings.Join(list, "\n")
}

func js(v any) string {
	b, err := json.Marshal(v)
	if err != nil {
		panic("HARNESS-ERROR: " + err.Error())
	}
	return string(b)
}

func TestC20Model(t *testing.T) {
	vstat.Rule("C20", rule)
	vstat.Assume("requests carry explicit index sets (no duplicates inside one request) or are empty (= all active validators, non-empty); the duty tables of an epoch only change together with an InvalidateCache that covers the epoch (reorg)")
	ctx := context.Background()
	rapid.Check(t, func(rt *rapid.T) {
		nVals := rapid.IntRange(6, 10).Draw(rt, "validators")
		nEpochs := rapid.IntRange(4, 8).Draw(rt, "epochs")
		bn := fakebn.New()
		var all []eth2p0.ValidatorIndex
		for i := 0; i < nVals; i++ {
			all = append(all, eth2p0.ValidatorIndex(10+i))
		}
		tables := fakebn.NewDutyTables()
		version := 0
		fill := func(e eth2p0.Epoch) {
			version++
			tables.Att[e] = map[eth2p0.ValidatorIndex]eth2v1.AttesterDuty{}
			tables.Sync[e] = map[eth2p0.ValidatorIndex]eth2v1.SyncCommitteeDuty{}
			tables.Pro[e] = nil
			for _, v := range all {
				if rapid.IntRange(0, 4).Draw(rt, "att?") != 0 {
					tables.Att[e][v] = eth2v1.AttesterDuty{PubKey: pubkeyOf(v), Slot: eth2p0.Slot(uint64(e)*8 + uint64(rapid.IntRange(0, 7).Draw(rt, "attSlot"))), ValidatorIndex: v, CommitteeIndex: eth2p0.CommitteeIndex(version), CommitteeLength: 8, CommitteesAtSlot: 4}
				}
				for k := rapid.IntRange(0, 3).Draw(rt, "nPro"); k > 0 && rapid.IntRange(0, 2).Draw(rt, "pro?") == 0; k-- {
					tables.Pro[e] = append(tables.Pro[e], eth2v1.ProposerDuty{PubKey: pubkeyOf(v), Slot: eth2p0.Slot(uint64(e)*8 + uint64(rapid.IntRange(0, 7).Draw(rt, "proSlot"))), ValidatorIndex: v})
				}
				if rapid.IntRange(0, 2).Draw(rt, "sync?") == 0 {
					tables.Sync[e][v] = eth2v1.SyncCommitteeDuty{PubKey: pubkeyOf(v), ValidatorIndex: v, ValidatorSyncCommitteeIndices: []eth2p0.CommitteeIndex{eth2p0.CommitteeIndex(version), eth2p0.CommitteeIndex(uint64(v) % 7)}}
				}
			}
		}
		for e := 0; e < nEpochs; e++ {
			fill(eth2p0.Epoch(e))
		}
		bn.SetDuties(tables)
		active := append([]eth2p0.ValidatorIndex{}, all[:rapid.IntRange(1, nVals).Draw(rt, "nActive")]...)
		cache := eth2wrap.NewDutiesCache(bn, append([]eth2p0.ValidatorIndex{}, active...))

		direct := func(kind string, e eth2p0.Epoch, idx []eth2p0.ValidatorIndex) string {
			var out []string
			set := map[eth2p0.ValidatorIndex]bool{}
			for _, i := range idx {
				set[i] = true
			}
			switch kind {
			case "attester":
				for v, d := range tables.Att[e] {
					if set[v] {
						out = append(out, js(&d))
					}
				}
			case "proposer":
				for _, d := range tables.Pro[e] {
					if set[d.ValidatorIndex] {
						out = append(out, js(&d))
					}
				}
			default:
				for v, d := range tables.Sync[e] {
					if set[v] {
						out = append(out, js(&d))
					}
				}
			}
			return canon(out)
		}
		// which (kind, epoch) pairs must hit the beacon node on the next request
		mustRefetch := map[string]bool{}
		requested := map[string]map[eth2p0.ValidatorIndex]bool{} // kind/epoch -> indices known to the cache (model)
		var held []any                                           // previously returned results (for mutation)
		var heldIdx [][]eth2p0.ValidatorIndex                    // index slices the caller passed earlier (it may reuse or overwrite them afterwards)
		callerBuf := make([]eth2p0.ValidatorIndex, 0, 16)        // a caller that builds every request in one buffer
		var trace []string
		partialHit, oddCount, invalidated := false, false, false
		inFlightReorgs, staleWrites := 0, 0

		nOps := rapid.IntRange(1, 30).Draw(rt, "nOps")
		for op := 0; op < nOps; op++ {
			switch c := rapid.IntRange(0, 19).Draw(rt, "op"); {
			case c < 12: // request
				kind := rapid.SampledFrom([]string{"attester", "proposer", "sync"}).Draw(rt, "kind")
				e := eth2p0.Epoch(rapid.IntRange(0, nEpochs-1).Draw(rt, "epoch"))
				var idx []eth2p0.ValidatorIndex
				mode := rapid.IntRange(0, 5).Draw(rt, "idxMode")
				switch mode {
				case 0: // empty = all active
				case 1:
					idx = []eth2p0.ValidatorIndex{all[rapid.IntRange(0, nVals-1).Draw(rt, "single")]}
				case 2:
					idx = append(idx, all...)
				default:
					mask := rapid.IntRange(1, (1<<nVals)-1).Draw(rt, "mask")
					for i, v := range all {
						if mask&(1<<i) != 0 {
							idx = append(idx, v)
						}
					}
					if rapid.Bool().Draw(rt, "shuffle") {
						for i, j := 0, len(idx)-1; i < j; i, j = i+1, j-1 {
							idx[i], idx[j] = idx[j], idx[i]
						}
					}
				}
				if len(idx) > 0 && rapid.IntRange(0, 2).Draw(rt, "reuseBuffer") == 0 {
					// the request is built in the buffer earlier requests were built in (their content is overwritten)
					idx = append(callerBuf[:0], idx...)
					trace = append(trace, "reused_index_buffer")
				}
				effective := append([]eth2p0.ValidatorIndex{}, idx...)
				if len(idx) == 0 {
					effective = active
				}
				key := fmt.Sprintf("%s/%d", kind, e)
				callerCopy := append([]eth2p0.ValidatorIndex{}, idx...)
				callsBefore := bn.CallCount(kind)
				failNow := rapid.IntRange(0, 14).Draw(rt, "fail") == 0
				if failNow {
					bn.Fail(kind, 1)
				}
				// a reorg that happens while this request's beacon call is on its way back: the beacon node has
				// answered from the tables as they were, the tables above a drawn epoch change and the cache is
				// invalidated (the SSE handler runs concurrently with the request), then the answer arrives
				wantBefore := direct(kind, e, effective)
				reorgInFlight, reorgFired, reorgEpoch := rapid.IntRange(0, 7).Draw(rt, "reorgInFlight") == 0, false, eth2p0.Epoch(0)
				if reorgInFlight {
					reorgEpoch = eth2p0.Epoch(rapid.IntRange(0, nEpochs-1).Draw(rt, "inFlightReorgEpoch"))
					bn.AfterAnswer = func(string, eth2p0.Epoch) {
						if reorgFired {
							return
						}
						reorgFired = true
						for x := int(reorgEpoch) + 1; x < nEpochs; x++ {
							fill(eth2p0.Epoch(x))
							for _, kind := range []string{"attester", "proposer", "sync"} {
								key := fmt.Sprintf("%s/%d", kind, x)
								if requested[key] != nil {
									mustRefetch[key] = true
								}
								delete(requested, key)
							}
						}
						cache.InvalidateCache(ctx, reorgEpoch)
						invalidated = true
					}
				}
				var got []string
				var raw any
				var err error
				switch kind {
				case "attester":
					var r eth2wrap.AttesterDutyWithMeta
					r, err = cache.AttesterDutiesCache(ctx, e, idx)
					for _, d := range r.Duties {
						got = append(got, js(d))
					}
					raw = r.Duties
				case "proposer":
					var r eth2wrap.ProposerDutyWithMeta
					r, err = cache.ProposerDutiesCache(ctx, e, idx)
					for _, d := range r.Duties {
						got = append(got, js(d))
					}
					raw = r.Duties
				default:
					var r eth2wrap.SyncDutyWithMeta
					r, err = cache.SyncCommDutiesCache(ctx, e, idx)
					for _, d := range r.Duties {
						got = append(got, js(d))
					}
					raw = r.Duties
				}
				bn.Fail(kind, 0)
				bn.AfterAnswer = nil
				calls := bn.CallCount(kind) - callsBefore
				trace = append(trace, fmt.Sprintf("req(%s,e%d,%d idx)->%d calls err=%v", kind, e, len(idx), calls, err != nil))
				if reorgFired {
					inFlightReorgs++
					trace = append(trace, fmt.Sprintf("reorg_while_in_flight(invalidate e%d)", reorgEpoch))
				}
				if fmt.Sprint(callerCopy) != fmt.Sprint(idx) {
					rt.Fatalf("the caller's index slice was modified: %v -> %v", callerCopy, idx)
				}
				if err != nil {
					if !failNow || calls == 0 {
						rt.Fatalf("request failed although the beacon node did not: %v (trace %v)", err, trace)
					}
					continue // a failed beacon call: nothing to compare, nothing cached
				}
				if reorgFired {
					// this request was answered by the beacon node before the reorg
					if canon(got) != wantBefore {
						rt.Fatalf("WRONG ANSWER: %s duties epoch %d for %v (reorg while the answer was on its way)\n cache: %s\n beacon (before the reorg): %s\n trace %v", kind, e, effective, canon(got), wantBefore, trace)
					}
					if e > reorgEpoch {
						// what it carried is older than the invalidation: the epoch has to be fetched afresh
						if requested[key] != nil || true {
							mustRefetch[key] = true
						}
						delete(requested, key)
						staleWrites++
						continue
					}
				} else if want := direct(kind, e, effective); canon(got) != want {
					rt.Fatalf("WRONG ANSWER: %s duties epoch %d for %v\n cache: %s\n beacon: %s\n trace %v", kind, e, effective, canon(got), want, trace)
				}
				known := requested[key]
				missing := 0
				for _, i := range effective {
					if !known[i] {
						missing++
					}
				}
				if mustRefetch[key] && calls == 0 {
					rt.Fatalf("STALE: %s epoch %d was invalidated / trimmed but the next request did not reach the beacon node (trace %v)", kind, e, trace)
				}
				if missing > 0 && calls == 0 {
					rt.Fatalf("indices never requested before were answered without a beacon call (trace %v)", trace)
				}
				if known != nil && missing > 0 && missing < len(effective) {
					partialHit = true
				}
				delete(mustRefetch, key)
				if requested[key] == nil {
					requested[key] = map[eth2p0.ValidatorIndex]bool{}
				}
				for _, i := range effective {
					requested[key][i] = true
				}
				counts := map[string]int{}
				for _, g := range got {
					var d struct {
						V string `json:"validator_index"`
					}
					_ = json.Unmarshal([]byte(g), &d)
					counts[d.V]++
				}
				for _, n := range counts {
					if n >= 2 {
						oddCount = true
					}
				}
				if len(counts) < len(effective) {
					oddCount = true
				}
				if len(held) < 6 {
					held = append(held, raw)
				}
				if len(idx) > 0 && len(heldIdx) < 6 {
					heldIdx = append(heldIdx, idx)
				}
			case c < 14: // a caller scribbles over a result it received earlier
				if len(held) == 0 {
					continue
				}
				valgen.Scribble(held[rapid.IntRange(0, len(held)-1).Draw(rt, "held")])
				trace = append(trace, "mutate_result")
				if len(heldIdx) > 0 && rapid.Bool().Draw(rt, "overwriteOwnIndexSlice") {
					// ... and over an index slice it passed earlier (its own memory)
					own := heldIdx[rapid.IntRange(0, len(heldIdx)-1).Draw(rt, "heldIdx")]
					for i := range own {
						own[i] = 9000 + eth2p0.ValidatorIndex(i)
					}
					trace = append(trace, "overwrite_own_index_slice")
				}
			case c < 16:
				active = append([]eth2p0.ValidatorIndex{}, all[:rapid.IntRange(1, nVals).Draw(rt, "nActive2")]...)
				cache.UpdateActiveValIndices(append([]eth2p0.ValidatorIndex{}, active...))
				trace = append(trace, fmt.Sprintf("active=%d", len(active)))
			case c < 18: // reorg: tables above the epoch change, cache invalidated
				e := eth2p0.Epoch(rapid.IntRange(0, nEpochs-1).Draw(rt, "reorgEpoch"))
				for x := int(e) + 1; x < nEpochs; x++ {
					fill(eth2p0.Epoch(x))
					for _, kind := range []string{"attester", "proposer", "sync"} {
						key := fmt.Sprintf("%s/%d", kind, x)
						if requested[key] != nil {
							mustRefetch[key] = true
						}
						delete(requested, key)
					}
				}
				cache.InvalidateCache(ctx, e)
				invalidated = true
				trace = append(trace, fmt.Sprintf("invalidate(e%d)", e))
			default: // trim
				e := eth2p0.Epoch(rapid.IntRange(0, nEpochs+2).Draw(rt, "trimEpoch"))
				cache.Trim(e)
				if e >= 3 {
					for x := 0; x < int(e)-3; x++ {
						for _, kind := range []string{"attester", "proposer", "sync"} {
							key := fmt.Sprintf("%s/%d", kind, x)
							if requested[key] != nil {
								mustRefetch[key] = true
							}
							delete(requested, key)
						}
					}
				}
				trace = append(trace, fmt.Sprintf("trim(e%d)", e))
			}
		}
		nontrivial := partialHit || oddCount || invalidated
		vstat.Case(strings.Join(trace, ";"), nontrivial, cls("partial_hit", partialHit), cls("validator_with_0_or_2+_duties", oddCount), cls("invalidation", invalidated), cls("reorg_while_a_request_was_in_flight", inFlightReorgs > 0), cls("in_flight_answer_older_than_invalidation", staleWrites > 0))
		if partialHit && invalidated && vstat.WantSample("history") {
			vstat.Sample("history", map[string]any{"validators": nVals, "epochs": nEpochs, "ops": trace})
		}
	})
}

func cls(name string, on bool) string {
	if on {
		return name
	}
	return ""
}

var _ = eth2api.AttesterDutiesOpts{}
