// Plain regression checks for C20 (no generator): the shrunk failures found earlier, replayed directly.
package c20

import (
	"context"
	"testing"

	eth2v1 "github.com/attestantio/go-eth2-client/api/v1"
	eth2p0 "github.com/attestantio/go-eth2-client/spec/phase0"

	"github.com/obolnetwork/charon/app/eth2wrap"

	"verifharness/fakebn"
	"verifharness/vstat"
)

func TestC20Regression(t *testing.T) {
	vstat.Rule("C20", rule)
	ctx := context.Background()
	bn := fakebn.New()
	tables := fakebn.NewDutyTables()
	all := []eth2p0.ValidatorIndex{10, 11, 12}
	tables.Att[0] = map[eth2p0.ValidatorIndex]eth2v1.AttesterDuty{}
	tables.Sync[0] = map[eth2p0.ValidatorIndex]eth2v1.SyncCommitteeDuty{}
	for _, v := range all {
		tables.Att[0][v] = eth2v1.AttesterDuty{PubKey: pubkeyOf(v), Slot: eth2p0.Slot(v % 8), ValidatorIndex: v, CommitteeLength: 8, CommitteesAtSlot: 4}
		tables.Sync[0][v] = eth2v1.SyncCommitteeDuty{PubKey: pubkeyOf(v), ValidatorIndex: v, ValidatorSyncCommitteeIndices: []eth2p0.CommitteeIndex{1, eth2p0.CommitteeIndex(v)}}
	}
	tables.Pro[0] = []eth2v1.ProposerDuty{{PubKey: pubkeyOf(10), Slot: 1, ValidatorIndex: 10}, {PubKey: pubkeyOf(10), Slot: 5, ValidatorIndex: 10}, {PubKey: pubkeyOf(11), Slot: 2, ValidatorIndex: 11}}
	bn.SetDuties(tables)

	// (1) fixed 5782646: sync duties shared the index slice with the caller
	cache := eth2wrap.NewDutiesCache(bn, append([]eth2p0.ValidatorIndex{}, all...))
	r1, err := cache.SyncCommDutiesCache(ctx, 0, all)
	if err != nil {
		t.Fatal(err)
	}
	want := js(r1.Duties)
	for _, d := range r1.Duties {
		for i := range d.ValidatorSyncCommitteeIndices {
			d.ValidatorSyncCommitteeIndices[i] = 99
		}
	}
	r2, err := cache.SyncCommDutiesCache(ctx, 0, all)
	if err != nil {
		t.Fatal(err)
	}
	if js(r2.Duties) != want {
		t.Fatalf("WRONG ANSWER: a caller changed ValidatorSyncCommitteeIndices of a returned duty and the next answer changed with it\n first: %s\n later: %s", want, js(r2.Duties))
	}

	// (2) seed C20-7: the cache kept the caller's index slice as its record of what it had fetched
	cache = eth2wrap.NewDutiesCache(bn, append([]eth2p0.ValidatorIndex{}, all...))
	buf := make([]eth2p0.ValidatorIndex, 0, 8)
	req := append(buf[:0], 10)
	if _, err := cache.AttesterDutiesCache(ctx, 0, req); err != nil {
		t.Fatal(err)
	}
	req = append(buf[:0], 11) // the caller builds its next request in the same buffer
	r3, err := cache.AttesterDutiesCache(ctx, 0, req)
	if err != nil {
		t.Fatal(err)
	}
	if len(r3.Duties) != 1 || r3.Duties[0].ValidatorIndex != 11 {
		t.Fatalf("WRONG ANSWER: attester duties for [11] after the caller reused its index buffer: %s", js(r3.Duties))
	}

	// (3) seed C20-8: a validator with two proposals in an epoch, asked for again from the cache
	cache = eth2wrap.NewDutiesCache(bn, append([]eth2p0.ValidatorIndex{}, all...))
	if _, err := cache.ProposerDutiesCache(ctx, 0, all); err != nil {
		t.Fatal(err)
	}
	r4, err := cache.ProposerDutiesCache(ctx, 0, []eth2p0.ValidatorIndex{10, 11})
	if err != nil {
		t.Fatal(err)
	}
	if len(r4.Duties) != 3 {
		t.Fatalf("WRONG ANSWER: proposer duties for [10 11] from the cache: %s", js(r4.Duties))
	}
	// (4) fixed fb98e25: an answer that was on its way back while a reorg invalidated the cache was cached afterwards
	for _, kind := range []string{"attester", "proposer", "sync"} {
		tables.Att[1] = map[eth2p0.ValidatorIndex]eth2v1.AttesterDuty{10: {PubKey: pubkeyOf(10), Slot: 9, ValidatorIndex: 10, CommitteeLength: 8, CommitteesAtSlot: 4}}
		tables.Pro[1] = []eth2v1.ProposerDuty{{PubKey: pubkeyOf(10), Slot: 9, ValidatorIndex: 10}}
		tables.Sync[1] = map[eth2p0.ValidatorIndex]eth2v1.SyncCommitteeDuty{10: {PubKey: pubkeyOf(10), ValidatorIndex: 10, ValidatorSyncCommitteeIndices: []eth2p0.CommitteeIndex{3}}}
		cache = eth2wrap.NewDutiesCache(bn, append([]eth2p0.ValidatorIndex{}, all...))
		ask := func() (string, error) {
			switch kind {
			case "attester":
				r, err := cache.AttesterDutiesCache(ctx, 1, []eth2p0.ValidatorIndex{10})
				return js(r.Duties), err
			case "proposer":
				r, err := cache.ProposerDutiesCache(ctx, 1, []eth2p0.ValidatorIndex{10})
				return js(r.Duties), err
			}
			r, err := cache.SyncCommDutiesCache(ctx, 1, []eth2p0.ValidatorIndex{10})
			return js(r.Duties), err
		}
		bn.AfterAnswer = func(string, eth2p0.Epoch) {
			bn.AfterAnswer = nil
			// the chain reorgs back to epoch 0: validator 10 loses its epoch 1 duties, 11 gets them
			tables.Att[1] = map[eth2p0.ValidatorIndex]eth2v1.AttesterDuty{11: {PubKey: pubkeyOf(11), Slot: 10, ValidatorIndex: 11, CommitteeLength: 8, CommitteesAtSlot: 4}}
			tables.Pro[1] = []eth2v1.ProposerDuty{{PubKey: pubkeyOf(11), Slot: 10, ValidatorIndex: 11}}
			tables.Sync[1] = map[eth2p0.ValidatorIndex]eth2v1.SyncCommitteeDuty{11: {PubKey: pubkeyOf(11), ValidatorIndex: 11, ValidatorSyncCommitteeIndices: []eth2p0.CommitteeIndex{4}}}
			cache.InvalidateCache(ctx, 0)
		}
		if _, err := ask(); err != nil {
			t.Fatal(err)
		}
		calls := bn.CallCount(kind)
		later, err := ask()
		if err != nil {
			t.Fatal(err)
		}
		if bn.CallCount(kind) == calls || (later != "[]" && later != "null") {
			t.Fatalf("STALE: %s duties of epoch 1 were requested, the chain reorged back to epoch 0 while the answer was on its way (cache invalidated), and the next request was answered %s with %d beacon calls; the beacon node now reports no duty for validator 10", kind, later, bn.CallCount(kind)-calls)
		}
	}
	vstat.Case("regression-c20", true, "regression")
}
