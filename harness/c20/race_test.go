package c20

import (
	"context"
	"fmt"
	"sync"
	"sync/atomic"
	"testing"
	"time"

	eth2v1 "github.com/attestantio/go-eth2-client/api/v1"
	eth2p0 "github.com/attestantio/go-eth2-client/spec/phase0"
	"pgregory.net/rapid"

	"github.com/obolnetwork/charon/app/eth2wrap"

	"verifharness/fakebn"
	"verifharness/valgen"
	"verifharness/vstat"
)

// TestC20Threads covers the "concurrent callers" clause on real threads (also built with -race in the
// thorough tier): with fixed duty tables, 2..8 goroutines issue drawn requests (type, epoch, index
// subset) at once, some of them scribbling over what they received, interleaved with Trim calls for old
// epochs. Oracle: every answer equals, as a multiset, the beacon node's direct answer for that request.
func TestC20Threads(t *testing.T) {
	vstat.Rule("C20", "threads: fixed duty tables; 2..8 goroutines x 3..12 drawn requests (type, epoch, index subset) at once, callers scribble over results, concurrent Trim of old epochs; every answer must equal the beacon node's direct answer; non-trivial = two goroutines request the same (type, epoch) with different index sets")
	ctx := context.Background()
	rapid.Check(t, func(rt *rapid.T) {
		nVals := rapid.IntRange(4, 9).Draw(rt, "validators")
		nEpochs := rapid.IntRange(5, 8).Draw(rt, "epochs")
		bn := fakebn.New()
		var all []eth2p0.ValidatorIndex
		for i := 0; i < nVals; i++ {
			all = append(all, eth2p0.ValidatorIndex(10+i))
		}
		tables := fakebn.NewDutyTables()
		for e := eth2p0.Epoch(0); e < eth2p0.Epoch(nEpochs); e++ {
			tables.Att[e] = map[eth2p0.ValidatorIndex]eth2v1.AttesterDuty{}
			tables.Sync[e] = map[eth2p0.ValidatorIndex]eth2v1.SyncCommitteeDuty{}
			for _, v := range all {
				if rapid.IntRange(0, 4).Draw(rt, "att?") != 0 {
					tables.Att[e][v] = eth2v1.AttesterDuty{PubKey: pubkeyOf(v), Slot: eth2p0.Slot(uint64(e)*8 + uint64(v)%8), ValidatorIndex: v, CommitteeIndex: eth2p0.CommitteeIndex(e), CommitteeLength: 8, CommitteesAtSlot: 4}
				}
				if rapid.IntRange(0, 2).Draw(rt, "pro?") == 0 {
					tables.Pro[e] = append(tables.Pro[e], eth2v1.ProposerDuty{PubKey: pubkeyOf(v), Slot: eth2p0.Slot(uint64(e)*8 + uint64(v)%8), ValidatorIndex: v})
				}
				if rapid.IntRange(0, 2).Draw(rt, "sync?") == 0 {
					tables.Sync[e][v] = eth2v1.SyncCommitteeDuty{PubKey: pubkeyOf(v), ValidatorIndex: v, ValidatorSyncCommitteeIndices: []eth2p0.CommitteeIndex{eth2p0.CommitteeIndex(e), eth2p0.CommitteeIndex(uint64(v) % 7)}}
				}
			}
		}
		bn.SetDuties(tables)
		cache := eth2wrap.NewDutiesCache(bn, append([]eth2p0.ValidatorIndex{}, all...))
		direct := func(kind string, e eth2p0.Epoch, idx []eth2p0.ValidatorIndex) string {
			var out []string
			set := map[eth2p0.ValidatorIndex]bool{}
			for _, i := range idx {
				set[i] = true
			}
			switch kind {
			case "attester":
				for v, d := range tables.Att[e] {
					if set[v] {
						out = append(out, js(&d))
					}
				}
			case "proposer":
				for _, d := range tables.Pro[e] {
					if set[d.ValidatorIndex] {
						out = append(out, js(&d))
					}
				}
			default:
				for v, d := range tables.Sync[e] {
					if set[v] {
						out = append(out, js(&d))
					}
				}
			}
			return canon(out)
		}
		type req struct {
			kind     string
			e        eth2p0.Epoch
			idx      []eth2p0.ValidatorIndex
			scribble bool
		}
		g := rapid.IntRange(2, 8).Draw(rt, "goroutines")
		plans := make([][]req, g)
		seen := map[string]string{}
		contended := false
		for gi := range plans {
			for k := rapid.IntRange(3, 12).Draw(rt, "requests"); k > 0; k-- {
				r := req{kind: rapid.SampledFrom([]string{"attester", "proposer", "sync"}).Draw(rt, "kind"), e: eth2p0.Epoch(rapid.IntRange(2, nEpochs-1).Draw(rt, "epoch")), scribble: rapid.IntRange(0, 2).Draw(rt, "scribble") == 0}
				mask := rapid.IntRange(1, (1<<nVals)-1).Draw(rt, "mask")
				for i, v := range all {
					if mask&(1<<i) != 0 {
						r.idx = append(r.idx, v)
					}
				}
				key := fmt.Sprintf("%s/%d", r.kind, r.e)
				if prev, ok := seen[key]; ok && prev != fmt.Sprint(gi, r.idx) {
					contended = true
				}
				seen[key] = fmt.Sprint(gi, r.idx)
				plans[gi] = append(plans[gi], r)
			}
		}
		trimmer := rapid.Bool().Draw(rt, "trimmer")
		var wg sync.WaitGroup
		start := make(chan struct{})
		errs := make(chan string, 64)
		for gi := range plans {
			wg.Add(1)
			go func() {
				defer wg.Done()
				<-start
				for _, r := range plans[gi] {
					var got []string
					var raw any
					var err error
					idx := append([]eth2p0.ValidatorIndex{}, r.idx...)
					switch r.kind {
					case "attester":
						var res eth2wrap.AttesterDutyWithMeta
						res, err = cache.AttesterDutiesCache(ctx, r.e, idx)
						for _, d := range res.Duties {
							got = append(got, js(d))
						}
						raw = res.Duties
					case "proposer":
						var res eth2wrap.ProposerDutyWithMeta
						res, err = cache.ProposerDutiesCache(ctx, r.e, idx)
						for _, d := range res.Duties {
							got = append(got, js(d))
						}
						raw = res.Duties
					default:
						var res eth2wrap.SyncDutyWithMeta
						res, err = cache.SyncCommDutiesCache(ctx, r.e, idx)
						for _, d := range res.Duties {
							got = append(got, js(d))
						}
						raw = res.Duties
					}
					if err != nil {
						errs <- fmt.Sprintf("request %s e%d %v failed: %v", r.kind, r.e, r.idx, err)
						return
					}
					if want := direct(r.kind, r.e, r.idx); canon(got) != want {
						errs <- fmt.Sprintf("WRONG ANSWER (concurrent callers): %s duties epoch %d for %v\n cache: %s\n beacon: %s", r.kind, r.e, r.idx, canon(got), want)
						return
					}
					if fmt.Sprint(idx) != fmt.Sprint(r.idx) {
						errs <- "the caller's index slice was modified"
						return
					}
					if r.scribble {
						valgen.Scribble(raw)
					}
				}
			}()
		}
		if trimmer {
			wg.Add(1)
			go func() {
				defer wg.Done()
				<-start
				for i := 0; i < 6; i++ {
					cache.Trim(4) // drops epochs below 1: never requested here (requests start at epoch 2)
				}
			}()
		}
		var beats int64
		hbStop := make(chan struct{})
		go func() {
			tk := time.NewTicker(10 * time.Millisecond)
			defer tk.Stop()
			for {
				select {
				case <-tk.C:
					atomic.AddInt64(&beats, 1)
				case <-hbStop:
					return
				}
			}
		}()
		close(start)
		fin := make(chan struct{})
		go func() { wg.Wait(); close(fin) }()
		select {
		case <-fin:
			close(hbStop)
		case <-time.After(20 * time.Second):
			close(hbStop)
			if atomic.LoadInt64(&beats) < 700 {
				panic("HARNESS-ERROR: cache requests still running after 20 s of wall clock and the machine is starved")
			}
			rt.Fatalf("CACHE HANGS: concurrent duty requests did not return within 20 s although the machine was responsive (%d goroutines)", g)
		}
		close(errs)
		for e := range errs {
			rt.Fatalf("%s", e)
		}
		vstat.Case(fmt.Sprintf("threads/%d/%v", g, plans), contended, "threads", cls("threads_contended_key", contended))
	})
}
