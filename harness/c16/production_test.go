package c16

import (
	"context"
	"fmt"
	"testing"
	"testing/synctest"
	"time"

	"pgregory.net/rapid"

	"github.com/obolnetwork/charon/core"

	"verifharness/fakebn"
	"verifharness/vstat"
)

// TestC16Production runs the deadliner with the deadline function production builds for it
// (core.NewDutyDeadlineFunc over the beacon node's genesis time and slot configuration) on virtual time: duties of
// every type at drawn slots around "now", registered at drawn instants. The deadline of a duty is whatever that
// function states for it (it defines the duty's deadline, the property does not), so the oracle asks the function
// and states only the property: a duty the function calls never-expiring (the property names exits and builder
// registrations) is never reported and its registration is answered "exempt"; a duty registered before the stated
// deadline is reported exactly once, not before it and not before its slot has begun; one registered after it is
// refused and never reported.
func TestC16Production(t *testing.T) {
	vstat.Rule("C16", "production deadline function (core.NewDutyDeadlineFunc) under the production deadliner on virtual time: duties of every duty type at slots around the present, registered before / after their deadline, time advanced past every deadline; non-trivial = at least one never-expiring duty and one expiring duty registered in time")
	allTypes := []core.DutyType{core.DutyProposer, core.DutyAttester, core.DutySignature, core.DutyExit, core.DutyBuilderRegistration, core.DutyRandao,
		core.DutyPrepareAggregator, core.DutyAggregator, core.DutySyncMessage, core.DutyPrepareSyncContribution, core.DutySyncContribution, core.DutyInfoSync}
	rapid.Check(t, func(rt *rapid.T) {
		rapid.SyncTest(rt, func(rt *rapid.T) {
			spe := uint64(rapid.SampledFrom([]int{4, 8, 32}).Draw(rt, "slotsPerEpoch"))
			slotDur := time.Duration(rapid.SampledFrom([]int{2, 12}).Draw(rt, "slotSeconds")) * time.Second
			nowSlot := uint64(rapid.IntRange(3*int(spe), 5*int(spe)).Draw(rt, "nowSlot"))
			genesis := time.Now().Add(-time.Duration(nowSlot) * slotDur)
			bn := fakebn.NewCompact(genesis, slotDur, spe)
			ctx, cancel := context.WithCancel(context.Background())
			fn, err := core.NewDutyDeadlineFunc(ctx, bn)
			if err != nil {
				panic("HARNESS-ERROR: " + err.Error())
			}
			dl := core.NewDeadliner(ctx, "verif-production", fn)
			type rep struct {
				d  core.Duty
				at time.Time
			}
			var reports []rep
			done := make(chan struct{})
			go func() {
				defer close(done)
				for {
					select {
					case <-ctx.Done():
						return
					case d := <-dl.C():
						reports = append(reports, rep{d, time.Now()})
						if len(reports) > 500 {
							cancel()
							return
						}
					}
				}
			}()
			defer func() { cancel(); <-done; synctest.Wait() }()

			type reg struct {
				d      core.Duty
				status core.DeadlineStatus
				at     time.Time
			}
			var regs []reg
			seen := map[core.Duty]bool{}
			sameInstant := map[time.Time]int{}
			n := rapid.IntRange(1, 14).Draw(rt, "nDuties")
			var last time.Time
			anyExempt, anyInTime := false, false
			for i := 0; i < n; i++ {
				typ := allTypes[rapid.IntRange(0, len(allTypes)-1).Draw(rt, "type")]
				slot := nowSlot + uint64(rapid.IntRange(0, 2*int(spe)).Draw(rt, "slotAhead")) - uint64(rapid.IntRange(0, 3*int(spe)).Draw(rt, "slotBehind"))
				d := core.Duty{Slot: slot, Type: typ}
				if seen[d] {
					continue
				}
				dline, expires := fn(d)
				if expires {
					if sameInstant[dline] >= 8 { // the documented output buffer
						continue
					}
					sameInstant[dline]++
					if dline.After(last) {
						last = dline
					}
				}
				seen[d] = true
				if rapid.Bool().Draw(rt, "waitFirst") {
					time.Sleep(time.Duration(rapid.IntRange(1, 3000).Draw(rt, "wait_ms")) * time.Millisecond)
					synctest.Wait()
				}
				st := dl.Add(d)
				now := time.Now()
				regs = append(regs, reg{d, st, now})
				named := typ == core.DutyExit || typ == core.DutyBuilderRegistration // the types the property names
				switch {
				case !expires || named:
					anyExempt = true
					if st != core.DeadlineExempt {
						rt.Fatalf("NEVER-EXPIRING DUTY NOT EXEMPT: Add(%v) answered %v", d, st)
					}
				case now.Before(dline):
					anyInTime = true
					if st != core.DeadlineScheduled {
						rt.Fatalf("Add(%v) %v before its deadline answered %v, want scheduled", d, dline.Sub(now), st)
					}
				case now.After(dline):
					if st != core.DeadlineExpired {
						rt.Fatalf("LATE ADD ACCEPTED: Add(%v) %v after its deadline answered %v", d, now.Sub(dline), st)
					}
				}
				synctest.Wait()
			}
			if !last.IsZero() {
				time.Sleep(time.Until(last) + time.Minute)
			}
			time.Sleep(time.Hour)
			synctest.Wait()

			count := map[core.Duty]int{}
			for _, r := range reports {
				count[r.d]++
				dline, expires := fn(r.d)
				if !expires || r.d.Type == core.DutyExit || r.d.Type == core.DutyBuilderRegistration {
					rt.Fatalf("NEVER-EXPIRING DUTY REPORTED: %v reported as expired at %v", r.d, r.at)
				}
				if r.at.Before(dline) {
					rt.Fatalf("EARLY: %v reported %v before its deadline", r.d, dline.Sub(r.at))
				}
				if slotStart := genesis.Add(time.Duration(r.d.Slot) * slotDur); r.at.Before(slotStart) {
					rt.Fatalf("EARLY: %v reported before its slot began", r.d)
				}
			}
			for _, g := range regs {
				want := 0
				if g.status == core.DeadlineScheduled {
					want = 1
				}
				if count[g.d] != want {
					rt.Fatalf("REPORT COUNT: %v (Add answered %v) was reported %d times, want %d", g.d, g.status, count[g.d], want)
				}
			}
			vstat.Case(fmt.Sprintf("production/%d/%v/%d/%v", spe, slotDur, nowSlot, regs), anyExempt && anyInTime, "production_deadline_func", cls16("never_expiring_duty_registered", anyExempt), cls16("registered_in_time", anyInTime))
		})
	})
}

func cls16(name string, on bool) string {
	if on {
		return name
	}
	return ""
}
