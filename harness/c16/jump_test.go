package c16

import (
	"context"
	"fmt"
	"sync"
	"testing"
	"testing/synctest"
	"time"

	"github.com/jonboulle/clockwork"
	"pgregory.net/rapid"

	"github.com/obolnetwork/charon/core"

	"verifharness/vstat"
)

// TestC16ClockJumps covers "every progression of time" beyond what a virtual real clock can do: inside
// the bubble a real clock stops at every timer, so the deadliner never finds more than one deadline
// overdue when it recomputes its head. Here the deadliner runs on a clockwork fake clock (the
// constructor the repository exports for tests, same run loop) that the harness advances in jumps
// which may pass several distinct deadlines at once, as a paused process or a stepped system clock
// does. Same oracle: exactly once, not early, not before a duty with an earlier deadline, late adds
// refused. At most 8 duties become due per jump (10-slot output buffer, as in the main test).
func TestC16ClockJumps(t *testing.T) {
	vstat.Rule("C16", "clock jumps: Add / fake-clock jumps that pass 0..8 pending deadlines (several distinct instants at once) against the deadliner run loop on a clockwork fake clock; non-trivial = a jump passed >= 2 distinct pending deadlines")
	rapid.Check(t, func(rt *rapid.T) {
		rapid.SyncTest(rt, func(rt *rapid.T) { runJumps(t, rt) })
	})
}

func runJumps(t *testing.T, rt *rapid.T) {
	// the lattice's time unit: milliseconds up to hours (deadlines minutes or hours away behave like near ones)
	unit := rapid.SampledFrom([]time.Duration{10 * time.Millisecond, 10 * time.Millisecond, time.Second, 7 * time.Minute, 3 * time.Hour}).Draw(rt, "timeUnit")
	clock := clockwork.NewFakeClock()
	w := &world{base: clock.Now(), deadline: map[core.Duty]time.Duration{}}
	nDuties := rapid.IntRange(2, 24).Draw(rt, "nDuties")
	lattice := rapid.IntRange(2, 16).Draw(rt, "lattice")
	var duties []core.Duty
	perInstant := map[time.Duration]int{}
	for i := 0; i < nDuties; i++ {
		d := core.Duty{Slot: uint64(i), Type: expiring[rapid.IntRange(0, len(expiring)-1).Draw(rt, "tt")]}
		off := time.Duration(rapid.IntRange(1, lattice).Draw(rt, "dl")) * unit
		if perInstant[off] >= 8 {
			continue
		}
		perInstant[off]++
		w.deadline[d] = off
		duties = append(duties, d)
	}
	ctx, cancel := context.WithCancel(context.Background())
	dl := core.NewDeadlinerForT(ctx, t, w.fn, clock)
	var mu sync.Mutex
	var reports []report
	done := make(chan struct{})
	go func() {
		defer close(done)
		for {
			select {
			case <-ctx.Done():
				return
			case d := <-dl.C():
				mu.Lock()
				reports = append(reports, report{duty: d, at: clock.Now()})
				n := len(reports)
				mu.Unlock()
				if n > 4*nDuties+64 { // runaway guard (every op can legitimately add one report)
					cancel()
					return
				}
			}
		}
	}()
	defer func() { cancel(); <-done; synctest.Wait() }()

	pending := map[core.Duty]bool{}
	expected := map[core.Duty]int{}    // reports owed (lower bound once due)
	expectedMax := map[core.Duty]int{} // upper bound: a registration exactly at the deadline instant of a duty that is being reported at that very moment may or may not cause one more report
	var trace []string
	multiJump := false
	check := func() {
		mu.Lock()
		defer mu.Unlock()
		if len(reports) > 4*nDuties+64 {
			rt.Fatalf("a duty is reported again and again (trace %v)", trace)
		}
		now := clock.Now()
		got := map[core.Duty]int{}
		var prev time.Duration = -1
		var prevDuty core.Duty
		for _, r := range reports {
			got[r.duty]++
			off := w.deadline[r.duty]
			if r.at.Before(w.base.Add(off)) {
				rt.Fatalf("duty %v reported at +%v, before its deadline +%v (trace %v)", r.duty, r.at.Sub(w.base), off, trace)
			}
			if off < prev {
				rt.Fatalf("ORDER: duty %v (deadline +%v) reported after %v with the later deadline +%v (trace %v)", r.duty, off, prevDuty, prev, trace)
			}
			prev, prevDuty = off, r.duty
		}
		for d, n := range got {
			if n > expectedMax[d] {
				rt.Fatalf("duty %v reported %d times, expected at most %d (trace %v)", d, n, expectedMax[d], trace)
			}
		}
		for d := range pending {
			if !w.base.Add(w.deadline[d]).After(now) {
				if got[d] < expected[d] {
					rt.Fatalf("duty %v due at +%v, now +%v: reported %d times, want %d (trace %v)", d, w.deadline[d], now.Sub(w.base), got[d], expected[d], trace)
				}
				delete(pending, d)
			}
		}
	}
	nOps := rapid.IntRange(2, 40).Draw(rt, "nOps")
	forceAdd := false
	for i := 0; i < nOps; i++ {
		// after a jump that was not followed by quiescence the next operation is a registration (a second
		// jump would move the fake clock while the deadliner is between reading the time and arming its
		// next timer, which only makes that timer late by the size of the jump: an artefact of a clock
		// that moves in steps, not a behaviour of the deadliner)
		if !forceAdd && rapid.IntRange(0, 2).Draw(rt, "op") == 0 {
			// a jump: draw the target among the lattice instants (and between them), capped so that at
			// most 8 pending duties become due
			now := clock.Now().Sub(w.base)
			target := now + time.Duration(rapid.IntRange(1, 2*lattice).Draw(rt, "jumpHalfUnits"))*unit/2
			for {
				due, instants := 0, map[time.Duration]bool{}
				for d := range pending {
					if off := w.deadline[d]; off <= target {
						due++
						instants[off] = true
					}
				}
				if due <= 8 {
					if len(instants) >= 2 {
						multiJump = true
					}
					break
				}
				target -= unit / 2
			}
			if target <= now {
				continue
			}
			clock.Advance(target - now)
			trace = append(trace, fmt.Sprintf("jump->+%v", target))
			if rapid.IntRange(0, 2).Draw(rt, "addRacesTimers") == 0 {
				// the next registration reaches the deadliner while the timers this jump made due are still
				// unhandled (its select may take either first)
				trace = append(trace, "nowait")
				forceAdd = true
				continue
			}
		} else {
			forceAdd = false
			d := duties[rapid.IntRange(0, len(duties)-1).Draw(rt, "duty")]
			now := clock.Now()
			status := dl.Add(d)
			off := w.deadline[d]
			switch {
			case now.After(w.base.Add(off)):
				if status != core.DeadlineExpired {
					rt.Fatalf("Add(%v) at +%v after deadline +%v: status %v, want Expired", d, now.Sub(w.base), off, status)
				}
				trace = append(trace, "addLate")
			case now.Before(w.base.Add(off)):
				if status != core.DeadlineScheduled {
					rt.Fatalf("Add(%v) before its deadline: status %v, want Scheduled", d, status)
				}
				if !pending[d] {
					pending[d] = true
					expected[d]++
					expectedMax[d]++
				}
				trace = append(trace, fmt.Sprintf("add(+%v)", off))
			default:
				if status == core.DeadlineScheduled {
					if !pending[d] {
						pending[d] = true
						expected[d]++
					}
					expectedMax[d]++
				}
				trace = append(trace, "addAt")
			}
		}
		synctest.Wait()
		check()
	}
	// run out the clock in jumps of at most 8 due duties
	synctest.Wait()
	check()
	for len(pending) > 0 {
		now := clock.Now().Sub(w.base)
		target := time.Duration(lattice+1) * unit
		for {
			due := 0
			for d := range pending {
				if w.deadline[d] <= target {
					due++
				}
			}
			if due <= 8 {
				break
			}
			target -= unit / 2
		}
		if target <= now {
			panic("HARNESS-ERROR: cannot advance")
		}
		clock.Advance(target - now)
		synctest.Wait()
		check()
	}
	vstat.Case(fmt.Sprintf("jumps/%v", trace), multiJump, "clock_jumps", cls("jump_over_several_deadlines", multiJump))
}
