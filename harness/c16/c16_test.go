// C16 — duty deadlines are reported exactly once, never early, never for late adds.
//
// Engine: rapid.SyncTest bubble around the production constructor core.NewDeadliner (real clock ==
// virtual clock inside the bubble). Oracle: reference model (pending set + expected reports).
package c16

import (
	"context"
	"fmt"
	"sort"
	"strings"
	"sync"
	"testing"
	"testing/synctest"
	"time"

	"pgregory.net/rapid"

	"github.com/obolnetwork/charon/core"

	"verifharness/vstat"
)

func TestMain(m *testing.M) { vstat.Main(m) }

const rule = "history of Add (with repeats; before / at / after the deadline; exempt types) and clock advances against core.NewDeadliner in a synctest bubble with a consumer that keeps reading; deadlines from a small lattice (ties, at most 8 per instant as the 10-slot output buffer documents); " +
	"non-trivial = an earlier deadline was added while a later one was armed, or >=2 pending duties shared a deadline, or a pending duty was re-added, or a late add was refused; distinct by (sorted deadline multiset, op-kind trace)"

type report struct {
	duty core.Duty
	at   time.Time
}

type world struct {
	base     time.Time
	deadline map[core.Duty]time.Duration // offset from base; absent = never expires
}

func (w *world) fn(d core.Duty) (time.Time, bool) {
	off, ok := w.deadline[d]
	if !ok {
		return time.Time{}, false
	}
	return w.base.Add(off), true
}

var expiring = []core.DutyType{core.DutyAttester, core.DutyProposer, core.DutyAggregator, core.DutySyncMessage, core.DutyRandao, core.DutyPrepareAggregator, core.DutySyncContribution}
var exempt = []core.DutyType{core.DutyExit, core.DutyBuilderRegistration}

func TestC16Deadliner(t *testing.T) {
	vstat.Rule("C16", rule)
	vstat.Assume("consumer keeps reading C(); at most 8 duties share one deadline instant (output buffer is 10 by design)")
	vstat.Assume("Add at exactly the deadline instant is unspecified by the property: Scheduled or Expired both accepted; if Scheduled it must then be reported")
	rapid.Check(t, func(rt *rapid.T) {
		rapid.SyncTest(rt, func(rt *rapid.T) { runCase(rt) })
	})
}

func runCase(rt *rapid.T) {
	// the lattice's time unit: milliseconds up to hours (deadlines minutes or hours away behave like near ones)
	unit := rapid.SampledFrom([]time.Duration{10 * time.Millisecond, 10 * time.Millisecond, time.Second, 7 * time.Minute, 3 * time.Hour}).Draw(rt, "timeUnit")
	w := &world{base: time.Now(), deadline: map[core.Duty]time.Duration{}}

	// Universe of duties with deadlines on a lattice.
	nDuties := rapid.IntRange(1, 30).Draw(rt, "nDuties")
	lattice := rapid.IntRange(1, 12).Draw(rt, "lattice")
	var duties []core.Duty
	perInstant := map[time.Duration]int{}
	for i := 0; i < nDuties; i++ {
		if rapid.IntRange(0, 9).Draw(rt, "exempt?") == 0 {
			d := core.Duty{Slot: uint64(1000 + i), Type: exempt[rapid.IntRange(0, len(exempt)-1).Draw(rt, "et")]}
			duties = append(duties, d)
			continue
		}
		off := time.Duration(rapid.IntRange(1, lattice).Draw(rt, "dl")) * unit
		if perInstant[off] >= 8 {
			continue
		}
		perInstant[off]++
		d := core.Duty{Slot: uint64(i), Type: expiring[rapid.IntRange(0, len(expiring)-1).Draw(rt, "tt")]}
		w.deadline[d] = off
		duties = append(duties, d)
	}
	if len(duties) == 0 {
		rt.Skip("no duties")
	}

	ctx, cancel := context.WithCancel(context.Background())
	dl := core.NewDeadliner(ctx, "verif", w.fn)

	var reports []report
	var mu sync.Mutex
	expected := map[core.Duty]int{} // number of reports owed in total
	var runaway *core.Duty
	done := make(chan struct{})
	go func() {
		defer close(done)
		for {
			select {
			case <-ctx.Done():
				return
			case d := <-dl.C():
				reports = append(reports, report{duty: d, at: time.Now()})
				// A duty that keeps being re-reported would keep the bubble busy forever: stop at once.
				mu.Lock()
				n := 0
				for _, r := range reports {
					if r.duty == d {
						n++
					}
				}
				over := n > expected[d]+1
				mu.Unlock()
				if over {
					runaway = &d
					cancel()
					return
				}
			}
		}
	}()
	defer func() {
		cancel()
		<-done
		synctest.Wait()
	}()

	// model
	pending := map[core.Duty]bool{}
	var trace []string
	var armedEarlier, tie, readd, late, exactAt bool

	check := func(final bool) {
		if runaway != nil {
			rt.Fatalf("duty %v reported again and again (trace %v)", *runaway, trace)
		}
		now := time.Now()
		got := map[core.Duty]int{}
		var prev time.Duration = -1
		for _, r := range reports {
			got[r.duty]++
			off, ok := w.deadline[r.duty]
			if !ok {
				rt.Fatalf("exempt duty %v reported", r.duty)
			}
			if r.at.Before(w.base.Add(off)) {
				rt.Fatalf("duty %v reported at +%v, before its deadline +%v", r.duty, r.at.Sub(w.base), off)
			}
			if off < prev {
				rt.Fatalf("duty %v (deadline +%v) reported after a duty with later deadline +%v", r.duty, off, prev)
			}
			prev = off
		}
		for d, n := range got {
			if n > expected[d] {
				rt.Fatalf("duty %v reported %d times, expected at most %d (trace %v)", d, n, expected[d], trace)
			}
		}
		for d := range pending {
			due := !w.base.Add(w.deadline[d]).After(now)
			if due {
				if got[d] != expected[d] {
					rt.Fatalf("duty %v due at +%v, now +%v: reported %d times, want %d (trace %v)", d, w.deadline[d], now.Sub(w.base), got[d], expected[d], trace)
				}
				delete(pending, d)
			} else if final {
				rt.Fatalf("internal: pending duty not due at the end")
			}
		}
	}

	nOps := rapid.IntRange(1, 60).Draw(rt, "nOps")
	for i := 0; i < nOps; i++ {
		switch rapid.IntRange(0, 9).Draw(rt, "op") {
		case 0, 1: // advance time
			steps := rapid.IntRange(1, 4).Draw(rt, "adv")
			if rapid.IntRange(0, 7).Draw(rt, "big") == 0 {
				steps = rapid.IntRange(1, 2*lattice).Draw(rt, "advBig")
			}
			half := rapid.Bool().Draw(rt, "half")
			d := time.Duration(steps) * unit / 2
			if half {
				d += unit / 4
			}
			time.Sleep(d)
			trace = append(trace, fmt.Sprintf("adv%v", d))
		default: // add
			d := duties[rapid.IntRange(0, len(duties)-1).Draw(rt, "duty")]
			now := time.Now()
			status := dl.Add(d)
			off, expiring := w.deadline[d]
			switch {
			case !expiring:
				if status != core.DeadlineExempt {
					rt.Fatalf("Add(%v) exempt type: status %v", d, status)
				}
				trace = append(trace, "addExempt")
			case now.After(w.base.Add(off)):
				if status != core.DeadlineExpired {
					rt.Fatalf("Add(%v) at +%v after deadline +%v: status %v, want Expired", d, now.Sub(w.base), off, status)
				}
				late = true
				trace = append(trace, "addLate")
			case now.Before(w.base.Add(off)):
				if status != core.DeadlineScheduled {
					rt.Fatalf("Add(%v) at +%v before deadline +%v: status %v, want Scheduled", d, now.Sub(w.base), off, status)
				}
				if pending[d] {
					readd = true
					trace = append(trace, "readd")
				} else {
					for p := range pending {
						if w.deadline[p] > off {
							armedEarlier = true
						}
						if w.deadline[p] == off {
							tie = true
						}
					}
					pending[d] = true
					mu.Lock()
					expected[d]++
					mu.Unlock()
					trace = append(trace, "add")
				}
			default: // exactly at the deadline: unspecified
				exactAt = true
				if status == core.DeadlineScheduled && !pending[d] {
					pending[d] = true
					mu.Lock()
					expected[d]++
					mu.Unlock()
				} else if status == core.DeadlineExempt {
					rt.Fatalf("Add(%v) expiring type: status Exempt", d)
				}
				trace = append(trace, "addAt")
			}
		}
		synctest.Wait()
		check(false)
	}
	// run out the clock
	time.Sleep(time.Duration(lattice+1) * unit)
	synctest.Wait()
	check(true)
	total := 0
	for _, n := range expected {
		total += n
	}
	if len(reports) != total {
		rt.Fatalf("%d reports, %d expected", len(reports), total)
	}

	nontrivial := armedEarlier || tie || readd || late
	var dls []int
	for _, d := range duties {
		if off, ok := w.deadline[d]; ok {
			dls = append(dls, int(off/unit))
		} else {
			dls = append(dls, -1)
		}
	}
	sort.Ints(dls)
	fp := fmt.Sprint(dls) + strings.Join(trace, ",")
	vstat.Case(fp, nontrivial, cls("armed_earlier", armedEarlier), cls("tie", tie), cls("readd", readd), cls("late_add", late), cls("exact_at_deadline", exactAt), cls("reported>=1", total > 0))
	if nontrivial && armedEarlier && tie && vstat.WantSample("earlier+tie") {
		vstat.Sample("earlier+tie", map[string]any{"deadlines_units": dls, "ops": trace, "reports": len(reports)})
	} else if readd && late && vstat.WantSample("readd+late") {
		vstat.Sample("readd+late", map[string]any{"deadlines_units": dls, "ops": trace, "reports": len(reports)})
	}
}

func cls(name string, on bool) string {
	if on {
		return name
	}
	return ""
}
