// C08 — threshold BLS: any t valid shares reproduce the group key's signature.
package c08

import (
	"bytes"
	"fmt"
	"math/bits"
	"testing"

	"pgregory.net/rapid"

	"github.com/obolnetwork/charon/tbls"

	"verifharness/vstat"
)

func TestMain(m *testing.M) { vstat.Main(m) }

const rule = "n in 2..10, 2<=t<=n, secret and polynomial from drawn bytes (ThresholdSplitInsecure) or the production CSPRNG split, message of 0..96 drawn bytes; every subset of size >= t for n <= 7 (64 drawn subsets for n >= 8): RecoverSecret = secret, RecoverPubkey(pubshares) = group key, ThresholdAggregate(partials) = Sign(secret,msg) byte for byte and verifies; " +
	"negatives per subset: one partial from the same index of another split, one partial filed under an index outside the subset, one partial over another message, one slot carrying the partial of another share of the same combination -> the combination must not verify; non-trivial = t < n and subset != {1..t}; distinct by (n,t,subset,kind,secret)"

type zeroReader struct{ b []byte }

func (z *zeroReader) Read(p []byte) (int, error) {
	for i := range p {
		if len(z.b) > 0 {
			p[i] = z.b[0]
			z.b = z.b[1:]
		} else {
			p[i] = byte(i*7 + 3)
		}
	}
	return len(p), nil
}

func TestC08Threshold(t *testing.T) {
	vstat.Rule("C08", rule)
	rapid.Check(t, func(rt *rapid.T) {
		n := rapid.IntRange(2, 10).Draw(rt, "n")
		thr := rapid.IntRange(2, n).Draw(rt, "t")
		msg := rapid.SliceOfN(rapid.Byte(), 0, 96).Draw(rt, "msg")
		entropy := rapid.SliceOfN(rapid.Byte(), 48, 48).Draw(rt, "entropy")
		secret, err := tbls.GenerateInsecureKey(t, &zeroReader{b: append([]byte{}, entropy...)})
		if err != nil {
			rt.Fatalf("HARNESS-ERROR: %v", err)
		}
		var shares map[int]tbls.PrivateKey
		insecure := rapid.Bool().Draw(rt, "insecureSplit")
		if insecure {
			shares, err = tbls.ThresholdSplitInsecure(t, secret, uint(n), uint(thr), &zeroReader{b: bytes.Repeat(entropy, 4)})
		} else {
			shares, err = tbls.ThresholdSplit(secret, uint(n), uint(thr))
		}
		if err != nil {
			rt.Fatalf("split %d-of-%d failed: %v", thr, n, err)
		}
		if len(shares) != n {
			rt.Fatalf("split returned %d shares, want %d", len(shares), n)
		}
		for i := 1; i <= n; i++ {
			if _, ok := shares[i]; !ok {
				rt.Fatalf("share ids are not 1..n: %d missing", i)
			}
		}
		group, err := tbls.SecretToPublicKey(secret)
		if err != nil {
			rt.Fatalf("HARNESS-ERROR: %v", err)
		}
		full, err := tbls.Sign(secret, msg)
		if err != nil {
			rt.Fatalf("HARNESS-ERROR: %v", err)
		}
		if err := tbls.Verify(group, msg, full); err != nil {
			rt.Fatalf("undivided key's signature does not verify: %v", err)
		}
		pubshares := map[int]tbls.PublicKey{}
		partials := map[int]tbls.Signature{}
		for i, s := range shares {
			pubshares[i], _ = tbls.SecretToPublicKey(s)
			partials[i], err = tbls.Sign(s, msg)
			if err != nil {
				rt.Fatalf("HARNESS-ERROR: %v", err)
			}
			if err := tbls.Verify(pubshares[i], msg, partials[i]); err != nil {
				rt.Fatalf("partial signature of share %d does not verify under its public share: %v", i, err)
			}
		}
		// a second, unrelated split for the wrong-share negative
		otherSecret, _ := tbls.GenerateInsecureKey(t, &zeroReader{b: append([]byte{0x55}, entropy...)})
		otherShares, err := tbls.ThresholdSplit(otherSecret, uint(n), uint(thr))
		if err != nil {
			rt.Fatalf("HARNESS-ERROR: %v", err)
		}
		otherMsg := append(append([]byte{}, msg...), 1)

		var masks []uint
		if n <= 7 {
			for m := uint(0); m < 1<<uint(n); m++ {
				if bits.OnesCount(m) >= thr {
					masks = append(masks, m)
				}
			}
		} else {
			for len(masks) < 64 {
				m := uint(rapid.IntRange(0, (1<<uint(n))-1).Draw(rt, "mask"))
				if bits.OnesCount(m) >= thr {
					masks = append(masks, m)
				} else {
					// grow to size t deterministically
					for i := 0; i < n && bits.OnesCount(m) < thr; i++ {
						m |= 1 << uint(i)
					}
					masks = append(masks, m)
				}
			}
		}
		negEvery := rapid.IntRange(1, 8).Draw(rt, "negEvery")
		for mi, m := range masks {
			var idxs []int
			for i := 1; i <= n; i++ {
				if m&(1<<uint(i-1)) != 0 {
					idxs = append(idxs, i)
				}
			}
			subS, subP, subSig := map[int]tbls.PrivateKey{}, map[int]tbls.PublicKey{}, map[int]tbls.Signature{}
			for _, i := range idxs {
				subS[i], subP[i], subSig[i] = shares[i], pubshares[i], partials[i]
			}
			rec, err := tbls.RecoverSecret(subS, uint(n), uint(thr))
			if err != nil || rec != secret {
				rt.Fatalf("RecoverSecret(%v) of %d-of-%d: err=%v equal=%v", idxs, thr, n, err, rec == secret)
			}
			rp, err := tbls.RecoverPubkey(subP)
			if err != nil || rp != group {
				rt.Fatalf("RecoverPubkey(%v) of %d-of-%d: err=%v equal=%v", idxs, thr, n, err, rp == group)
			}
			agg, err := tbls.ThresholdAggregate(subSig)
			if err != nil {
				rt.Fatalf("ThresholdAggregate(%v): %v", idxs, err)
			}
			if agg != full {
				rt.Fatalf("ThresholdAggregate(%v) of %d-of-%d differs from the undivided key's signature", idxs, thr, n)
			}
			if err := tbls.Verify(group, msg, agg); err != nil {
				rt.Fatalf("aggregate of %v does not verify under the group key: %v", idxs, err)
			}
			// the same set asked again gives the same answers (the caller's maps are its own: a library call
			// leaves them as they were)
			for _, i := range idxs {
				if subS[i] != shares[i] || subP[i] != pubshares[i] || subSig[i] != partials[i] {
					rt.Fatalf("CALLER'S SHARES CHANGED: after recovery / aggregation over %v (%d-of-%d) the caller's entry for share %d is no longer what it passed in", idxs, thr, n, i)
				}
			}
			if mi%3 == 0 {
				rec2, err := tbls.RecoverSecret(subS, uint(n), uint(thr))
				if err != nil || rec2 != secret {
					rt.Fatalf("RecoverSecret(%v) of %d-of-%d asked a second time with the same map: err=%v equal=%v", idxs, thr, n, err, rec2 == secret)
				}
				agg2, err := tbls.ThresholdAggregate(subSig)
				if err != nil || agg2 != full {
					rt.Fatalf("ThresholdAggregate(%v) of %d-of-%d asked a second time with the same map: err=%v equal=%v", idxs, thr, n, err, agg2 == full)
				}
			}
			nontrivial := thr < n && !(len(idxs) == thr && idxs[len(idxs)-1] == thr)
			vstat.Case(fmt.Sprintf("%d/%d/%b/pos/%x", n, thr, m, entropy[:6]), nontrivial, "positive", fmt.Sprintf("n=%d", n), cls("superset", len(idxs) > thr), cls("csprng_split", !insecure))
			if mi%negEvery != 0 {
				continue
			}
			// negatives
			victim := idxs[rapid.IntRange(0, len(idxs)-1).Draw(rt, "victim")]
			for _, kind := range []string{"wrong_share", "wrong_index", "other_message", "sibling_share"} {
				bad := map[int]tbls.Signature{}
				for i, s := range subSig {
					bad[i] = s
				}
				switch kind {
				case "sibling_share": // the victim's slot carries the partial of another share that is in the combination too
					if len(idxs) < 2 {
						continue
					}
					sib := victim
					for sib == victim {
						sib = idxs[rapid.IntRange(0, len(idxs)-1).Draw(rt, "sibling")]
					}
					bad[victim] = subSig[sib]
				case "wrong_share":
					bad[victim], _ = tbls.Sign(otherShares[victim], msg)
				case "wrong_index":
					free := 0
					for i := 1; i <= n+3; i++ {
						if _, used := bad[i]; !used {
							free = i
							break
						}
					}
					bad[free] = bad[victim]
					delete(bad, victim)
				case "other_message":
					bad[victim], _ = tbls.Sign(shares[victim], otherMsg)
				}
				bagg, err := tbls.ThresholdAggregate(bad)
				if err == nil {
					if bagg == full {
						rt.Fatalf("NEGATIVE ACCEPTED: %s in subset %v (%d-of-%d) still produced the undivided key's signature", kind, idxs, thr, n)
					}
					if tbls.Verify(group, msg, bagg) == nil {
						rt.Fatalf("NEGATIVE ACCEPTED: %s in subset %v (%d-of-%d): the combination verifies under the group key", kind, idxs, thr, n)
					}
				}
				vstat.Case(fmt.Sprintf("%d/%d/%b/%s/%d/%x", n, thr, m, kind, victim, entropy[:6]), true, "negative:"+kind)
			}
			// a combination that contains bytes which are no signature at all is refused (or at least does
			// not verify), and whatever the library keeps between calls must not leak into the next,
			// valid combination of other shares
			{
				garbage := map[int]tbls.Signature{}
				for i, s := range subSig {
					garbage[i] = s
				}
				var junk tbls.Signature
				for i := range junk {
					junk[i] = byte(0xf0 | i)
				}
				// iteration order inside the library is its own; put the junk under the highest index so that
				// valid entries are likely to be read first
				garbage[idxs[len(idxs)-1]] = junk
				if gagg, err := tbls.ThresholdAggregate(garbage); err == nil && tbls.Verify(group, msg, gagg) == nil {
					rt.Fatalf("NEGATIVE ACCEPTED: a combination of %v containing bytes that are no signature verifies under the group key", idxs)
				}
				again, err := tbls.ThresholdAggregate(subSig)
				if err != nil || again != full {
					rt.Fatalf("AFTER A REFUSED COMBINATION the valid combination of %v no longer gives the undivided key's signature (err=%v)", idxs, err)
				}
				// and a combination of the complementary shares (when there are enough of them)
				var rest map[int]tbls.Signature
				if n-len(idxs) >= thr {
					rest = map[int]tbls.Signature{}
					for i := 1; i <= n; i++ {
						if _, used := subSig[i]; !used {
							rest[i] = partials[i]
						}
					}
					r, err := tbls.ThresholdAggregate(rest)
					if err != nil || r != full {
						rt.Fatalf("AFTER A REFUSED COMBINATION the combination of the other shares no longer gives the undivided key's signature (err=%v)", err)
					}
				}
				vstat.Case(fmt.Sprintf("%d/%d/%b/garbage_then_valid/%x", n, thr, m, entropy[:6]), true, "negative:garbage_then_valid", cls("garbage_then_disjoint_combination", rest != nil))
			}
			// every contributing signature is over the other message: the combination is that message's
			// signature (positive control) and must not verify for this one, in either order of asking
			{
				other := map[int]tbls.Signature{}
				for _, i := range idxs {
					other[i], _ = tbls.Sign(shares[i], otherMsg)
				}
				oagg, err := tbls.ThresholdAggregate(other)
				if err != nil {
					rt.Fatalf("ThresholdAggregate(%v) over the other message: %v", idxs, err)
				}
				askFirst := rapid.Bool().Draw(rt, "negativeFirst")
				if askFirst && tbls.Verify(group, msg, oagg) == nil {
					rt.Fatalf("NEGATIVE ACCEPTED: the combination of %v over another message verifies for this message", idxs)
				}
				if err := tbls.Verify(group, otherMsg, oagg); err != nil {
					rt.Fatalf("combination of %v over the other message does not verify for it: %v", idxs, err)
				}
				if tbls.Verify(group, msg, oagg) == nil {
					rt.Fatalf("NEGATIVE ACCEPTED: the combination of %v over another message verifies for this message (after it was verified for its own message)", idxs)
				}
				if tbls.Verify(pubshares[victim], otherMsg, partials[victim]) == nil {
					rt.Fatalf("NEGATIVE ACCEPTED: partial signature of share %d verifies for another message", victim)
				}
				vstat.Case(fmt.Sprintf("%d/%d/%b/all_other_message/%x", n, thr, m, entropy[:6]), true, "negative:all_other_message")
			}
			if nontrivial && vstat.WantSample("subset") {
				vstat.Sample("subset", map[string]any{"n": n, "t": thr, "subset": idxs, "msg_len": len(msg), "negatives_checked": []string{"wrong_share", "wrong_index", "other_message"}})
			}
		}
	})
}

func cls(name string, on bool) string {
	if on {
		return name
	}
	return ""
}
