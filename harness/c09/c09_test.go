// C09 — the signature aggregator publishes only group-valid signatures over the signed payload.
package c09

import (
	"context"
	eth2api "github.com/attestantio/go-eth2-client/api"
	"strings"

	"encoding/json"
	"fmt"
	eth2spec "github.com/attestantio/go-eth2-client/spec"
	eth2p0 "github.com/attestantio/go-eth2-client/spec/phase0"
	"sort"
	"testing"

	"pgregory.net/rapid"

	"github.com/obolnetwork/charon/core"
	"github.com/obolnetwork/charon/core/sigagg"
	"github.com/obolnetwork/charon/tbls"

	"verifharness/fakebn"
	"verifharness/specsign"
	"verifharness/valgen"
	"verifharness/vstat"
)

func TestMain(m *testing.M) { vstat.Main(m) }

const rule = "every Eth2SignedData type x fork version (testutil fuzzer, seed drawn; 64-bit slots spread over a 7-fork schedule), n in 3..7, threshold subsets (and supersets) of partial signatures made by the harness's own eth2 signing table (specsign) with real tbls shares, 1..3 validators per call, optional corruption of one validator's partials: too few, repeated share, other content, wrong share's key, right key under wrong index, other message, truncated / over-long / zero signature; " +
	"oracle: no corruption -> every subscriber gets per validator an object whose signature verifies under the group key for the specsign signing root of its own content and whose unsigned content equals what was signed; any corruption -> error and no subscriber call; " +
	"non-trivial = multi-validator call or corruption present; distinct by (type, seeds, n, t, subset, corruption)"

var corruptions = []string{"none", "none", "none", "all_signed_for_fork_of_epoch_0", "too_few", "repeat_share", "other_content", "wrong_share_key", "wrong_index", "other_message", "truncated", "overlong", "zero_sig"}

func unsignedJSON(rt *rapid.T, d core.SignedData) string {
	z, err := d.SetSignature(make(core.Signature, 96))
	if err != nil {
		rt.Fatalf("HARNESS-ERROR: set signature: %v", err)
	}
	b, err := json.Marshal(z)
	if err != nil {
		rt.Fatalf("HARNESS-ERROR: marshal: %v", err)
	}
	return string(b)
}

func eth2Kinds() []valgen.Kind {
	var out []valgen.Kind
	for _, k := range valgen.SignedKinds() {
		if k.Duty != core.DutySignature {
			out = append(out, k)
		}
	}
	return out
}

func TestC09Aggregate(t *testing.T) {
	vstat.Rule("C09", rule)
	vstat.Assume("partials handed to the aggregator are what the partial-signature store hands over: >= t entries of distinct shares unless a corruption says otherwise; unsigned metadata (aggregation bits, validator index) is not part of the signed content")
	// two fork schedules: forks spread over the epoch range, and (as test networks start) the first forks all
	// active from genesis, where the fork version in force at epoch 0 is not the genesis fork version
	shortEpochs := fakebn.New()
	shortEpochs.SPE = 16 // a chain whose epochs are not 32 slots long (the spec constant is read from the beacon node)
	bns := []*fakebn.BN{fakebn.New(), fakebn.NewGenesisForks(4), shortEpochs}
	ctx := context.Background()
	kinds := eth2Kinds()
	rapid.Check(t, func(rt *rapid.T) {
		bn := bns[0]
		switch rapid.IntRange(0, 5).Draw(rt, "schedule") {
		case 0, 1:
			bn = bns[1]
		case 2:
			bn = bns[2]
		}
		k := kinds[rapid.IntRange(0, len(kinds)-1).Draw(rt, "kind")]
		n := rapid.IntRange(3, 7).Draw(rt, "n")
		thr := (2*n + 2) / 3
		if rapid.IntRange(0, 3).Draw(rt, "otherThreshold") == 0 {
			thr = rapid.IntRange(2, n).Draw(rt, "t")
		}
		nVals := rapid.IntRange(1, 3).Draw(rt, "validators")
		corruptVal := rapid.IntRange(0, nVals-1).Draw(rt, "corruptValidator")
		corruption := corruptions[rapid.IntRange(0, len(corruptions)-1).Draw(rt, "corruption")]

		agg, err := sigagg.New(thr, sigagg.NewVerifier(bn))
		if err != nil {
			rt.Fatalf("HARNESS-ERROR: %v", err)
		}
		var got []core.SignedDataSet
		for i := 0; i < 2; i++ {
			agg.Subscribe(func(_ context.Context, _ core.Duty, set core.SignedDataSet) error {
				// what this subscriber was handed (a private snapshot, judged below) ...
				snap := core.SignedDataSet{}
				for pk, v := range set {
					c, err := v.Clone()
					if err != nil {
						panic("HARNESS-ERROR: clone: " + err.Error())
					}
					snap[pk] = c
				}
				got = append(got, snap)
				// ... and then it does with its own copy what it likes: the next subscriber must still be
				// handed the verified aggregate
				for pk, v := range set {
					valgen.Scribble(&v)
					set[pk] = v
				}
				for pk := range set {
					delete(set, pk)
					break
				}
				return nil
			})
		}

		type val struct {
			pub    core.PubKey
			group  tbls.PublicKey
			value  core.SignedData
			subset []int
		}
		var vals []val
		input := map[core.PubKey][]core.ParSignedData{}
		var fpParts []string
		for vi := 0; vi < nVals; vi++ {
			seed := int64(rapid.IntRange(1, 1<<30).Draw(rt, "seed"))
			v := valgen.Signed(t, k, seed)
			// The signing domain depends on the fork that is active in the epoch the object belongs to:
			// slots and epochs right at a fork activation (last slot before, first slot of) are where an
			// off-by-one in that epoch shows; the fuzzer's random slots practically never land there.
			if rapid.IntRange(0, 2).Draw(rt, "forkBoundary") == 0 && len(bn.Forks) > 1 {
				fork := bn.Forks[rapid.IntRange(1, len(bn.Forks)-1).Draw(rt, "boundaryFork")]
				ptr := valgen.PtrTo(v)
				set := 0
				for _, l := range valgen.Uint64Leaves(ptr) {
					before := rapid.Bool().Draw(rt, "beforeFork")
					switch {
					case strings.HasSuffix(l.Path, ".Slot"):
						x := uint64(fork.Epoch) * bn.SPE
						if before && x > 0 {
							x--
						}
						l.Set(x)
						set++
					case strings.HasSuffix(l.Path, ".Epoch"):
						x := uint64(fork.Epoch)
						if before && x > 0 {
							x--
						}
						l.Set(x)
						set++
					}
				}
				if set > 0 {
					if nv, ok := valgen.Deref(ptr).(core.SignedData); ok {
						v = nv
						vstat.Count("value_at_fork_boundary", 1)
					}
				}
			}
			if p, ok := v.(core.VersionedSignedProposal); ok && (p.Version == eth2spec.DataVersionPhase0 || p.Version == eth2spec.DataVersionAltair) {
				rt.Skip("pre-merge proposals are not supported by the signing flow (go-eth2-client Slot() refuses them)")
			}
			spec, err := specsign.Of(bn, v)
			if err != nil {
				rt.Fatalf("HARNESS-ERROR: no signing rule: %v", err)
			}
			secret, err := tbls.GenerateSecretKey()
			if err != nil {
				rt.Fatalf("HARNESS-ERROR: %v", err)
			}
			shares, err := tbls.ThresholdSplit(secret, uint(n), uint(thr))
			if err != nil {
				rt.Fatalf("HARNESS-ERROR: %v", err)
			}
			group, _ := tbls.SecretToPublicKey(secret)
			pub, _ := core.PubKeyFromBytes(group[:])
			// subset of size t (sometimes more)
			perm := rapid.Permutation(seq(1, n)).Draw(rt, "subset")
			size := thr
			if rapid.IntRange(0, 2).Draw(rt, "superset") == 0 {
				size = rapid.IntRange(thr, n).Draw(rt, "size")
			}
			subset := append([]int{}, perm[:size]...)
			var parts []core.ParSignedData
			for _, idx := range subset {
				s, err := specsign.Sign(bn, shares[idx], v)
				if err != nil {
					rt.Fatalf("HARNESS-ERROR: sign: %v", err)
				}
				parts = append(parts, core.ParSignedData{SignedData: s, ShareIdx: idx})
			}
			if vi == corruptVal && corruption != "none" {
				j := rapid.IntRange(0, len(parts)-1).Draw(rt, "victim")
				other := valgen.Signed(t, k, seed+7919)
				// "another message" must really be another one for the signature: its signing root (object root under
				// the domain of its own epoch) has to differ. Two values that differ only in a slot or epoch of the same
				// fork have one signing root when the signed root does not cover that field (a sync message's root is
				// the block root alone).
				if oRoot, oerr := specsign.SigningRoot(bn, other); oerr != nil {
					rt.Skip("other value has no signing root")
				} else if ownRoot, _ := specsign.SigningRoot(bn, v); oRoot == ownRoot {
					rt.Skip("other value has the same signing root")
				}
				switch corruption {
				case "all_signed_for_fork_of_epoch_0":
					// every share signs the right content, but for the signing domain of the fork that was
					// active at epoch 0 instead of the object's own epoch: a consistent set, invalid for the object
					own := specsign.DomainOf(bn, spec)
					zero := specsign.DomainOf(bn, specsign.Spec{Domain: spec.Domain, Epoch: 0, Root: spec.Root})
					if own == zero {
						rt.Skip("the object's own domain is the domain of epoch 0")
					}
					sr, err := (&eth2p0.SigningData{ObjectRoot: spec.Root, Domain: zero}).HashTreeRoot()
					if err != nil {
						rt.Fatalf("HARNESS-ERROR: %v", err)
					}
					for pi := range parts {
						sg, err := tbls.Sign(shares[parts[pi].ShareIdx], sr[:])
						if err != nil {
							rt.Fatalf("HARNESS-ERROR: %v", err)
						}
						moved, err := v.SetSignature(core.Signature(sg[:]))
						if err != nil {
							rt.Fatalf("HARNESS-ERROR: %v", err)
						}
						parts[pi] = core.ParSignedData{SignedData: moved, ShareIdx: parts[pi].ShareIdx}
					}
				case "too_few":
					parts = parts[:thr-1]
				case "repeat_share":
					if len(parts) != thr || thr < 2 {
						rt.Skip("needs exactly t partials")
					}
					parts[j] = parts[(j+1)%len(parts)]
				case "other_content":
					s, _ := specsign.Sign(bn, shares[parts[j].ShareIdx], other)
					parts[j] = core.ParSignedData{SignedData: s, ShareIdx: parts[j].ShareIdx}
				case "wrong_share_key":
					wrong := parts[j].ShareIdx%n + 1
					s, _ := specsign.Sign(bn, shares[wrong], v)
					parts[j] = core.ParSignedData{SignedData: s, ShareIdx: parts[j].ShareIdx}
				case "wrong_index":
					if len(parts) == n {
						rt.Skip("needs an unused share index")
					}
					used := map[int]bool{}
					for _, p := range parts {
						used[p.ShareIdx] = true
					}
					for idx := 1; idx <= n; idx++ {
						if !used[idx] {
							parts[j].ShareIdx = idx
							break
						}
					}
				case "other_message":
					s, _ := specsign.Sign(bn, shares[parts[j].ShareIdx], other)
					moved, _ := v.SetSignature(s.Signature())
					parts[j] = core.ParSignedData{SignedData: moved, ShareIdx: parts[j].ShareIdx}
				case "truncated":
					bad, err := parts[j].SetSignature(parts[j].Signature()[:95])
					if err != nil {
						rt.Skip("type refuses a short signature")
					}
					if string(bad.Signature()) == string(parts[j].Signature()) {
						// fixed-size signature fields pad the missing byte with zero: when the honest
						// signature already ends in a zero byte (1 in 256) nothing was corrupted
						rt.Skip("truncation left the signature unchanged")
					}
					parts[j] = core.ParSignedData{SignedData: bad, ShareIdx: parts[j].ShareIdx}
				case "overlong":
					bad, err := parts[j].SetSignature(append(append(core.Signature{}, parts[j].Signature()...), 0))
					if err != nil {
						rt.Skip("type refuses a long signature")
					}
					if len(bad.Signature()) == 96 {
						rt.Skip("type normalises the signature length")
					}
					parts[j] = core.ParSignedData{SignedData: bad, ShareIdx: parts[j].ShareIdx}
				case "zero_sig":
					bad, _ := parts[j].SetSignature(make(core.Signature, 96))
					parts[j] = core.ParSignedData{SignedData: bad, ShareIdx: parts[j].ShareIdx}
				}
			}
			sort.Ints(subset)
			vals = append(vals, val{pub, group, v, subset})
			input[pub] = parts
			fpParts = append(fpParts, fmt.Sprintf("%d:%v", seed, subset))
		}
		duty := core.Duty{Slot: 11, Type: k.Duty}
		// a third of the calls meet a beacon node whose next one or two configuration requests fail (a
		// transient fault): the call may then fail as a whole, but it must not publish what is not valid
		specFaults := 0
		if rapid.IntRange(0, 2).Draw(rt, "beaconSpecFault") == 0 {
			specFaults = rapid.IntRange(1, 2).Draw(rt, "specFaults")
			// ... as a plain error, as the typed error an HTTP client reports for a 5xx answer, or as a timeout
			faultErr := []error{nil, &eth2api.Error{Method: "GET", Endpoint: "/eth/v1/config/spec", StatusCode: 503, Data: []byte("service unavailable")},
				&eth2api.Error{Method: "GET", Endpoint: "/eth/v1/config/spec", StatusCode: 500, Data: []byte("internal error")}, fmt.Errorf("spec: %w", context.DeadlineExceeded)}[rapid.IntRange(0, 3).Draw(rt, "faultKind")]
			faultAt := rapid.SampledFrom([]string{"spec", "domain", "domain", "genesis_domain"}).Draw(rt, "faultAt")
			if faultErr == nil {
				bn.Fail(faultAt, specFaults)
			} else {
				bn.FailAs(faultAt, specFaults, faultErr)
			}
		}
		err = agg.Aggregate(ctx, duty, input)
		bn.Fail("spec", 0)
		bn.Fail("domain", 0)
		bn.Fail("genesis_domain", 0)
		if corruption == "none" && specFaults > 0 && err != nil {
			if len(got) != 0 {
				rt.Fatalf("SUBSCRIBER CALLED DESPITE ERROR: %s: %d subscriber calls although Aggregate returned %v (transient beacon fault)", k.Name, len(got), err)
			}
			vstat.Case("", false, "honest_call_failed_on_transient_beacon_fault")
			return
		}
		if corruption != "none" {
			if err == nil {
				rt.Fatalf("PUBLISHED DESPITE CORRUPTION: %s/%s of validator %d (n=%d t=%d, %d validators): Aggregate returned nil", k.Name, corruption, corruptVal, n, thr, nVals)
			}
			if len(got) != 0 {
				rt.Fatalf("SUBSCRIBER CALLED DESPITE ERROR: %s/%s: %d subscriber calls although Aggregate returned %v", k.Name, corruption, len(got), err)
			}
		} else {
			if err != nil {
				rt.Fatalf("HONEST PARTIALS REJECTED: %s n=%d t=%d: %v", k.Name, n, thr, err)
			}
			if len(got) != 2 {
				rt.Fatalf("%d subscriber calls, want 2", len(got))
			}
			for _, set := range got {
				if len(set) != len(vals) {
					rt.Fatalf("subscriber got %d validators, want %d", len(set), len(vals))
				}
				for _, v := range vals {
					obj, ok := set[v.pub]
					if !ok {
						rt.Fatalf("validator missing in the published set")
					}
					if err := specsign.Verify(bn, v.group, obj); err != nil {
						rt.Fatalf("INVALID GROUP SIGNATURE PUBLISHED: %s: the published object's signature does not verify under the group key for the spec signing root of its own content: %v", k.Name, err)
					}
					if unsignedJSON(rt, obj) != unsignedJSON(rt, v.value) {
						rt.Fatalf("CONTENT CHANGED: %s: published content differs from what the partials were made over", k.Name)
					}
				}
			}
		}
		// A clean call after a failed one on the same aggregator: the honest partials of one validator that was
		// not the corrupted one. Exactly that validator is published, nothing the failed call had worked on.
		if corruption != "none" && nVals > 1 && rapid.Bool().Draw(rt, "cleanCallAfterFailedOne") {
			u := vals[(corruptVal+1+rapid.IntRange(0, nVals-2).Draw(rt, "cleanValidator"))%nVals]
			before := len(got)
			err3 := agg.Aggregate(ctx, duty, map[core.PubKey][]core.ParSignedData{u.pub: input[u.pub]})
			if err3 != nil || len(got) != before+2 {
				rt.Fatalf("HONEST PARTIALS REJECTED after a failed call on the same aggregator: %s: err=%v, %d new subscriber calls", k.Name, err3, len(got)-before)
			}
			for _, set := range got[before:] {
				if len(set) != 1 {
					rt.Fatalf("PUBLISHED WHAT THE CALL DID NOT CARRY: %s: a call with the partials of one validator, made after a failed %d-validator call (%s), published %d validators", k.Name, nVals, corruption, len(set))
				}
				if err := specsign.Verify(bn, u.group, set[u.pub]); err != nil {
					rt.Fatalf("INVALID GROUP SIGNATURE PUBLISHED after a failed call: %s: %v", k.Name, err)
				}
			}
			vstat.Count("clean_call_after_failed_call", 1)
		}
		// A second call on the same aggregator (a node runs one aggregator for its whole life): the partial
		// signatures that were just accepted come again, attached to other content, or offered under another
		// validator's key; or simply once more. Only the last may publish.
		followUp := "none"
		if corruption == "none" {
			followUp = rapid.SampledFrom([]string{"none", "replayed_signatures_on_other_content", "replayed_under_other_validator", "same_call_again"}).Draw(rt, "followUp")
		}
		if followUp != "none" {
			v0 := vals[0]
			before := len(got)
			second := map[core.PubKey][]core.ParSignedData{}
			switch followUp {
			case "replayed_signatures_on_other_content":
				other := valgen.Signed(t, k, int64(rapid.IntRange(1, 1<<30).Draw(rt, "otherSeed")))
				oRoot, err := specsign.SigningRoot(bn, other)
				root0, _ := specsign.SigningRoot(bn, v0.value)
				if err != nil || oRoot == root0 {
					// same signing root (e.g. two sync messages for one block root at slots of the same fork): the
					// signatures are valid for the other content too, nothing is corrupted
					rt.Skip("other value has the same signing root")
				}
				if p, ok := other.(core.VersionedSignedProposal); ok && (p.Version == eth2spec.DataVersionPhase0 || p.Version == eth2spec.DataVersionAltair) {
					rt.Skip("pre-merge proposal")
				}
				for _, part := range input[v0.pub] {
					moved, err := other.SetSignature(part.Signature())
					if err != nil {
						rt.Skip("type refuses the signature")
					}
					second[v0.pub] = append(second[v0.pub], core.ParSignedData{SignedData: moved, ShareIdx: part.ShareIdx})
				}
			case "replayed_under_other_validator":
				secret, err := tbls.GenerateSecretKey()
				if err != nil {
					rt.Fatalf("HARNESS-ERROR: %v", err)
				}
				g, _ := tbls.SecretToPublicKey(secret)
				otherPub, _ := core.PubKeyFromBytes(g[:])
				second[otherPub] = input[v0.pub]
			default:
				second[v0.pub] = input[v0.pub]
			}
			err2 := agg.Aggregate(ctx, duty, second)
			if followUp == "same_call_again" {
				if err2 != nil || len(got) != before+2 {
					rt.Fatalf("HONEST PARTIALS REJECTED on a second identical call: %s: err=%v, %d new subscriber calls", k.Name, err2, len(got)-before)
				}
				for _, set := range got[before:] {
					if err := specsign.Verify(bn, v0.group, set[v0.pub]); err != nil {
						rt.Fatalf("INVALID GROUP SIGNATURE PUBLISHED on a second identical call: %s: %v", k.Name, err)
					}
				}
			} else {
				if err2 == nil {
					rt.Fatalf("PUBLISHED DESPITE CORRUPTION: %s/%s (second call on one aggregator, n=%d t=%d): Aggregate returned nil", k.Name, followUp, n, thr)
				}
				if len(got) != before {
					rt.Fatalf("SUBSCRIBER CALLED DESPITE ERROR: %s/%s: %d subscriber calls although Aggregate returned %v", k.Name, followUp, len(got)-before, err2)
				}
			}
		}
		spec0, _ := specsign.Of(bn, vals[0].value)
		fork := bn.ForkAt(spec0.Epoch).Name
		nontrivial := nVals > 1 || corruption != "none" || followUp != "none"
		vstat.Case(fmt.Sprintf("%s/%d/%d/%s/%s/%s", k.Name, n, thr, corruption, followUp, fpParts), nontrivial, "type:"+k.Name, "corruption:"+corruption, "second_call:"+followUp, cls("transient_beacon_spec_fault", specFaults > 0), "fork_of_epoch:"+fork, cls("multi_validator", nVals > 1), cls("schedule_with_forks_at_genesis", bn == bns[1]), cls("schedule_with_16_slot_epochs", bn == bns[2]), cls("object_of_epoch_0", spec0.Epoch == 0))
		if nontrivial && vstat.WantSample(corruption) {
			vstat.Sample(corruption, map[string]any{"type": k.Name, "n": n, "t": thr, "validators": nVals, "corruption": corruption, "subsets": fpParts, "domain": spec0.Domain, "fork_of_epoch": fork})
		}
	})
}

func seq(a, b int) []int {
	var out []int
	for i := a; i <= b; i++ {
		out = append(out, i)
	}
	return out
}

func cls(name string, on bool) string {
	if on {
		return name
	}
	return ""
}
