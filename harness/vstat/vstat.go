// Package vstat is the bookkeeping shared by every check: it counts generated cases, classifies
// them, keeps fingerprints of distinct non-trivial cases and a few rendered samples, resolves
// violations against the committed known-findings file, and writes everything to the stats file the
// driver merges into /verif/evidence/<id>.json.
//
// It deliberately has no dependency besides the standard library so that it can be stamped into
// any package (external harness module or an in-package overlay).
package vstat

import (
	"encoding/binary"
	"encoding/json"
	"fmt"
	"hash/fnv"
	"os"
	"sort"
	"strconv"
	"strings"
	"sync"
	"testing"
)

const maxSamples = 6

type stats struct {
	Property    string            `json:"property"`
	Test        string            `json:"test"`
	Rule        string            `json:"rule"`
	Evaluations int64             `json:"evaluations"`
	Nontrivial  int64             `json:"nontrivial"`
	Classes     map[string]int64  `json:"classes"`
	Samples     []any             `json:"samples"`
	Known       map[string]int64  `json:"known_findings"`
	KnownDetail map[string]string `json:"known_detail"`
	Notes       []string          `json:"notes"`
	Exhaustive  bool              `json:"exhaustive"`
	Assumptions []string          `json:"assumptions"`
}

var (
	mu   sync.Mutex
	st   = stats{Classes: map[string]int64{}, Known: map[string]int64{}, KnownDetail: map[string]string{}}
	fps  = map[uint64]struct{}{}
	seen = map[string]bool{} // sample classes already sampled
	// fallback is the first non-trivial case, used as the sample when the check rendered none
	fallback map[string]any

	knownOnce sync.Once
	knownSigs map[string]string // signature -> description (open findings only)
)

// Main is the TestMain body of every check package.
func Main(m *testing.M) {
	code := m.Run()
	Flush()
	os.Exit(code)
}

// Rule records the sentence that explains how cases are generated and which ones count.
func Rule(property, rule string) {
	mu.Lock()
	defer mu.Unlock()
	st.Property = property
	if !strings.Contains(st.Rule, rule) {
		if st.Rule != "" {
			st.Rule += " || "
		}
		st.Rule += rule
	}
}

// Assume records an assumption / trusted-base sentence for the evidence file.
func Assume(a string) {
	mu.Lock()
	defer mu.Unlock()
	for _, x := range st.Assumptions {
		if x == a {
			return
		}
	}
	st.Assumptions = append(st.Assumptions, a)
}

// Exhaustive marks that this process enumerated a finite space completely.
func Exhaustive() {
	mu.Lock()
	defer mu.Unlock()
	st.Exhaustive = true
}

// Case counts one completed evaluation. fp identifies the case for the distinct count (only used
// when nontrivial is true); classes are free-form counters.
func Case(fp string, nontrivial bool, classes ...string) {
	mu.Lock()
	defer mu.Unlock()
	st.Evaluations++
	if fallback == nil && fp != "" && (nontrivial || st.Evaluations == 1) {
		// kept only if the check never renders a sample of its own: an evidence file always shows a generated case
		txt := fp
		if len(txt) > 600 {
			txt = txt[:600] + "..."
		}
		var cl []string
		for _, c := range classes {
			if c != "" {
				cl = append(cl, c)
			}
		}
		if nontrivial {
			fallback = map[string]any{"kind": "case", "case": map[string]any{"fingerprint": txt, "classes": cl, "nontrivial": nontrivial}}
		}
	}
	if nontrivial {
		st.Nontrivial++
		h := fnv.New64a()
		_, _ = h.Write([]byte(fp))
		fps[h.Sum64()] = struct{}{}
	}
	for _, c := range classes {
		if c != "" {
			st.Classes[c]++
		}
	}
}

// Count bumps a free-form counter without counting an evaluation.
func Count(class string, n int64) {
	mu.Lock()
	defer mu.Unlock()
	st.Classes[class] += n
}

// Max keeps the maximum seen for a named gauge (reported among classes as "max:<name>").
func Max(name string, v int64) {
	mu.Lock()
	defer mu.Unlock()
	k := "max:" + name
	if cur, ok := st.Classes[k]; !ok || v > cur {
		st.Classes[k] = v
	}
}

// Sample offers a rendered case; at most one per kind and maxSamples in total are kept.
func Sample(kind string, v any) {
	mu.Lock()
	defer mu.Unlock()
	if seen[kind] || len(st.Samples) >= maxSamples {
		return
	}
	seen[kind] = true
	st.Samples = append(st.Samples, map[string]any{"kind": kind, "case": v})
}

// WantSample reports whether a sample of this kind would still be kept (lets callers avoid the
// cost of rendering).
func WantSample(kind string) bool {
	mu.Lock()
	defer mu.Unlock()
	return !seen[kind] && len(st.Samples) < maxSamples
}

// Note adds a free-text observation to the evidence (deduplicated).
func Note(format string, args ...any) {
	s := fmt.Sprintf(format, args...)
	mu.Lock()
	defer mu.Unlock()
	for _, x := range st.Notes {
		if x == s {
			return
		}
	}
	if len(st.Notes) < 40 {
		st.Notes = append(st.Notes, s)
	}
}

func loadKnown() {
	knownSigs = map[string]string{}
	path := os.Getenv("VERIF_KNOWN")
	if path == "" {
		return
	}
	b, err := os.ReadFile(path)
	if err != nil {
		return
	}
	var doc struct {
		Findings []struct {
			Property  string `json:"property"`
			Signature string `json:"signature"`
			What      string `json:"what"`
			Status    string `json:"status"`
		} `json:"findings"`
	}
	if json.Unmarshal(b, &doc) != nil {
		return
	}
	for _, f := range doc.Findings {
		if f.Status == "open" {
			knownSigs[f.Property+"|"+f.Signature] = f.What
		}
	}
}

// IsKnown reports whether a violation with this structural signature is a listed open finding. If so
// it is counted (the driver prints the KNOWN-FINDING line) and the caller must treat the case as
// excluded instead of failing.
func IsKnown(property, signature, detail string) bool {
	knownOnce.Do(loadKnown)
	what, ok := knownSigs[property+"|"+signature]
	if !ok {
		return false
	}
	mu.Lock()
	defer mu.Unlock()
	st.Known[signature]++
	if _, have := st.KnownDetail[signature]; !have {
		st.KnownDetail[signature] = what + " :: " + detail
	}
	return true
}

// Seed returns VERIF_SEED (default 1) for the few places that enumerate instead of drawing.
func Seed() int64 {
	v, err := strconv.ParseInt(os.Getenv("VERIF_SEED"), 10, 64)
	if err != nil {
		return 1
	}
	return v
}

// Thorough reports whether the thorough tier was requested.
func Thorough() bool { return os.Getenv("VERIF_TIER") == "thorough" }

// EnvInt reads an integer knob set by the driver.
func EnvInt(name string, def int) int {
	v, err := strconv.Atoi(os.Getenv(name))
	if err != nil {
		return def
	}
	return v
}

// Flush writes the stats file (and the fingerprint side file) if VERIF_STATS is set.
func Flush() {
	mu.Lock()
	defer mu.Unlock()
	path := os.Getenv("VERIF_STATS")
	if path == "" {
		return
	}
	for _, a := range os.Args {
		if strings.HasPrefix(a, "-test.fuzzworker") {
			// native fuzzing runs the target in worker processes: one stats file per worker, merged by the driver
			path += ".w" + strconv.Itoa(os.Getpid())
			break
		}
	}
	sort.Strings(st.Notes)
	if len(st.Samples) == 0 && fallback != nil {
		st.Samples = append(st.Samples, fallback)
	}
	b, err := json.MarshalIndent(st, "", " ")
	if err != nil {
		fmt.Fprintln(os.Stderr, "HARNESS-ERROR: stats marshal:", err)
		return
	}
	buf := make([]byte, 0, 8*len(fps))
	for h := range fps {
		buf = binary.LittleEndian.AppendUint64(buf, h)
	}
	if err := os.WriteFile(path+".fp", buf, 0o644); err != nil {
		fmt.Fprintln(os.Stderr, "HARNESS-ERROR: stats write:", err)
	}
	if err := os.WriteFile(path, b, 0o644); err != nil {
		fmt.Fprintln(os.Stderr, "HARNESS-ERROR: stats write:", err)
	}
}
