package c10

import (
	"context"
	"fmt"
	"testing"

	"github.com/OffchainLabs/go-bitfield"
	eth2api "github.com/attestantio/go-eth2-client/api"
	eth2v1 "github.com/attestantio/go-eth2-client/api/v1"
	apiv1deneb "github.com/attestantio/go-eth2-client/api/v1/deneb"
	apiv1electra "github.com/attestantio/go-eth2-client/api/v1/electra"
	apiv1fulu "github.com/attestantio/go-eth2-client/api/v1/fulu"
	eth2spec "github.com/attestantio/go-eth2-client/spec"
	"github.com/attestantio/go-eth2-client/spec/altair"
	eth2p0 "github.com/attestantio/go-eth2-client/spec/phase0"

	"github.com/obolnetwork/charon/core"
	"github.com/obolnetwork/charon/core/validatorapi"
	"github.com/obolnetwork/charon/tbls"

	"verifharness/fakebn"
	"verifharness/specsign"
	"verifharness/valgen"
)

// validator is one distributed validator of the generated cluster.
type validator struct {
	index   eth2p0.ValidatorIndex
	secret  tbls.PrivateKey
	shares  map[int]tbls.PrivateKey
	pubs    map[int]tbls.PublicKey
	group   tbls.PublicKey
	corePub core.PubKey
}

type cluster struct {
	n, t int
	vals []*validator
	bn   *fakebn.BN
}

var clusterCache = map[[2]int]*cluster{}

// newCluster builds (once per node count and fork schedule) a cluster with three validators. genesisForks selects
// the schedule in which the first forks are all active from genesis (as test networks start).
func newCluster(n int, genesisForks bool) *cluster {
	ck := [2]int{n, 0}
	bn := fakebn.New()
	if genesisForks {
		ck[1] = 1
		bn = fakebn.NewGenesisForks(4)
		if n == 4 {
			bn.SPE = 16 // and, for one cluster size, epochs that are not 32 slots long
		}
	}
	if c, ok := clusterCache[ck]; ok {
		return c
	}
	c := &cluster{n: n, t: (2*n + 2) / 3, bn: bn}
	active := map[eth2p0.ValidatorIndex]eth2p0.BLSPubKey{}
	for v := 0; v < 3; v++ {
		secret, err := tbls.GenerateSecretKey()
		must(err)
		shares, err := tbls.ThresholdSplit(secret, uint(n), uint(c.t))
		must(err)
		val := &validator{index: eth2p0.ValidatorIndex(100 + v), secret: secret, shares: shares, pubs: map[int]tbls.PublicKey{}}
		for i, s := range shares {
			val.pubs[i], err = tbls.SecretToPublicKey(s)
			must(err)
		}
		val.group, err = tbls.SecretToPublicKey(secret)
		must(err)
		val.corePub, err = core.PubKeyFromBytes(val.group[:])
		must(err)
		c.vals = append(c.vals, val)
		active[val.index] = eth2p0.BLSPubKey(val.group)
	}
	c.bn.SetValidators(active)
	clusterCache[ck] = c
	return c
}

func (c *cluster) pubshares() map[core.PubKey]map[int]tbls.PublicKey {
	out := map[core.PubKey]map[int]tbls.PublicKey{}
	for _, v := range c.vals {
		out[v.corePub] = v.pubs
	}
	return out
}

func must(err error) {
	if err != nil {
		panic("HARNESS-ERROR: " + err.Error())
	}
}

// submission is one validator-client call in the making.
type submission struct {
	endpoint string
	duty     core.DutyType
	api      any                                                        // what the leaf walker alters
	coreView func() (core.SignedData, error)                            // the signed object as charon will see it
	who      func() (eth2p0.ValidatorIndex, bool)                       // validator index the submission names (if it names one)
	sig      func() *eth2p0.BLSSignature                                // where the partial signature lives
	call     func(c *validatorapi.Component) error                      // performs the call
	batch    func(c *validatorapi.Component, items []*submission) error // list endpoints: one call carrying several submissions (nil for single-object endpoints)
	install  func(w *wiring)                                            // registers what the component queries
	resign   func(key tbls.PrivateKey, bn *fakebn.BN)                   // re-signs the current content
}

// wiring is what the component's Register* functions answer from.
type wiring struct {
	proposerBySlot map[uint64]core.PubKey
	attDefs        map[uint64]core.DutyDefinitionSet
	pubkeyByAtt    func(slot, commIdx, valIdx uint64) (core.PubKey, error)
	proposal       map[uint64]*eth2api.VersionedProposal
	aggSig         core.SignedData
}

func newWiring() *wiring {
	return &wiring{proposerBySlot: map[uint64]core.PubKey{}, attDefs: map[uint64]core.DutyDefinitionSet{}, proposal: map[uint64]*eth2api.VersionedProposal{},
		pubkeyByAtt: func(uint64, uint64, uint64) (core.PubKey, error) { return "", fmt.Errorf("unknown attester") }}
}

func newComponent(cl *cluster, me int, w *wiring) (*validatorapi.Component, *[]recorded) {
	comp, err := validatorapi.NewComponent(cl.bn, cl.pubshares(), me, func(core.PubKey) string { return "0x0000000000000000000000000000000000000000" }, false, 30000000)
	must(err)
	comp.RegisterGetDutyDefinition(func(_ context.Context, duty core.Duty) (core.DutyDefinitionSet, error) {
		switch duty.Type {
		case core.DutyProposer:
			pk, ok := w.proposerBySlot[duty.Slot]
			if !ok {
				return nil, fmt.Errorf("no proposer duty for slot %d", duty.Slot)
			}
			return core.DutyDefinitionSet{pk: core.NewProposerDefinition(&eth2v1.ProposerDuty{Slot: eth2p0.Slot(duty.Slot)})}, nil
		case core.DutyAttester:
			set, ok := w.attDefs[duty.Slot]
			if !ok {
				return nil, fmt.Errorf("no attester duties for slot %d", duty.Slot)
			}
			return set, nil
		}
		return nil, fmt.Errorf("no duty definition")
	})
	comp.RegisterPubKeyByAttestation(func(_ context.Context, slot, commIdx, valIdx uint64) (core.PubKey, error) {
		return w.pubkeyByAtt(slot, commIdx, valIdx)
	})
	comp.RegisterAwaitProposal(func(_ context.Context, slot uint64) (*eth2api.VersionedProposal, error) {
		p, ok := w.proposal[slot]
		if !ok {
			return nil, fmt.Errorf("no proposal agreed for slot %d", slot)
		}
		return p, nil
	})
	comp.RegisterAwaitAggSigDB(func(context.Context, core.Duty, core.PubKey, core.SubcommitteeIndex) (core.SignedData, error) {
		if w.aggSig == nil {
			return nil, fmt.Errorf("nothing aggregated")
		}
		return w.aggSig, nil
	})
	var rec []recorded
	for i := 0; i < 2; i++ {
		comp.Subscribe(func(_ context.Context, duty core.Duty, set core.ParSignedDataSet) error {
			rec = append(rec, recorded{duty, set})
			return nil
		})
	}
	return comp, &rec
}

type recorded struct {
	duty core.Duty
	set  core.ParSignedDataSet
}

func signPartial(bn *fakebn.BN, key tbls.PrivateKey, d core.SignedData) eth2p0.BLSSignature {
	s, err := specsign.Sign(bn, key, d)
	must(err)
	var out eth2p0.BLSSignature
	copy(out[:], s.Signature())
	return out
}

func groupSignRoot(bn *fakebn.BN, key tbls.PrivateKey, domain string, epoch eth2p0.Epoch, root eth2p0.Root) eth2p0.BLSSignature {
	sr, err := (&eth2p0.SigningData{ObjectRoot: root, Domain: specsign.DomainOf(bn, specsign.Spec{Domain: domain, Epoch: epoch, Root: root})}).HashTreeRoot()
	must(err)
	s, err := tbls.Sign(key, sr[:])
	must(err)
	return eth2p0.BLSSignature(s)
}

// ---- builders: each returns a valid submission for validator v made by node `me`

func buildAttestation(t *testing.T, cl *cluster, v *validator, me int, seed int64) *submission {
	cv := valgen.Signed(t, valgen.KindByName("VersionedAttestation"), seed).(core.VersionedAttestation)
	api := cv.VersionedAttestation
	s := &submission{endpoint: "SubmitAttestations", duty: core.DutyAttester, api: &api}
	data, err := api.Data()
	must(err)
	switch api.Version {
	case eth2spec.DataVersionElectra, eth2spec.DataVersionFulu:
		idx := v.index
		api.ValidatorIndex = &idx
		bits := bitfield.NewBitvector64()
		bits.SetBitAt(uint64(seed%64), true)
		if api.Version == eth2spec.DataVersionElectra {
			api.Electra.CommitteeBits = bits
		} else {
			api.Fulu.CommitteeBits = bits
		}
	default:
		api.ValidatorIndex = nil
		bl := bitfield.NewBitlist(16)
		bl.SetBitAt(uint64(seed%16), true)
		switch api.Version {
		case eth2spec.DataVersionPhase0:
			api.Phase0.AggregationBits = bl
		case eth2spec.DataVersionAltair:
			api.Altair.AggregationBits = bl
		case eth2spec.DataVersionBellatrix:
			api.Bellatrix.AggregationBits = bl
		case eth2spec.DataVersionCapella:
			api.Capella.AggregationBits = bl
		case eth2spec.DataVersionDeneb:
			api.Deneb.AggregationBits = bl
		}
	}
	s.coreView = func() (core.SignedData, error) {
		p, err := core.NewPartialVersionedAttestation(&api, me)
		if err != nil {
			return nil, err
		}
		return p.SignedData, nil
	}
	s.who = func() (eth2p0.ValidatorIndex, bool) {
		if api.ValidatorIndex != nil {
			return *api.ValidatorIndex, true
		}
		return 0, false
	}
	s.sig = func() *eth2p0.BLSSignature {
		switch api.Version {
		case eth2spec.DataVersionPhase0:
			return &api.Phase0.Signature
		case eth2spec.DataVersionAltair:
			return &api.Altair.Signature
		case eth2spec.DataVersionBellatrix:
			return &api.Bellatrix.Signature
		case eth2spec.DataVersionCapella:
			return &api.Capella.Signature
		case eth2spec.DataVersionDeneb:
			return &api.Deneb.Signature
		case eth2spec.DataVersionElectra:
			return &api.Electra.Signature
		default:
			return &api.Fulu.Signature
		}
	}
	slot, commData := uint64(data.Slot), data.Index
	s.install = func(w *wiring) {
		w.pubkeyByAtt = func(sl, _ uint64, valIdx uint64) (core.PubKey, error) {
			if sl == slot && valIdx == uint64(v.index) {
				return v.corePub, nil
			}
			return "", fmt.Errorf("unknown attester %d at slot %d", valIdx, sl)
		}
		w.attDefs[slot] = core.DutyDefinitionSet{v.corePub: core.NewAttesterDefinition(&eth2v1.AttesterDuty{PubKey: eth2p0.BLSPubKey(v.group), Slot: eth2p0.Slot(slot), ValidatorIndex: v.index, CommitteeIndex: commData, ValidatorCommitteeIndex: uint64(seed % 16), CommitteeLength: 16, CommitteesAtSlot: 64})}
	}
	s.call = func(c *validatorapi.Component) error {
		return c.SubmitAttestations(context.Background(), &eth2api.SubmitAttestationsOpts{Attestations: []*eth2spec.VersionedAttestation{&api}})
	}
	s.batch = func(c *validatorapi.Component, items []*submission) error {
		var list []*eth2spec.VersionedAttestation
		for _, it := range items {
			list = append(list, it.api.(*eth2spec.VersionedAttestation))
		}
		return c.SubmitAttestations(context.Background(), &eth2api.SubmitAttestationsOpts{Attestations: list})
	}
	return s
}

func buildRandao(t *testing.T, cl *cluster, v *validator, me int, seed int64) *submission {
	opts := &eth2api.ProposalOpts{Slot: eth2p0.Slot(uint64(seed) * 7919)}
	s := &submission{endpoint: "Proposal(randao)", duty: core.DutyRandao, api: opts}
	s.coreView = func() (core.SignedData, error) {
		return core.NewPartialSignedRandao(eth2p0.Epoch(uint64(opts.Slot)/cl.bn.SPE), opts.RandaoReveal, me).SignedData, nil
	}
	s.who = func() (eth2p0.ValidatorIndex, bool) { return 0, false }
	s.sig = func() *eth2p0.BLSSignature { return &opts.RandaoReveal }
	slot := uint64(opts.Slot)
	s.install = func(w *wiring) {
		w.proposerBySlot[slot] = v.corePub
		p := valgen.Unsigned(t, valgen.KindByName("VersionedProposal"), 5).(core.VersionedProposal)
		w.proposal[slot] = &p.VersionedProposal
	}
	s.call = func(c *validatorapi.Component) error {
		_, err := c.Proposal(context.Background(), opts)
		return err
	}
	return s
}

// unsignedOf builds the agreed (unsigned) proposal that corresponds to a signed one.
func unsignedOf(p *eth2api.VersionedSignedProposal) *eth2api.VersionedProposal {
	out := &eth2api.VersionedProposal{Version: p.Version, Blinded: p.Blinded}
	switch {
	case p.Version == eth2spec.DataVersionBellatrix && !p.Blinded:
		out.Bellatrix = p.Bellatrix.Message
	case p.Version == eth2spec.DataVersionBellatrix:
		out.BellatrixBlinded = p.BellatrixBlinded.Message
	case p.Version == eth2spec.DataVersionCapella && !p.Blinded:
		out.Capella = p.Capella.Message
	case p.Version == eth2spec.DataVersionCapella:
		out.CapellaBlinded = p.CapellaBlinded.Message
	case p.Version == eth2spec.DataVersionDeneb && !p.Blinded:
		out.Deneb = &apiv1deneb.BlockContents{Block: p.Deneb.SignedBlock.Message, KZGProofs: p.Deneb.KZGProofs, Blobs: p.Deneb.Blobs}
	case p.Version == eth2spec.DataVersionDeneb:
		out.DenebBlinded = p.DenebBlinded.Message
	case p.Version == eth2spec.DataVersionElectra && !p.Blinded:
		out.Electra = &apiv1electra.BlockContents{Block: p.Electra.SignedBlock.Message, KZGProofs: p.Electra.KZGProofs, Blobs: p.Electra.Blobs}
	case p.Version == eth2spec.DataVersionElectra:
		out.ElectraBlinded = p.ElectraBlinded.Message
	case p.Version == eth2spec.DataVersionFulu && !p.Blinded:
		out.Fulu = &apiv1fulu.BlockContents{Block: p.Fulu.SignedBlock.Message, KZGProofs: p.Fulu.KZGProofs, Blobs: p.Fulu.Blobs}
	case p.Version == eth2spec.DataVersionFulu:
		out.FuluBlinded = p.FuluBlinded.Message
	default:
		return nil
	}
	return out
}

func proposalSig(p *eth2api.VersionedSignedProposal) *eth2p0.BLSSignature {
	switch {
	case p.Version == eth2spec.DataVersionBellatrix && !p.Blinded:
		return &p.Bellatrix.Signature
	case p.Version == eth2spec.DataVersionBellatrix:
		return &p.BellatrixBlinded.Signature
	case p.Version == eth2spec.DataVersionCapella && !p.Blinded:
		return &p.Capella.Signature
	case p.Version == eth2spec.DataVersionCapella:
		return &p.CapellaBlinded.Signature
	case p.Version == eth2spec.DataVersionDeneb && !p.Blinded:
		return &p.Deneb.SignedBlock.Signature
	case p.Version == eth2spec.DataVersionDeneb:
		return &p.DenebBlinded.Signature
	case p.Version == eth2spec.DataVersionElectra && !p.Blinded:
		return &p.Electra.SignedBlock.Signature
	case p.Version == eth2spec.DataVersionElectra:
		return &p.ElectraBlinded.Signature
	case p.Version == eth2spec.DataVersionFulu && !p.Blinded:
		return &p.Fulu.SignedBlock.Signature
	default:
		return &p.FuluBlinded.Signature
	}
}

// buildProposal covers SubmitProposal (blinded=false) and SubmitBlindedProposal (blinded=true).
func buildProposal(t *testing.T, cl *cluster, v *validator, me int, seed int64, blinded bool) *submission {
	kind := valgen.KindByName("VersionedSignedProposal")
	if blinded {
		kind = valgen.KindByName("VersionedSignedProposal(blinded)")
	}
	var api, twin eth2api.VersionedSignedProposal
	for k := int64(0); ; k++ { // pre-merge versions are outside the signing flow
		cv := valgen.Signed(t, kind, seed+k*104729).(core.VersionedSignedProposal)
		if cv.Version == eth2spec.DataVersionPhase0 || cv.Version == eth2spec.DataVersionAltair {
			continue
		}
		api = cv.VersionedSignedProposal
		twin = valgen.Signed(t, kind, seed+k*104729).(core.VersionedSignedProposal).VersionedSignedProposal
		break
	}
	name := "SubmitProposal"
	if blinded {
		name = "SubmitBlindedProposal"
	}
	s := &submission{endpoint: name, duty: core.DutyProposer, api: &api}
	bl := &eth2api.VersionedSignedBlindedProposal{Version: api.Version, Bellatrix: api.BellatrixBlinded, Capella: api.CapellaBlinded, Deneb: api.DenebBlinded, Electra: api.ElectraBlinded, Fulu: api.FuluBlinded}
	if blinded {
		s.api = bl // exactly what is submitted
	}
	s.coreView = func() (core.SignedData, error) {
		if blinded {
			p, err := core.NewPartialVersionedSignedBlindedProposal(bl, me)
			if err != nil {
				return nil, err
			}
			return p.SignedData, nil
		}
		p, err := core.NewPartialVersionedSignedProposal(&api, me)
		if err != nil {
			return nil, err
		}
		return p.SignedData, nil
	}
	s.who = func() (eth2p0.ValidatorIndex, bool) { return 0, false }
	sigPtr := proposalSig(&api)
	s.sig = func() *eth2p0.BLSSignature { return sigPtr }
	slot, err := api.Slot()
	must(err)
	agreed := unsignedOf(&twin)
	s.install = func(w *wiring) {
		w.proposerBySlot[uint64(slot)] = v.corePub
		w.proposal[uint64(slot)] = agreed
	}
	s.call = func(c *validatorapi.Component) error {
		if !blinded {
			return c.SubmitProposal(context.Background(), &eth2api.SubmitProposalOpts{Proposal: &api})
		}
		return c.SubmitBlindedProposal(context.Background(), &eth2api.SubmitBlindedProposalOpts{Proposal: bl})
	}
	return s
}

func buildExit(_ *testing.T, cl *cluster, v *validator, me int, seed int64) *submission {
	api := &eth2p0.SignedVoluntaryExit{Message: &eth2p0.VoluntaryExit{Epoch: eth2p0.Epoch(uint64(seed) * 1315423911), ValidatorIndex: v.index}}
	s := &submission{endpoint: "SubmitVoluntaryExit", duty: core.DutyExit, api: api}
	s.coreView = func() (core.SignedData, error) { return core.NewPartialSignedVoluntaryExit(api, me).SignedData, nil }
	s.who = func() (eth2p0.ValidatorIndex, bool) { return api.Message.ValidatorIndex, true }
	s.sig = func() *eth2p0.BLSSignature { return &api.Signature }
	s.install = func(*wiring) {}
	s.call = func(c *validatorapi.Component) error { return c.SubmitVoluntaryExit(context.Background(), api) }
	return s
}

func buildBeaconSelection(_ *testing.T, cl *cluster, v *validator, me int, seed int64) *submission {
	api := &eth2v1.BeaconCommitteeSelection{ValidatorIndex: v.index, Slot: eth2p0.Slot(uint64(seed) * 2654435761)}
	s := &submission{endpoint: "BeaconCommitteeSelections", duty: core.DutyPrepareAggregator, api: api}
	s.coreView = func() (core.SignedData, error) {
		return core.NewPartialSignedBeaconCommitteeSelection(api, me).SignedData, nil
	}
	s.who = func() (eth2p0.ValidatorIndex, bool) { return api.ValidatorIndex, true }
	s.sig = func() *eth2p0.BLSSignature { return &api.SelectionProof }
	s.install = func(w *wiring) { w.aggSig = core.NewPartialSignedBeaconCommitteeSelection(api, me).SignedData }
	s.call = func(c *validatorapi.Component) error {
		_, err := c.BeaconCommitteeSelections(context.Background(), &eth2api.BeaconCommitteeSelectionsOpts{Selections: []*eth2v1.BeaconCommitteeSelection{api}})
		return err
	}
	s.batch = func(c *validatorapi.Component, items []*submission) error {
		var list []*eth2v1.BeaconCommitteeSelection
		for _, it := range items {
			list = append(list, it.api.(*eth2v1.BeaconCommitteeSelection))
		}
		_, err := c.BeaconCommitteeSelections(context.Background(), &eth2api.BeaconCommitteeSelectionsOpts{Selections: list})
		return err
	}
	return s
}

func buildSyncSelection(_ *testing.T, cl *cluster, v *validator, me int, seed int64) *submission {
	api := &eth2v1.SyncCommitteeSelection{ValidatorIndex: v.index, Slot: eth2p0.Slot(uint64(seed) * 2246822519), SubcommitteeIndex: uint64(seed % 4)}
	s := &submission{endpoint: "SyncCommitteeSelections", duty: core.DutyPrepareSyncContribution, api: api}
	s.coreView = func() (core.SignedData, error) {
		return core.NewPartialSignedSyncCommitteeSelection(api, me).SignedData, nil
	}
	s.who = func() (eth2p0.ValidatorIndex, bool) { return api.ValidatorIndex, true }
	s.sig = func() *eth2p0.BLSSignature { return &api.SelectionProof }
	s.install = func(w *wiring) { w.aggSig = core.NewPartialSignedSyncCommitteeSelection(api, me).SignedData }
	s.call = func(c *validatorapi.Component) error {
		_, err := c.SyncCommitteeSelections(context.Background(), &eth2api.SyncCommitteeSelectionsOpts{Selections: []*eth2v1.SyncCommitteeSelection{api}})
		return err
	}
	s.batch = func(c *validatorapi.Component, items []*submission) error {
		var list []*eth2v1.SyncCommitteeSelection
		for _, it := range items {
			list = append(list, it.api.(*eth2v1.SyncCommitteeSelection))
		}
		_, err := c.SyncCommitteeSelections(context.Background(), &eth2api.SyncCommitteeSelectionsOpts{Selections: list})
		return err
	}
	return s
}

func buildSyncMessage(_ *testing.T, cl *cluster, v *validator, me int, seed int64) *submission {
	api := &altair.SyncCommitteeMessage{Slot: eth2p0.Slot(uint64(seed) * 3266489917), ValidatorIndex: v.index}
	api.BeaconBlockRoot[0], api.BeaconBlockRoot[31] = byte(seed), byte(seed>>8)
	s := &submission{endpoint: "SubmitSyncCommitteeMessages", duty: core.DutySyncMessage, api: api}
	s.coreView = func() (core.SignedData, error) { return core.NewPartialSignedSyncMessage(api, me).SignedData, nil }
	s.who = func() (eth2p0.ValidatorIndex, bool) { return api.ValidatorIndex, true }
	s.sig = func() *eth2p0.BLSSignature { return &api.Signature }
	s.install = func(*wiring) {}
	s.call = func(c *validatorapi.Component) error {
		return c.SubmitSyncCommitteeMessages(context.Background(), []*altair.SyncCommitteeMessage{api})
	}
	s.batch = func(c *validatorapi.Component, items []*submission) error {
		var list []*altair.SyncCommitteeMessage
		for _, it := range items {
			list = append(list, it.api.(*altair.SyncCommitteeMessage))
		}
		return c.SubmitSyncCommitteeMessages(context.Background(), list)
	}
	return s
}

func buildContribution(t *testing.T, cl *cluster, v *validator, me int, seed int64) *submission {
	cv := valgen.Signed(t, valgen.KindByName("SignedSyncContributionAndProof"), seed).(core.SignedSyncContributionAndProof)
	api := &cv.SignedContributionAndProof
	api.Message.AggregatorIndex = v.index
	c := api.Message.Contribution
	api.Message.SelectionProof = groupSignRoot(cl.bn, v.secret, "DOMAIN_SYNC_COMMITTEE_SELECTION_PROOF", eth2p0.Epoch(uint64(c.Slot)/cl.bn.SPE),
		mustRoot(&altair.SyncAggregatorSelectionData{Slot: c.Slot, SubcommitteeIndex: c.SubcommitteeIndex}))
	s := &submission{endpoint: "SubmitSyncCommitteeContributions", duty: core.DutySyncContribution, api: api}
	s.coreView = func() (core.SignedData, error) {
		return core.NewPartialSignedSyncContributionAndProof(api, me).SignedData, nil
	}
	s.who = func() (eth2p0.ValidatorIndex, bool) { return api.Message.AggregatorIndex, true }
	s.sig = func() *eth2p0.BLSSignature { return &api.Signature }
	s.install = func(*wiring) {}
	s.call = func(comp *validatorapi.Component) error {
		return comp.SubmitSyncCommitteeContributions(context.Background(), []*altair.SignedContributionAndProof{api})
	}
	s.batch = func(comp *validatorapi.Component, items []*submission) error {
		var list []*altair.SignedContributionAndProof
		for _, it := range items {
			list = append(list, it.api.(*altair.SignedContributionAndProof))
		}
		return comp.SubmitSyncCommitteeContributions(context.Background(), list)
	}
	return s
}

type htr interface{ HashTreeRoot() ([32]byte, error) }

func mustRoot(h htr) eth2p0.Root {
	r, err := h.HashTreeRoot()
	must(err)
	return r
}

func buildAggregate(t *testing.T, cl *cluster, v *validator, me int, seed int64) *submission {
	cv := valgen.Signed(t, valgen.KindByName("VersionedSignedAggregateAndProof"), seed).(core.VersionedSignedAggregateAndProof)
	api := &cv.VersionedSignedAggregateAndProof
	var sig *eth2p0.BLSSignature
	setInner := func() {
		slot, err := api.Slot()
		must(err)
		proof := groupSignRoot(cl.bn, v.secret, "DOMAIN_SELECTION_PROOF", eth2p0.Epoch(uint64(slot)/cl.bn.SPE), uintRoot(uint64(slot)))
		switch api.Version {
		case eth2spec.DataVersionPhase0:
			api.Phase0.Message.AggregatorIndex, api.Phase0.Message.SelectionProof, sig = v.index, proof, &api.Phase0.Signature
		case eth2spec.DataVersionAltair:
			api.Altair.Message.AggregatorIndex, api.Altair.Message.SelectionProof, sig = v.index, proof, &api.Altair.Signature
		case eth2spec.DataVersionBellatrix:
			api.Bellatrix.Message.AggregatorIndex, api.Bellatrix.Message.SelectionProof, sig = v.index, proof, &api.Bellatrix.Signature
		case eth2spec.DataVersionCapella:
			api.Capella.Message.AggregatorIndex, api.Capella.Message.SelectionProof, sig = v.index, proof, &api.Capella.Signature
		case eth2spec.DataVersionDeneb:
			api.Deneb.Message.AggregatorIndex, api.Deneb.Message.SelectionProof, sig = v.index, proof, &api.Deneb.Signature
		case eth2spec.DataVersionElectra:
			api.Electra.Message.AggregatorIndex, api.Electra.Message.SelectionProof, sig = v.index, proof, &api.Electra.Signature
		default:
			api.Fulu.Message.AggregatorIndex, api.Fulu.Message.SelectionProof, sig = v.index, proof, &api.Fulu.Signature
		}
	}
	setInner()
	s := &submission{endpoint: "SubmitAggregateAttestations", duty: core.DutyAggregator, api: api}
	s.coreView = func() (core.SignedData, error) {
		return core.NewPartialVersionedSignedAggregateAndProof(api, me).SignedData, nil
	}
	s.who = func() (eth2p0.ValidatorIndex, bool) {
		i, err := api.AggregatorIndex()
		return i, err == nil
	}
	s.sig = func() *eth2p0.BLSSignature { return sig }
	s.install = func(*wiring) {}
	s.call = func(c *validatorapi.Component) error {
		return c.SubmitAggregateAttestations(context.Background(), &eth2api.SubmitAggregateAttestationsOpts{SignedAggregateAndProofs: []*eth2spec.VersionedSignedAggregateAndProof{api}})
	}
	s.batch = func(c *validatorapi.Component, items []*submission) error {
		var list []*eth2spec.VersionedSignedAggregateAndProof
		for _, it := range items {
			list = append(list, it.api.(*eth2spec.VersionedSignedAggregateAndProof))
		}
		return c.SubmitAggregateAttestations(context.Background(), &eth2api.SubmitAggregateAttestationsOpts{SignedAggregateAndProofs: list})
	}
	return s
}

func uintRoot(v uint64) eth2p0.Root {
	var r eth2p0.Root
	for i := 0; i < 8; i++ {
		r[i] = byte(v >> (8 * uint(i)))
	}
	return r
}

var builders = []func(*testing.T, *cluster, *validator, int, int64) *submission{
	buildAttestation, buildRandao,
	func(t *testing.T, c *cluster, v *validator, me int, seed int64) *submission {
		return buildProposal(t, c, v, me, seed, false)
	},
	func(t *testing.T, c *cluster, v *validator, me int, seed int64) *submission {
		return buildProposal(t, c, v, me, seed, true)
	},
	buildExit, buildBeaconSelection, buildAggregate, buildSyncMessage, buildContribution, buildSyncSelection,
}
