// C10 — only partial signatures valid for the claimed key share enter a node.
//
// Validator-client path: every signature-accepting endpoint of the production validatorapi
// component; peer path: the production parsigex handler over memnet with the production eth2
// verifier and duty gater. Valid submissions are signed with the harness's own signing table
// (specsign); one alteration is drawn per case and the independent oracle decides whether it changed
// the signing root, the key, the domain or the admissibility of the duty.
package c10

import (
	"context"
	"crypto/sha256"
	"fmt"
	eth2api "github.com/attestantio/go-eth2-client/api"
	"strings"
	"sync"
	"testing"
	"time"

	eth2p0 "github.com/attestantio/go-eth2-client/spec/phase0"
	k1 "github.com/decred/dcrd/dcrec/secp256k1/v4"
	"github.com/libp2p/go-libp2p/core/peer"
	"pgregory.net/rapid"

	"github.com/obolnetwork/charon/core"
	pbv1 "github.com/obolnetwork/charon/core/corepb/v1"
	"github.com/obolnetwork/charon/core/parsigex"
	"github.com/obolnetwork/charon/p2p"
	"github.com/obolnetwork/charon/tbls"

	"verifharness/fakebn"
	"verifharness/memnet"
	"verifharness/specsign"
	"verifharness/valgen"
	"verifharness/vstat"
)

func TestMain(m *testing.M) { vstat.Main(m) }

const ruleVC = "validator-client path: for each signature-accepting endpoint (SubmitAttestations all versions, Proposal/randao, SubmitProposal, SubmitBlindedProposal, SubmitVoluntaryExit, BeaconCommitteeSelections, SubmitAggregateAttestations, SubmitSyncCommitteeMessages, SubmitSyncCommitteeContributions, SyncCommitteeSelections) a valid submission is built (testutil fuzzer values, seed drawn) and signed with specsign by the node's own share; one alteration: any single leaf of the submitted object, another share of the same validator, the same share of another validator, another domain, another fork version, unknown validator, zero signature, proposal payload different from the agreed one; " +
	"oracle: valid -> exactly one call per subscriber carrying that partial; altered so that signing root / signature / named validator / agreed payload changed -> error and no subscriber call; non-trivial = alteration that changes them; distinct by (endpoint, alteration, leaf path, seed)"

const rulePeer = "peer path: ParSigExMsg frames through the production parsigex handler over memnet (NewEth2Verifier, NewDutyGater) for every duty type, signed by the claimed share; alterations: leaf of the signed object, signed by another share than claimed, pubkey of another / unknown validator, share index 0 / n+1 / negative, zero signature, duty beyond the gater window or of invalid type, another domain, another fork version"

func (s *submission) signWith(bn *fakebn.BN, key tbls.PrivateKey) {
	cv, err := s.coreView()
	must(err)
	*s.sig() = signPartial(bn, key, cv)
}

type snapshot struct {
	root   [32]byte
	sig    eth2p0.BLSSignature
	who    eth2p0.ValidatorIndex
	hasWho bool
	ok     bool
}

func (s *submission) snap(bn *fakebn.BN) snapshot {
	cv, err := s.coreView()
	if err != nil {
		return snapshot{}
	}
	var sn snapshot
	func() {
		defer func() {
			if recover() != nil {
				sn.ok = false
			}
		}()
		r, err := specsign.SigningRoot(bn, cv)
		if err != nil {
			return
		}
		sn.root, sn.ok = r, true
	}()
	if !sn.ok {
		return snapshot{}
	}
	sn.sig = *s.sig()
	sn.who, sn.hasWho = s.who()
	return sn
}

var vcAlterations = []string{"leaf", "leaf", "leaf", "leaf", "leaf", "other_share", "other_validator_same_share", "wrong_domain", "other_fork", "zero_domain_while_domain_unavailable", "zero_signature", "proposal_payload_resigned"}

func TestC10ValidatorAPI(t *testing.T) {
	vstat.Rule("C10", ruleVC)
	vstat.Assume("alterations that leave signing root, signature bytes and the named validator unchanged (unsigned metadata) assert nothing")
	rapid.Check(t, func(rt *rapid.T) {
		n := rapid.SampledFrom([]int{3, 4, 6}).Draw(rt, "n")
		cl := newCluster(n, rapid.IntRange(0, 2).Draw(rt, "forksAtGenesis") == 0)
		me := rapid.IntRange(1, n).Draw(rt, "me")
		vi := rapid.IntRange(0, len(cl.vals)-1).Draw(rt, "validator")
		v := cl.vals[vi]
		bi := rapid.IntRange(0, len(builders)-1).Draw(rt, "endpoint")
		seed := int64(rapid.IntRange(1, 1<<30).Draw(rt, "seed"))

		// positive control
		s := builders[bi](t, cl, v, me, seed)
		s.signWith(cl.bn, v.shares[me])
		w := newWiring()
		s.install(w)
		comp, rec := newComponent(cl, me, w)
		if err := s.call(comp); err != nil {
			rt.Fatalf("VALID REJECTED: %s (validator %d, share %d): %v", s.endpoint, vi, me, err)
		}
		if len(*rec) != 2 {
			rt.Fatalf("VALID: %s produced %d subscriber calls, want 2 (one per subscriber)", s.endpoint, len(*rec))
		}
		for _, r := range *rec {
			p, ok := r.set[v.corePub]
			if !ok || len(r.set) != 1 || p.ShareIdx != me || r.duty.Type != s.duty {
				rt.Fatalf("VALID: %s subscriber got duty %v set %v", s.endpoint, r.duty, r.set)
			}
			if string(p.Signature()) != string(s.sig()[:]) {
				rt.Fatalf("VALID: %s subscriber got another signature than submitted", s.endpoint)
			}
		}

		// altered submission
		s = builders[bi](t, cl, v, me, seed)
		s.signWith(cl.bn, v.shares[me])
		before := s.snap(cl.bn)
		if !before.ok {
			rt.Fatalf("HARNESS-ERROR: no signing root for valid %s", s.endpoint)
		}
		alt := vcAlterations[rapid.IntRange(0, len(vcAlterations)-1).Draw(rt, "alteration")]
		forceDomainFault := false
		detail := ""
		mustReject := false
		switch alt {
		case "leaf":
			leaves := valgen.Leaves(s.api)
			l := leaves[rapid.IntRange(0, len(leaves)-1).Draw(rt, "leaf")]
			l.Mutate(rapid.IntRange(0, 1023).Draw(rt, "bit"))
			detail = l.Path
			after := s.snap(cl.bn)
			mustReject = !after.ok || after.root != before.root || after.sig != before.sig || after.who != before.who || after.hasWho != before.hasWho
		case "other_share":
			other := me%n + 1
			s.signWith(cl.bn, v.shares[other])
			mustReject = true
		case "other_validator_same_share":
			s.signWith(cl.bn, cl.vals[(vi+1)%len(cl.vals)].shares[me])
			mustReject = true
		case "wrong_domain", "other_fork", "zero_domain_while_domain_unavailable":
			cv, _ := s.coreView()
			spec, err := specsign.Of(cl.bn, cv)
			must(err)
			var domain eth2p0.Domain
			if alt == "zero_domain_while_domain_unavailable" {
				// the beacon node cannot supply signing domains for the next requests, and the signature is made
				// over the object root with the all-zero domain (what a verifier that loses the error computes)
				forceDomainFault = true
			} else if alt == "wrong_domain" {
				other := "DOMAIN_BEACON_ATTESTER"
				if spec.Domain == other {
					other = "DOMAIN_RANDAO"
				}
				domain = specsign.DomainOf(cl.bn, specsign.Spec{Domain: other, Epoch: spec.Epoch})
			} else {
				cur := cl.bn.ForkAt(spec.Epoch)
				if spec.Domain == "DOMAIN_VOLUNTARY_EXIT" {
					cur = cl.bn.ForkByName("capella")
				}
				of := cl.bn.Forks[rapid.IntRange(0, len(cl.bn.Forks)-1).Draw(rt, "fork")]
				if of.Version == cur.Version {
					rt.Skip("same fork")
				}
				domain = fakebn.ComputeDomain(fakebn.DomainTypes[spec.Domain], of.Version, cl.bn.GenesisValidatorsRoot)
				detail = of.Name
			}
			sr := mustRoot(&eth2p0.SigningData{ObjectRoot: spec.Root, Domain: domain})
			sg, err := tbls.Sign(v.shares[me], sr[:])
			must(err)
			*s.sig() = eth2p0.BLSSignature(sg)
			mustReject = true
		case "zero_signature":
			*s.sig() = eth2p0.BLSSignature{}
			mustReject = true
		case "proposal_payload_resigned":
			if s.duty != core.DutyProposer {
				rt.Skip("not a proposal endpoint")
			}
			leaves := valgen.Leaves(s.api)
			l := leaves[rapid.IntRange(0, len(leaves)-1).Draw(rt, "leaf")]
			l.Mutate(rapid.IntRange(0, 1023).Draw(rt, "bit"))
			after := s.snap(cl.bn)
			if !after.ok || after.root == before.root {
				rt.Skip("payload unchanged or structure broken")
			}
			// a perfectly valid signature of the right share over a block that was not agreed (a mutated leaf
			// can leave a block that no longer encodes, e.g. a bit list ending in a zero byte: nothing to sign)
			cvm, cerr := s.coreView()
			if cerr != nil {
				rt.Skip("structure broken")
			}
			signedAlt, serr := specsign.Sign(cl.bn, v.shares[me], cvm)
			if serr != nil {
				rt.Skip("altered block does not encode: " + serr.Error())
			}
			copy((*s.sig())[:], signedAlt.Signature())
			detail = l.Path
			mustReject = true
		}
		// the altered submission reaches a fresh component or (half of the cases) the very component that has
		// just admitted the valid one: whatever a component remembers about what it verified must not help
		sameComponent := rapid.Bool().Draw(rt, "sameComponent")
		if sameComponent {
			*rec = nil
		} else {
			w = newWiring()
			sClean := builders[bi](t, cl, v, me, seed) // wiring answers come from an untouched twin
			sClean.install(w)
			comp, rec = newComponent(cl, me, w)
		}
		var err error
		faulted, disarm := beaconFault(rt, cl.bn)
		if forceDomainFault {
			cl.bn.Fail("domain", 4)
			cl.bn.Fail("genesis_domain", 4)
			faulted = true
		}
		func() {
			defer func() {
				if r := recover(); r != nil {
					err = fmt.Errorf("panic: %v", r)
					if mustReject {
						return
					}
				}
			}()
			err = s.call(comp)
		}()
		disarm()
		if mustReject {
			if err == nil {
				rt.Fatalf("ADMITTED: %s accepted a submission altered by %s %s (validator %d, node share %d)", s.endpoint, alt, detail, vi, me)
			}
			if len(*rec) != 0 {
				rt.Fatalf("ADMITTED: %s returned %v but subscribers were called %d times (%s %s)", s.endpoint, err, len(*rec), alt, detail)
			}
		}
		vstat.Case(fmt.Sprintf("%s/%s/%s/%d", s.endpoint, alt, detail, seed), mustReject, "vc:"+s.endpoint, "alt:"+alt, cls("no_assertion(unsigned metadata)", !mustReject), cls("altered_after_valid_on_same_component", sameComponent), cls("altered_during_beacon_config_fault", faulted))
		if mustReject && vstat.WantSample(s.endpoint) {
			vstat.Sample(s.endpoint, map[string]any{"endpoint": s.endpoint, "alteration": alt, "detail": detail, "n": n, "share": me, "error": fmt.Sprint(err)})
		}
	})
}

// beaconFault arms, in one altered case of four, a transient fault of the beacon node's configuration endpoints
// (spec / signing domain) for the next one or two requests: as a plain error, as the typed error an HTTP client
// reports for a 5xx answer, or as a timeout. Whatever the node does with such a fault, it must not admit what it
// could not verify. The returned function disarms it.
func beaconFault(rt *rapid.T, bn *fakebn.BN) (armed bool, disarm func()) {
	disarm = func() { bn.Fail("spec", 0); bn.Fail("domain", 0); bn.Fail("genesis_domain", 0) }
	if rapid.IntRange(0, 3).Draw(rt, "beaconFault") != 0 {
		return false, disarm
	}
	n := rapid.IntRange(1, 2).Draw(rt, "faults")
	at := rapid.SampledFrom([]string{"spec", "domain", "domain", "genesis_domain"}).Draw(rt, "faultAt")
	ferr := []error{nil, &eth2api.Error{Method: "GET", Endpoint: "/eth/v1/config/spec", StatusCode: 503, Data: []byte("service unavailable")},
		&eth2api.Error{Method: "GET", Endpoint: "/eth/v1/config/spec", StatusCode: 500, Data: []byte("internal error")}, fmt.Errorf("config: %w", context.DeadlineExceeded)}[rapid.IntRange(0, 3).Draw(rt, "faultKind")]
	if ferr == nil {
		bn.Fail(at, n)
	} else {
		bn.FailAs(at, n, ferr)
	}
	return true, disarm
}

// ---------------------------------------------------------------- peer path

func peerKey(i int) *k1.PrivateKey {
	h := sha256.Sum256([]byte(fmt.Sprintf("verif-c10-peer-%d", i)))
	return k1.PrivKeyFromBytes(h[:])
}

var peerAlterations = []string{"bare_signature_duty", "other_duty_type", "leaf", "leaf", "leaf", "signed_by_other_share", "other_validator_pubkey", "unknown_pubkey", "share_idx_0", "share_idx_n+1", "share_idx_negative", "claims_receivers_share_idx", "claims_third_share_idx", "zero_signature", "gated_slot", "gated_slot", "invalid_duty_type", "wrong_domain", "other_fork", "zero_domain_while_domain_unavailable"}

func TestC10PeerPath(t *testing.T) {
	vstat.Rule("C10", rulePeer)
	ctx := context.Background()
	kinds := []valgen.Kind{}
	for _, k := range valgen.SignedKinds() {
		if k.Duty != core.DutySignature {
			kinds = append(kinds, k)
		}
	}
	rapid.Check(t, func(rt *rapid.T) {
		n := rapid.SampledFrom([]int{3, 4, 6}).Draw(rt, "n")
		cl := newCluster(n, rapid.IntRange(0, 2).Draw(rt, "forksAtGenesis") == 0)
		meIdx := rapid.IntRange(0, n-1).Draw(rt, "me")
		from := (meIdx + 1 + rapid.IntRange(0, n-2).Draw(rt, "from")) % n
		share := from + 1
		vi := rapid.IntRange(0, len(cl.vals)-1).Draw(rt, "validator")
		v := cl.vals[vi]
		k := kinds[rapid.IntRange(0, len(kinds)-1).Draw(rt, "kind")]
		seed := int64(rapid.IntRange(1, 1<<30).Draw(rt, "seed"))
		var peers []peer.ID
		for i := 0; i < n; i++ {
			id, err := p2p.PeerIDFromKey(peerKey(i).PubKey())
			must(err)
			peers = append(peers, id)
		}
		// the node's clock: any slot of an epoch (first, middle, last) and any instant inside the slot
		alt := peerAlterations[rapid.IntRange(0, len(peerAlterations)-1).Draw(rt, "alteration")]
		slotChoices, instChoices := []int{0, 1, 13, 30, 31, 40, 63}, []int{0, 1, 250, 499, 500, 501, 750, 999}
		if alt == "gated_slot" {
			// where the window's edge moves: around the epoch boundary, around the middle and the end of a slot
			slotChoices, instChoices = []int{31, 63, 30, 0, 32}, []int{0, 499, 500, 999}
		}
		nowSlot := 960 + uint64(rapid.SampledFrom(slotChoices).Draw(rt, "nowSlotOffset"))
		inSlot := time.Duration(rapid.SampledFrom(instChoices).Draw(rt, "nowPermille")) * cl.bn.SlotDur / 1000
		now := cl.bn.GenesisTime.Add(time.Duration(nowSlot)*cl.bn.SlotDur + inSlot)
		gater, err := core.NewDutyGater(ctx, cl.bn, core.WithDutyGaterForT(t, func() time.Time { return now }, 2))
		must(err)
		verifier, err := parsigex.NewEth2Verifier(cl.bn, cl.pubshares())
		must(err)

		// the altered message reaches a fresh exchange component or (half of the cases) the very one that has
		// just admitted the valid message
		sameComponent := rapid.Bool().Draw(rt, "sameComponent")
		var sharedNet *memnet.Net
		var sharedCalls *int
		run := func(duty core.Duty, set core.ParSignedDataSet) (calls int, handled bool) {
			net := sharedNet
			counter := sharedCalls
			if net == nil {
				net = memnet.New()
				counter = new(int)
				ex := parsigex.NewParSigEx(net.Host(peers[meIdx]), p2p.Send, meIdx, peers, verifier, gater)
				ex.Subscribe(func(_ context.Context, _ core.Duty, got core.ParSignedDataSet) error {
					*counter++
					return nil
				})
				if sameComponent {
					sharedNet, sharedCalls = net, counter
				}
			}
			before := *counter
			pbSet, err := core.ParSignedDataSetToProto(set)
			if err != nil {
				return 0, false
			}
			f := net.Inject(peers[from], peers[meIdx], parsigex.Protocols()[0], &pbv1.ParSigExMsg{Duty: core.DutyToProto(duty), DataSet: pbSet})
			net.Take(0)
			net.Deliver(f)
			f.Wait()
			return *counter - before, true
		}

		boundary := rapid.IntRange(0, 3).Draw(rt, "forkBoundary") == 0 && len(cl.bn.Forks) > 1
		var bFork fakebn.Fork
		var bBefore []bool
		if boundary {
			bFork = cl.bn.Forks[rapid.IntRange(1, len(cl.bn.Forks)-1).Draw(rt, "boundaryFork")]
			for i := 0; i < 12; i++ {
				bBefore = append(bBefore, rapid.Bool().Draw(rt, "beforeFork"))
			}
		}
		gen := func() core.SignedData {
			d := valgen.Signed(t, k, seed)
			if boundary {
				// slots / epochs right at a fork activation: where an off-by-one in the signing epoch shows
				ptr := valgen.PtrTo(d)
				for i, l := range valgen.Uint64Leaves(ptr) {
					before := bBefore[i%len(bBefore)]
					switch {
					case strings.HasSuffix(l.Path, ".Slot"):
						x := uint64(bFork.Epoch) * cl.bn.SPE
						if before && x > 0 {
							x--
						}
						l.Set(x)
					case strings.HasSuffix(l.Path, ".Epoch"):
						x := uint64(bFork.Epoch)
						if before && x > 0 {
							x--
						}
						l.Set(x)
					}
				}
				if nv, ok := valgen.Deref(ptr).(core.SignedData); ok {
					d = nv
				}
			}
			if p, ok := d.(core.VersionedSignedProposal); ok && p.Version <= 2 { // pre-merge: outside the signing flow
				rt.Skip("pre-merge proposal")
			}
			return d
		}
		duty := core.Duty{Slot: uint64(rapid.IntRange(0, 1000).Draw(rt, "dutySlot")), Type: k.Duty}
		signedBy := func(d core.SignedData, key tbls.PrivateKey) core.SignedData {
			s, err := specsign.Sign(cl.bn, key, d)
			must(err)
			return s
		}
		valid := signedBy(gen(), v.shares[share])
		if calls, _ := run(duty, core.ParSignedDataSet{v.corePub: {SignedData: valid, ShareIdx: share}}); calls != 1 {
			rt.Fatalf("VALID PEER MESSAGE NOT ADMITTED: %s from share %d: %d subscriber calls", k.Name, share, calls)
		}

		forceDomainFault := false
		detail := ""
		data := signedBy(gen(), v.shares[share])
		set := core.ParSignedDataSet{}
		pub, idx := v.corePub, share
		mustReject := true
		switch alt {
		case "leaf":
			rootBefore, _ := specsign.SigningRoot(cl.bn, data)
			sigBefore := string(data.Signature())
			holder := &struct{ D core.SignedData }{data}
			ptr := valgen.PtrTo(data)
			leaves := valgen.Leaves(ptr)
			if len(leaves) == 0 {
				rt.Skip("no leaves")
			}
			l := leaves[rapid.IntRange(0, len(leaves)-1).Draw(rt, "leaf")]
			l.Mutate(rapid.IntRange(0, 1023).Draw(rt, "bit"))
			holder.D = valgen.Deref(ptr).(core.SignedData)
			data = holder.D
			detail = l.Path
			mustReject = false
			func() {
				defer func() {
					if recover() != nil {
						mustReject = true
					}
				}()
				rootAfter, err := specsign.SigningRoot(cl.bn, data)
				mustReject = err != nil || rootAfter != rootBefore || string(data.Signature()) != sigBefore
			}()
		case "signed_by_other_share":
			data = signedBy(gen(), v.shares[share%n+1])
		case "other_validator_pubkey":
			pub = cl.vals[(vi+1)%len(cl.vals)].corePub
		case "unknown_pubkey":
			raw := make([]byte, 48)
			raw[3] = 9
			pub, _ = core.PubKeyFromBytes(raw)
		case "claims_receivers_share_idx":
			// the sender's own (valid) signature filed under the share index of the node that receives it
			idx = meIdx + 1
		case "claims_third_share_idx":
			if n < 3 {
				rt.Skip("needs a third share")
			}
			for k := 1; k <= n; k++ {
				if k != share && k != meIdx+1 {
					idx = k
					break
				}
			}
		case "share_idx_0":
			idx = 0
		case "share_idx_n+1":
			idx = n + 1
		case "share_idx_negative":
			idx = -1
		case "zero_signature":
			z, err := data.SetSignature(make(core.Signature, 96))
			must(err)
			data = z
		case "gated_slot":
			// the first slots beyond the window (two future epochs are allowed), or further out
			duty.Slot = (nowSlot/cl.bn.SPE+3)*cl.bn.SPE + uint64(rapid.SampledFrom([]int{0, 0, 1, 5, 31, 32, 1600}).Draw(rt, "beyond"))
			if rapid.IntRange(0, 2).Draw(rt, "hugeSlot") == 0 {
				// far beyond the window, including values whose signed interpretation is negative
				duty.Slot = rapid.SampledFrom([]uint64{1 << 63, 1<<63 + 1000, 1<<63 + 1<<62, ^uint64(0), ^uint64(0) - 31, 1 << 62, 1 << 32, 1<<63 - 1}).Draw(rt, "hugeSlotValue")
				detail = fmt.Sprintf("slot=%d", duty.Slot)
			}
		case "invalid_duty_type":
			duty.Type = core.DutyType(rapid.SampledFrom([]int{0, 99}).Draw(rt, "badType"))
		case "bare_signature_duty":
			// duty type "signature" is a valid, gater-accepted type whose payload is a bare signature: there
			// is no object, hence no signing root it could verify for — it must never be admitted from a peer
			duty.Type = core.DutySignature
			sigBytes := append(core.Signature{}, data.Signature()...)
			if rapid.Bool().Draw(rt, "garbageSig") {
				sigBytes[7] ^= 0x10
			}
			data = core.NewPartialSignature(sigBytes, share).SignedData
		case "other_duty_type":
			// the valid object of one duty type offered under another (valid, in-window) duty type
			others := []core.DutyType{core.DutyAttester, core.DutyProposer, core.DutyRandao, core.DutyExit, core.DutyBuilderRegistration, core.DutyPrepareAggregator, core.DutyAggregator, core.DutySyncMessage, core.DutyPrepareSyncContribution, core.DutySyncContribution}
			ot := others[rapid.IntRange(0, len(others)-1).Draw(rt, "otherDuty")]
			if ot == duty.Type {
				rt.Skip("same duty type")
			}
			duty.Type = ot
			detail = ot.String()
		case "wrong_domain", "other_fork", "zero_domain_while_domain_unavailable":
			spec, err := specsign.Of(cl.bn, data)
			must(err)
			var domain eth2p0.Domain
			if alt == "zero_domain_while_domain_unavailable" {
				forceDomainFault = true
			} else if alt == "wrong_domain" {
				other := "DOMAIN_BEACON_ATTESTER"
				if spec.Domain == other {
					other = "DOMAIN_RANDAO"
				}
				domain = specsign.DomainOf(cl.bn, specsign.Spec{Domain: other, Epoch: spec.Epoch})
			} else {
				if spec.Domain == "DOMAIN_APPLICATION_BUILDER" {
					rt.Skip("builder domain has no fork")
				}
				cur := cl.bn.ForkAt(spec.Epoch)
				if spec.Domain == "DOMAIN_VOLUNTARY_EXIT" {
					cur = cl.bn.ForkByName("capella")
				}
				of := cl.bn.Forks[rapid.IntRange(0, len(cl.bn.Forks)-1).Draw(rt, "fork")]
				if of.Version == cur.Version {
					rt.Skip("same fork")
				}
				domain = fakebn.ComputeDomain(fakebn.DomainTypes[spec.Domain], of.Version, cl.bn.GenesisValidatorsRoot)
			}
			sr := mustRoot(&eth2p0.SigningData{ObjectRoot: spec.Root, Domain: domain})
			sg, err := tbls.Sign(v.shares[share], sr[:])
			must(err)
			data, err = data.SetSignature(core.Signature(sg[:]))
			must(err)
		}
		set[pub] = core.ParSignedData{SignedData: data, ShareIdx: idx}
		faulted, disarm := beaconFault(rt, cl.bn)
		if forceDomainFault {
			cl.bn.Fail("domain", 4)
			cl.bn.Fail("genesis_domain", 4)
			faulted = true
		}
		calls, handled := run(duty, set)
		disarm()
		if faulted {
			vstat.Count("peer_altered_during_beacon_config_fault", 1)
		}
		if mustReject && calls != 0 {
			rt.Fatalf("ADMITTED FROM PEER: %s altered by %s %s (claimed share %d of validator %d) reached the subscribers", k.Name, alt, detail, idx, vi)
		}
		vstat.Case(fmt.Sprintf("peer/%s/%s/%s/%d", k.Name, alt, detail, seed), mustReject && handled, "peer:"+k.Name, "peer_alt:"+alt)
		if mustReject && vstat.WantSample("peer:"+alt) {
			vstat.Sample("peer:"+alt, map[string]any{"type": k.Name, "alteration": alt, "detail": detail, "claimed_share": idx, "n": n})
		}
	})
}

func cls(name string, on bool) string {
	if on {
		return name
	}
	return ""
}

// TestC10Batches: the list endpoints accept several submissions in one call. A batch mixes valid
// submissions with an invalid one (for the same validator and slot as a valid one, or for another
// validator), in a drawn order. Oracle (the property itself, not "the whole call fails"): every partial
// signature that reaches a subscriber verifies, for the harness's own signing root of the delivered
// object, under the public share of (validator, this node's share index).
var (
	listOnce     sync.Once
	listBuilders []int
)

func TestC10Batches(t *testing.T) {
	vstat.Rule("C10", "batches: list endpoints called with 2..6 submissions, one to three of them invalid (same validator and slot as a valid one with altered content / other share / zero signature, or another validator), drawn order; oracle: every partial handed to a subscriber verifies under the public share of its validator and this node's share index; non-trivial = the invalid entry shares validator and slot with a valid one")
	rapid.Check(t, func(rt *rapid.T) {
		n := rapid.SampledFrom([]int{3, 4, 6}).Draw(rt, "n")
		cl := newCluster(n, rapid.IntRange(0, 2).Draw(rt, "forksAtGenesis") == 0)
		me := rapid.IntRange(1, n).Draw(rt, "me")
		listOnce.Do(func() {
			for i := range builders {
				if builders[i](t, cl, cl.vals[0], me, 1).batch != nil {
					listBuilders = append(listBuilders, i)
				}
			}
		})
		bi := listBuilders[rapid.IntRange(0, len(listBuilders)-1).Draw(rt, "endpoint")]
		seed := int64(rapid.IntRange(1, 1<<30).Draw(rt, "seed"))
		vi := rapid.IntRange(0, len(cl.vals)-1).Draw(rt, "validator")
		v := cl.vals[vi]
		w := newWiring()

		var items []*submission
		good := builders[bi](t, cl, v, me, seed)
		good.signWith(cl.bn, v.shares[me])
		good.install(w)
		items = append(items, good)
		// optional further valid entries of other validators
		for k := 1; k <= rapid.IntRange(0, 2).Draw(rt, "moreValid"); k++ {
			ov := cl.vals[(vi+k)%len(cl.vals)]
			g := builders[bi](t, cl, ov, me, seed)
			g.signWith(cl.bn, ov.shares[me])
			g.install(w)
			items = append(items, g)
		}
		// One request may span a fork activation: a further entry (of another validator) lies in the last epoch
		// before a fork while the first entry lies in the fork's first epoch (or the other way round), and is
		// signed, consistently, for the fork of the FIRST entry's epoch: invalid for its own epoch. (A handler that
		// resolves the signing epoch once per request admits it.)
		crossFork := false
		if len(cl.vals) > 1 && rapid.IntRange(0, 3).Draw(rt, "crossForkEntry") == 0 {
			var later []fakebn.Fork
			for _, fk := range cl.bn.Forks[1:] {
				if fk.Epoch > 0 {
					later = append(later, fk)
				}
			}
			fk := later[rapid.IntRange(0, len(later)-1).Draw(rt, "crossFork")]
			firstAfter := rapid.Bool().Draw(rt, "firstEntryAfterFork")
			place := func(sub *submission, after bool) bool {
				set := 0
				for _, l := range valgen.Uint64Leaves(sub.api) {
					switch {
					case strings.HasSuffix(l.Path, ".Slot"):
						x := uint64(fk.Epoch) * cl.bn.SPE
						if !after {
							x--
						}
						l.Set(x)
						set++
					case strings.HasSuffix(l.Path, ".Epoch"):
						x := uint64(fk.Epoch)
						if !after {
							x--
						}
						l.Set(x)
						set++
					}
				}
				return set > 0
			}
			ov := cl.vals[(vi+1)%len(cl.vals)]
			x := builders[bi](t, cl, ov, me, seed)
			if place(good, firstAfter) && place(x, !firstAfter) {
				good.signWith(cl.bn, v.shares[me])
				good.install(w)
				x.install(w)
				if cv, err := x.coreView(); err == nil {
					if spec, err := specsign.Of(cl.bn, cv); err == nil && spec.Domain != "DOMAIN_APPLICATION_BUILDER" && spec.Domain != "DOMAIN_VOLUNTARY_EXIT" {
						gcv, _ := good.coreView()
						gspec, gerr := specsign.Of(cl.bn, gcv)
						if gerr == nil && cl.bn.ForkAt(gspec.Epoch).Version != cl.bn.ForkAt(spec.Epoch).Version {
							domain := fakebn.ComputeDomain(fakebn.DomainTypes[spec.Domain], cl.bn.ForkAt(gspec.Epoch).Version, cl.bn.GenesisValidatorsRoot)
							sr := mustRoot(&eth2p0.SigningData{ObjectRoot: spec.Root, Domain: domain})
							sg, err := tbls.Sign(ov.shares[me], sr[:])
							must(err)
							*x.sig() = eth2p0.BLSSignature(sg)
							items = append(items, x)
							crossFork = true
						}
					}
				}
			}
		}
		// the invalid entries (one, sometimes two or three: what a handler does after the first refusal matters)
		nBad := rapid.SampledFrom([]int{1, 1, 2, 3}).Draw(rt, "invalidEntries")
		if crossFork {
			nBad = rapid.IntRange(0, 1).Draw(rt, "invalidEntriesBesidesCrossFork")
		}
		sameKey := false
		how, pos := "", 0
		for b := 0; b < nBad; b++ {
			same := rapid.IntRange(0, 2).Draw(rt, "sameValidatorAndSlot") != 0
			bv := v
			if !same {
				bv = cl.vals[(vi+1+rapid.IntRange(0, len(cl.vals)-2).Draw(rt, "otherVal"))%len(cl.vals)]
			}
			sameKey = sameKey || same
			bad := builders[bi](t, cl, bv, me, seed)
			bad.signWith(cl.bn, bv.shares[me])
			bad.install(w)
			how = rapid.SampledFrom([]string{"content_changed_old_signature", "other_share", "zero_signature", "garbage_signature"}).Draw(rt, "how")
			switch how {
			case "content_changed_old_signature":
				before := bad.snap(cl.bn)
				leaves := valgen.Leaves(bad.api)
				l := leaves[rapid.IntRange(0, len(leaves)-1).Draw(rt, "leaf")]
				l.Mutate(rapid.IntRange(0, 1023).Draw(rt, "bit"))
				after := bad.snap(cl.bn)
				if after.ok && after.root == before.root && after.sig == before.sig {
					rt.Skip("alteration does not change signed content")
				}
			case "other_share":
				bad.signWith(cl.bn, bv.shares[me%n+1])
			case "zero_signature":
				*bad.sig() = eth2p0.BLSSignature{}
			default:
				sg := bad.sig()
				sg[5] ^= 0x40
				sg[70] ^= 0x01
			}
			pos = rapid.IntRange(0, len(items)).Draw(rt, "position")
			items = append(items[:pos], append([]*submission{bad}, items[pos:]...)...)
		}

		comp, rec := newComponent(cl, me, w)
		var err error
		func() {
			defer func() {
				if r := recover(); r != nil {
					err = fmt.Errorf("panic: %v", r)
				}
			}()
			err = items[0].batch(comp, items)
		}()
		pubs := cl.pubshares()
		for _, r := range *rec {
			for pk, p := range r.set {
				ps, ok := pubs[pk][p.ShareIdx]
				if !ok || p.ShareIdx != me {
					rt.Fatalf("ADMITTED: %s batch delivered a partial for %s with share index %d (node share %d)", good.endpoint, pk[:10], p.ShareIdx, me)
				}
				if verr := specsign.Verify(cl.bn, ps, p.SignedData); verr != nil {
					rt.Fatalf("ADMITTED: %s batch (invalid entry %q at position %d of %d, same validator and slot: %v) handed a subscriber a partial for %s that does not verify under its public share: %v (call error: %v)",
						good.endpoint, how, pos, len(items), sameKey, pk[:10], verr, err)
				}
			}
		}
		vstat.Case(fmt.Sprintf("batch/%s/%s/%d/%d/%v/%d/%v", good.endpoint, how, pos, len(items), sameKey, seed, crossFork), sameKey || crossFork, "batch:"+good.endpoint, "batch_how:"+how, fmt.Sprintf("batch_invalid_entries:%d", nBad), cls("batch_rejected_whole", err != nil), cls("batch_delivered_some", len(*rec) > 0), cls("batch_with_entry_signed_for_the_first_entrys_fork", crossFork))
	})
}

// TestC10PeerBatches: a peer message may carry partial signatures for several validators. One entry of a
// drawn position is invalid (signed by another share, for altered content, zero); the same frame is
// delivered several times to fresh components because the receiver walks the set in map order. Oracle:
// whatever reaches a subscriber verifies under the public share of its validator and the claimed share.
func TestC10PeerBatches(t *testing.T) {
	vstat.Rule("C10", "peer batches: ParSigExMsg frames carrying 2..3 validators of which one entry is invalid (other share, other content with the old signature, zero signature), each frame delivered 6 times to fresh production parsigex components; oracle: every partial that reaches a subscriber verifies under the public share of its validator and claimed share index; non-trivial = always")
	ctx := context.Background()
	kinds := []valgen.Kind{}
	for _, k := range valgen.SignedKinds() {
		if k.Duty != core.DutySignature {
			kinds = append(kinds, k)
		}
	}
	rapid.Check(t, func(rt *rapid.T) {
		n := rapid.SampledFrom([]int{3, 4, 6}).Draw(rt, "n")
		cl := newCluster(n, rapid.IntRange(0, 2).Draw(rt, "forksAtGenesis") == 0)
		meIdx := rapid.IntRange(0, n-1).Draw(rt, "me")
		from := (meIdx + 1 + rapid.IntRange(0, n-2).Draw(rt, "from")) % n
		share := from + 1
		k := kinds[rapid.IntRange(0, len(kinds)-1).Draw(rt, "kind")]
		seed := int64(rapid.IntRange(1, 1<<30).Draw(rt, "seed"))
		var peers []peer.ID
		for i := 0; i < n; i++ {
			id, err := p2p.PeerIDFromKey(peerKey(i).PubKey())
			must(err)
			peers = append(peers, id)
		}
		now := cl.bn.GenesisTime.Add(1000 * cl.bn.SlotDur)
		gater, err := core.NewDutyGater(ctx, cl.bn, core.WithDutyGaterForT(t, func() time.Time { return now }, 2))
		must(err)
		verifier, err := parsigex.NewEth2Verifier(cl.bn, cl.pubshares())
		must(err)
		base := valgen.Signed(t, k, seed)
		if p, ok := base.(core.VersionedSignedProposal); ok && p.Version <= 2 {
			rt.Skip("pre-merge proposal")
		}
		nEntries := rapid.IntRange(2, len(cl.vals)).Draw(rt, "entries")
		badAt := rapid.IntRange(0, nEntries-1).Draw(rt, "invalidEntry")
		how := rapid.SampledFrom([]string{"other_share", "other_content_old_signature", "zero_signature"}).Draw(rt, "how")
		set := core.ParSignedDataSet{}
		for i := 0; i < nEntries; i++ {
			v := cl.vals[i]
			s, err := specsign.Sign(cl.bn, v.shares[share], base)
			must(err)
			if i == badAt {
				switch how {
				case "other_share":
					s, err = specsign.Sign(cl.bn, v.shares[share%n+1], base)
					must(err)
				case "other_content_old_signature":
					other := valgen.Signed(t, k, seed+7919)
					r1, e1 := specsign.SigningRoot(cl.bn, other)
					r2, e2 := specsign.SigningRoot(cl.bn, base)
					if e1 != nil || e2 != nil || r1 == r2 {
						rt.Skip("other value has the same signing root")
					}
					moved, err := other.SetSignature(s.Signature())
					if err != nil {
						rt.Skip("cannot move signature")
					}
					s = moved
				default:
					z, err := s.SetSignature(make(core.Signature, 96))
					must(err)
					s = z
				}
			}
			set[v.corePub] = core.ParSignedData{SignedData: s, ShareIdx: share}
		}
		duty := core.Duty{Slot: uint64(rapid.IntRange(0, 1000).Draw(rt, "dutySlot")), Type: k.Duty}
		pbSet, err := core.ParSignedDataSetToProto(set)
		if err != nil {
			rt.Skip("set does not encode")
		}
		pubs := cl.pubshares()
		delivered := 0
		for rep := 0; rep < 6; rep++ {
			net := memnet.New()
			ex := parsigex.NewParSigEx(net.Host(peers[meIdx]), p2p.Send, meIdx, peers, verifier, gater)
			var got []core.ParSignedDataSet
			ex.Subscribe(func(_ context.Context, _ core.Duty, s core.ParSignedDataSet) error {
				got = append(got, s)
				return nil
			})
			f := net.Inject(peers[from], peers[meIdx], parsigex.Protocols()[0], &pbv1.ParSigExMsg{Duty: core.DutyToProto(duty), DataSet: pbSet})
			net.Take(0)
			net.Deliver(f)
			f.Wait()
			for _, s := range got {
				delivered++
				for pk, p := range s {
					ps, ok := pubs[pk][p.ShareIdx]
					if !ok {
						rt.Fatalf("ADMITTED FROM PEER: batch delivered a partial for an unknown validator / share %d", p.ShareIdx)
					}
					if verr := specsign.Verify(cl.bn, ps, p.SignedData); verr != nil {
						rt.Fatalf("ADMITTED FROM PEER: a %d-validator %s set with one invalid entry (%s, validator %d) reached the subscribers; the partial for %s does not verify under its public share: %v", nEntries, k.Name, how, badAt, pk[:10], verr)
					}
				}
			}
		}
		vstat.Case(fmt.Sprintf("peerbatch/%s/%d/%d/%s/%d", k.Name, nEntries, badAt, how, seed), true, "peer_batch:"+how, cls("peer_batch_delivered_some", delivered > 0))
	})
}
