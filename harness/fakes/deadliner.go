// Package fakes holds the small scripted stand-ins the checks plug into production components.
package fakes

import (
	"sync"

	"github.com/obolnetwork/charon/core"
)

// Deadliner is a scripted core.Deadliner: the harness decides which duties are expired / exempt and
// when a duty is emitted on C().
type Deadliner struct {
	mu      sync.Mutex
	expired map[core.Duty]bool
	exempt  map[core.DutyType]bool
	added   map[core.Duty]int
	ch      chan core.Duty
	// OnAdd, if set, runs inside every Add call after the answer has been determined and before it is
	// returned (not under the deadliner's own lock): the harness can let things happen exactly while the
	// component under test is inside its deadliner call.
	OnAdd func(duty core.Duty, status core.DeadlineStatus)
}

func NewDeadliner(exemptTypes ...core.DutyType) *Deadliner {
	d := &Deadliner{expired: map[core.Duty]bool{}, exempt: map[core.DutyType]bool{}, added: map[core.Duty]int{}, ch: make(chan core.Duty, 64)}
	for _, t := range exemptTypes {
		d.exempt[t] = true
	}
	return d
}

func (d *Deadliner) Add(duty core.Duty) core.DeadlineStatus {
	d.mu.Lock()
	d.added[duty]++
	status := core.DeadlineScheduled
	switch {
	case d.exempt[duty.Type]:
		status = core.DeadlineExempt
	case d.expired[duty]:
		status = core.DeadlineExpired
	}
	hook := d.OnAdd
	d.mu.Unlock()
	if hook != nil {
		hook(duty, status)
	}
	return status
}

func (d *Deadliner) C() <-chan core.Duty { return d.ch }

// Expire marks the duty expired (Add answers Expired from now on) and emits it on C().
func (d *Deadliner) Expire(duty core.Duty) {
	d.mu.Lock()
	d.expired[duty] = true
	d.mu.Unlock()
	d.ch <- duty
}

// Emit sends the duty on C() without touching its status (the second half of Expire, for a trim that lags).
func (d *Deadliner) Emit(duty core.Duty) { d.ch <- duty }

// MarkExpired only flips the status (no emission).
func (d *Deadliner) MarkExpired(duty core.Duty) {
	d.mu.Lock()
	d.expired[duty] = true
	d.mu.Unlock()
}

func (d *Deadliner) IsExpired(duty core.Duty) bool {
	d.mu.Lock()
	defer d.mu.Unlock()
	return d.expired[duty]
}
