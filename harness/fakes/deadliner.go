// Package fakes holds the small scripted stand-ins the checks plug into production components.
package fakes

import (
	"sync"

	"github.com/obolnetwork/charon/core"
)

// Deadliner is a scripted core.Deadliner: the harness decides which duties are expired / exempt and
// when a duty is emitted on C().
type Deadliner struct {
	mu      sync.Mutex
	expired map[core.Duty]bool
	exempt  map[core.DutyType]bool
	added   map[core.Duty]int
	ch      chan core.Duty
}

func NewDeadliner(exemptTypes ...core.DutyType) *Deadliner {
	d := &Deadliner{expired: map[core.Duty]bool{}, exempt: map[core.DutyType]bool{}, added: map[core.Duty]int{}, ch: make(chan core.Duty, 64)}
	for _, t := range exemptTypes {
		d.exempt[t] = true
	}
	return d
}

func (d *Deadliner) Add(duty core.Duty) core.DeadlineStatus {
	d.mu.Lock()
	defer d.mu.Unlock()
	d.added[duty]++
	switch {
	case d.exempt[duty.Type]:
		return core.DeadlineExempt
	case d.expired[duty]:
		return core.DeadlineExpired
	default:
		return core.DeadlineScheduled
	}
}

func (d *Deadliner) C() <-chan core.Duty { return d.ch }

// Expire marks the duty expired (Add answers Expired from now on) and emits it on C().
func (d *Deadliner) Expire(duty core.Duty) {
	d.mu.Lock()
	d.expired[duty] = true
	d.mu.Unlock()
	d.ch <- duty
}

// MarkExpired only flips the status (no emission).
func (d *Deadliner) MarkExpired(duty core.Duty) {
	d.mu.Lock()
	d.expired[duty] = true
	d.mu.Unlock()
}

func (d *Deadliner) IsExpired(duty core.Duty) bool {
	d.mu.Lock()
	defer d.mu.Unlock()
	return d.expired[duty]
}
