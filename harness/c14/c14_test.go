// C14 — duty data encoding is lossless, deterministic and total.
package c14

import (
	"bytes"
	"context"
	"encoding/json"
	"fmt"
	"os"
	"reflect"
	"runtime/debug"
	"strings"
	"sync"
	"testing"
	"time"

	eth2p0 "github.com/attestantio/go-eth2-client/spec/phase0"
	ssz "github.com/ferranbt/fastssz"
	"google.golang.org/protobuf/proto"
	"pgregory.net/rapid"

	"github.com/obolnetwork/charon/core"
	"github.com/obolnetwork/charon/core/aggsigdb"
	pbv1 "github.com/obolnetwork/charon/core/corepb/v1"
	"github.com/obolnetwork/charon/core/dutydb"
	"github.com/obolnetwork/charon/core/parsigdb"
	"github.com/obolnetwork/charon/core/parsigex"
	"github.com/obolnetwork/charon/core/sigagg"
	"github.com/obolnetwork/charon/tbls"

	"verifharness/fakebn"
	"verifharness/fakes"
	"verifharness/valgen"
	"verifharness/vstat"
)

func TestMain(m *testing.M) { vstat.Main(m) }

const ruleRT = "round trips: every core data type x fork version (testutil fuzzer, seed drawn) through JSON, SSZ (where implemented) and the protobuf set converters; clone equality and disjointness; marshalling twice and sets built in different insertion orders give identical (deterministic) bytes; non-trivial = every case; distinct by (type, seed)"
const ruleMut = "totality: valid encodings of every type mutated structurally (each JSON node -> null / wrong type / empty list / list with null / removed / empty object / huge number), SSZ truncations, splices, offset overwrites and byte flips, bytes of one type offered under every other duty type, arbitrary bytes; pushed through the decode step and everything the receive (eth2 verifier, partial-signature store, aggregator, aggregate store), consensus-decide (duty store, every Await*) and re-encode paths apply to a decoded value; oracle: error or a value every later operation survives - any panic is the violation; non-trivial = mutated input that still decodes; distinct by (type, duty context, mutation, path)"

func pk(b byte) core.PubKey {
	raw := make([]byte, 48)
	raw[0] = b
	p, err := core.PubKeyFromBytes(raw)
	if err != nil {
		panic(err)
	}
	return p
}

func render(v any) string {
	b, err := json.Marshal(v)
	if err != nil {
		return "RENDER-ERROR: " + err.Error()
	}
	return string(b)
}

// hostileUints are scalar values whose first (little-endian) byte is JSON syntax, whitespace, or an
// extreme, or whose low bytes equal an offset constant of the SSZ containers (12, 13, 20: the offsets of the
// versioned wrappers; multiples of 4 up to 256: first offsets of the inner containers); the upper bytes are
// optionally randomised.
var hostileUints = []uint64{'{', '[', '"', ' ', '\n', '\t', '}', ']', 'n', 't', 'f', '0', '-', 0, 1, 0xff, 0x7b7b7b7b7b7b7b7b, 0x207b, 0x0a7b, 1<<63 | '{', ^uint64(0), 1 << 32,
	12, 13, 20, 12, 13, 20, 1<<32 | 20, 1<<32 | 12, 4, 8, 16, 24, 84, 100, 228, 232, 236}

// offsetConstants: values a 4-byte SSZ offset field can hold in these containers. A scalar whose low 32 bits
// equal one of them (whatever its upper half) looks like an offset to a decoder that sniffs the layout.
var offsetConstants = []uint64{12, 12, 12, 13, 13, 20, 20, 20, 4, 8, 16, 24, 84, 100, 228, 232, 236}

func TestC14RoundTrip(t *testing.T) {
	vstat.Rule("C14", ruleRT)
	rapid.Check(t, func(rt *rapid.T) {
		k := valgen.Kinds[rapid.IntRange(0, len(valgen.Kinds)-1).Draw(rt, "kind")]
		seed := int64(rapid.IntRange(1, 1<<30).Draw(rt, "seed"))
		ptr := valgen.GenPtr(t, k, seed)
		// Encodings are sniffed by their leading bytes (SSZ first, JSON second), so slots, indices and
		// amounts are also set to values whose little-endian bytes look like JSON or are extreme.
		hostile := ""
		if leaves := valgen.Uint64Leaves(ptr); len(leaves) > 0 && rapid.IntRange(0, 3).Draw(rt, "leadingScalarLooksLikeOffset") == 0 {
			// the first scalar of the value (what follows the version / leading offsets in its SSZ form) holds
			// an offset constant in its low half
			x := rapid.SampledFrom(offsetConstants).Draw(rt, "leading_offset_value")
			if rapid.Bool().Draw(rt, "leading_upper_half") {
				x |= uint64(rapid.IntRange(1, 1<<20).Draw(rt, "leading_upper")) << 32
			}
			leaves[0].Set(x)
			hostile = leaves[0].Path
		} else if len(leaves) > 0 && rapid.IntRange(0, 2).Draw(rt, "hostile") > 0 {
			nset := rapid.IntRange(1, min(3, len(leaves))).Draw(rt, "hostile_n")
			for j := 0; j < nset; j++ {
				var li int
				if rapid.Bool().Draw(rt, "hostile_first") {
					li = rapid.IntRange(0, min(2, len(leaves)-1)).Draw(rt, "leaf_head")
				} else {
					li = rapid.IntRange(0, len(leaves)-1).Draw(rt, "leaf")
				}
				var x uint64
				if rapid.IntRange(0, 2).Draw(rt, "hostile_offset_constant") == 0 {
					x = rapid.SampledFrom(offsetConstants).Draw(rt, "offset_value")
					if rapid.Bool().Draw(rt, "offset_upper_half") {
						x |= uint64(rapid.IntRange(1, 1<<20).Draw(rt, "upper")) << 32
					}
				} else {
					x = rapid.SampledFrom(hostileUints).Draw(rt, "hostile_value")
					if rapid.Bool().Draw(rt, "hostile_high") {
						x |= uint64(rapid.IntRange(0, 1<<20).Draw(rt, "high")) << 8
					}
				}
				if x == 0 && (strings.HasSuffix(leaves[li].Path, "CommitteeLength") || strings.HasSuffix(leaves[li].Path, "CommitteesAtSlot")) {
					x = 1 // the attester duty's own decoder declares zero invalid for these two fields
				}
				leaves[li].Set(x)
				hostile = leaves[li].Path
			}
		}
		val := reflect.ValueOf(ptr).Elem().Interface()
		want := render(val)
		if strings.HasPrefix(want, "RENDER-ERROR") {
			rt.Fatalf("%s seed %d does not marshal: %s", k.Name, seed, want)
		}
		// JSON
		p2 := k.New()
		if err := json.Unmarshal([]byte(want), p2); err != nil {
			rt.Fatalf("JSON: %s does not decode its own encoding: %v", k.Name, err)
		}
		if got := render(reflect.ValueOf(p2).Elem().Interface()); got != want {
			rt.Fatalf("JSON LOSSY: %s changes in a JSON round trip\n was %.300s\n now %.300s", k.Name, want, got)
		}
		if !sameValue(k.Name, val, reflect.ValueOf(p2).Elem().Interface()) {
			rt.Fatalf("JSON LOSSY: %s: the value decoded from its JSON form is not equal to the original (a field is not carried)", k.Name)
		}
		// marshalling is a pure function
		if again := render(val); again != want {
			rt.Fatalf("NON-DETERMINISTIC: %s marshals differently the second time", k.Name)
		}
		// SSZ
		if m, ok := ptr.(ssz.Marshaler); ok {
			b1, err := m.MarshalSSZ()
			if err != nil {
				rt.Fatalf("SSZ: %s marshal: %v", k.Name, err)
			}
			b2, _ := m.MarshalSSZ()
			if !bytes.Equal(b1, b2) {
				rt.Fatalf("NON-DETERMINISTIC: %s SSZ differs between two calls", k.Name)
			}
			p3 := k.New()
			if pv, isProp := p3.(*core.VersionedSignedProposal); isProp {
				pv.Blinded = strings.Contains(k.Name, "blinded")
			}
			u, ok := p3.(ssz.Unmarshaler)
			if !ok {
				rt.Fatalf("SSZ: %s marshals but cannot unmarshal", k.Name)
			}
			if err := u.UnmarshalSSZ(b1); err != nil {
				rt.Fatalf("SSZ: %s does not decode its own encoding: %v", k.Name, err)
			}
			if got := render(reflect.ValueOf(p3).Elem().Interface()); got != want {
				rt.Fatalf("SSZ LOSSY: %s changes in an SSZ round trip\n was %.300s\n now %.300s", k.Name, want, got)
			}
			if !sameValue(k.Name, val, reflect.ValueOf(p3).Elem().Interface()) {
				rt.Fatalf("SSZ LOSSY: %s: the value decoded from its SSZ form is not equal to the original (a field is not carried)", k.Name)
			}
		}
		// protobuf set converters + clone
		if k.Unsigned {
			u := val.(core.UnsignedData)
			set := core.UnsignedDataSet{pk(1): u}
			pb, err := core.UnsignedDataSetToProto(set)
			if err != nil {
				rt.Fatalf("PROTO: %s to proto: %v", k.Name, err)
			}
			wire, err := proto.Marshal(pb)
			must(err)
			var pb2 pbv1.UnsignedDataSet
			must(proto.Unmarshal(wire, &pb2))
			back, err := core.UnsignedDataSetFromProto(k.Duty, &pb2)
			if err != nil {
				rt.Fatalf("PROTO: %s from proto under duty %v: %v", k.Name, k.Duty, err)
			}
			if got := render(back[pk(1)]); got != want {
				rt.Fatalf("PROTO LOSSY: %s changes through the unsigned set converters\n was %.300s\n now %.300s", k.Name, want, got)
			}
			c, err := u.Clone()
			if err != nil {
				rt.Fatalf("CLONE: %s: %v", k.Name, err)
			}
			if render(c) != want {
				rt.Fatalf("CLONE: %s clone differs from the original", k.Name)
			}
			if sh := valgen.Shared(u, c); len(sh) > 0 {
				rt.Fatalf("CLONE: %s clone shares memory with the original at %s", k.Name, sh[0].Path)
			}
			// insertion order independence of the deterministic encoding
			other := valgen.Unsigned(t, k, seed+1)
			s1 := core.UnsignedDataSet{}
			s1[pk(1)], s1[pk(2)], s1[pk(3)] = u, other, u
			s2 := core.UnsignedDataSet{}
			s2[pk(3)], s2[pk(2)], s2[pk(1)] = u, other, u
			checkDeterministic(rt, k.Name, s1, s2)
		} else {
			s := val.(core.SignedData)
			share := int(seed%7) + 1
			set := core.ParSignedDataSet{pk(1): {SignedData: s, ShareIdx: share}}
			pb, err := core.ParSignedDataSetToProto(set)
			if err != nil {
				rt.Fatalf("PROTO: %s to proto: %v", k.Name, err)
			}
			wire, err := proto.Marshal(pb)
			must(err)
			var pb2 pbv1.ParSignedDataSet
			must(proto.Unmarshal(wire, &pb2))
			back, err := core.ParSignedDataSetFromProto(k.Duty, &pb2)
			if err != nil {
				rt.Fatalf("PROTO: %s from proto under duty %v: %v", k.Name, k.Duty, err)
			}
			b := back[pk(1)]
			if got := render(b.SignedData); got != want {
				// the aggregator duty decodes the unversioned container first: compare roots instead
				r1, e1 := s.MessageRoot()
				r2, e2 := b.SignedData.MessageRoot()
				if !(k.Duty == core.DutyAggregator && e1 == nil && e2 == nil && r1 == r2 && string(s.Signature()) == string(b.Signature())) {
					rt.Fatalf("PROTO LOSSY: %s changes through the partial-signature set converters\n was %.300s\n now %.300s", k.Name, want, got)
				}
			}
			if b.ShareIdx != share {
				rt.Fatalf("PROTO LOSSY: %s share index %d became %d", k.Name, share, b.ShareIdx)
			}
			if string(b.Signature()) != string(s.Signature()) {
				rt.Fatalf("PROTO LOSSY: %s signature changed", k.Name)
			}
			if k.Duty != core.DutySignature {
				r1, e1 := s.MessageRoot()
				r2, e2 := b.SignedData.MessageRoot()
				if e1 != nil || e2 != nil || r1 != r2 {
					rt.Fatalf("PROTO LOSSY: %s signing root changed (%v %v)", k.Name, e1, e2)
				}
			}
			c, err := s.Clone()
			if err != nil {
				rt.Fatalf("CLONE: %s: %v", k.Name, err)
			}
			if render(c) != want {
				rt.Fatalf("CLONE: %s clone differs from the original", k.Name)
			}
			if sh := valgen.Shared(s, c); len(sh) > 0 {
				rt.Fatalf("CLONE: %s clone shares memory with the original at %s", k.Name, sh[0].Path)
			}
		}
		vstat.Case(fmt.Sprintf("rt/%s/%d/%s", k.Name, seed, hostile), true, "roundtrip:"+k.Name, cls("roundtrip_with_hostile_scalar", hostile != ""))
		if vstat.WantSample("roundtrip:" + k.Name) {
			vstat.Sample("roundtrip:"+k.Name, map[string]any{"type": k.Name, "fuzzer_seed": seed, "json_bytes": len(want)})
		}
	})
}

func checkDeterministic(rt *rapid.T, name string, s1, s2 core.UnsignedDataSet) {
	p1, err := core.UnsignedDataSetToProto(s1)
	must(err)
	p2, err := core.UnsignedDataSetToProto(s2)
	must(err)
	b1, err := proto.MarshalOptions{Deterministic: true}.Marshal(p1)
	must(err)
	b2, err := proto.MarshalOptions{Deterministic: true}.Marshal(p2)
	must(err)
	if !bytes.Equal(b1, b2) {
		rt.Fatalf("NON-DETERMINISTIC: %s: equal sets built in different insertion orders give different deterministic proto bytes (consensus hashes would differ between nodes)", name)
	}
}

func must(err error) {
	if err != nil {
		panic("HARNESS-ERROR: " + err.Error())
	}
}

// guard runs fn and converts a panic into a violation description.
func guard(stage string, fn func()) (violation string) {
	defer func() {
		if r := recover(); r != nil {
			st := string(debug.Stack())
			violation = fmt.Sprintf("PANIC in %s: %v\n%s", stage, r, trimStack(st))
		}
	}()
	fn()
	return ""
}

func trimStack(st string) string {
	lines := strings.Split(st, "\n")
	var keep []string
	for i, l := range lines {
		if strings.Contains(l, "obolnetwork/charon") || strings.Contains(l, "go-eth2-client") {
			keep = append(keep, strings.TrimSpace(l))
			if i+1 < len(lines) {
				keep = append(keep, "   "+strings.TrimSpace(lines[i+1]))
			}
		}
		if len(keep) > 16 {
			break
		}
	}
	return strings.Join(keep, "\n")
}

// signature returns the structural signature of a panic: the innermost charon / go-eth2-client frame.
func panicSite(violation string) string {
	for _, l := range strings.Split(violation, "\n") {
		l = strings.TrimSpace(l)
		if strings.HasPrefix(l, "github.com/obolnetwork/charon") || strings.Contains(l, "go-eth2-client") {
			if i := strings.Index(l, "("); i > 0 {
				l = l[:i]
			}
			l = strings.TrimPrefix(l, "github.com/obolnetwork/charon/")
			if j := strings.LastIndex(l, "/"); j >= 0 && strings.Contains(l, "go-eth2-client") {
				l = "go-eth2-client/" + l[j+1:]
			}
			return l
		}
	}
	return "unknown"
}

var dutyTypes = []core.DutyType{core.DutyProposer, core.DutyAttester, core.DutySignature, core.DutyExit, core.DutyBuilderRegistration, core.DutyRandao,
	core.DutyPrepareAggregator, core.DutyAggregator, core.DutySyncMessage, core.DutyPrepareSyncContribution, core.DutySyncContribution}

// encode returns the wire bytes charon would put on the wire for the value (SSZ when available, else JSON)
// and its JSON form.
func encode(val any, ptr any) (wire []byte, js []byte) {
	js, err := json.Marshal(val)
	must(err)
	if m, ok := ptr.(ssz.Marshaler); ok {
		b, err := m.MarshalSSZ()
		must(err)
		return b, js
	}
	return js, js
}

func TestC14Mutations(t *testing.T) {
	vstat.Rule("C14", ruleMut)
	vstat.Assume("the panic recovery inside ParSignedDataFromProto / UnsignedDataSetFromProto covers only the decode step; stream handlers and the consensus decide callback run without recovery in production, so a panic in any later operation on a decoded value is a crash")
	bn := fakebn.New()
	ctx := context.Background()
	rapid.Check(t, func(rt *rapid.T) {
		k := valgen.Kinds[rapid.IntRange(0, len(valgen.Kinds)-1).Draw(rt, "kind")]
		seed := int64(rapid.IntRange(1, 1<<30).Draw(rt, "seed"))
		ptr := valgen.GenPtr(t, k, seed)
		val := reflect.ValueOf(ptr).Elem().Interface()
		wire, js := encode(val, ptr)
		var data []byte
		var mutation, path string
		switch rapid.IntRange(0, 9).Draw(rt, "family") {
		case 0, 1, 2, 3, 4:
			var ok bool
			data, path, mutation, ok = mutateJSON(rt, js)
			if !ok {
				rt.Skip("no JSON nodes")
			}
		case 5, 6, 7:
			ok2 := valgen.Kinds[rapid.IntRange(0, len(valgen.Kinds)-1).Draw(rt, "otherKind")]
			op := valgen.GenPtr(t, ok2, seed+3)
			ow, _ := encode(reflect.ValueOf(op).Elem().Interface(), op)
			data, mutation = mutateBytes(rt, wire, ow)
		case 8:
			data, mutation = wire, "type_confusion" // valid bytes, wrong duty context (drawn below)
		default:
			data, mutation = rapid.SliceOfN(rapid.Byte(), 0, 300).Draw(rt, "raw"), "arbitrary"
		}
		duty := core.Duty{Slot: uint64(rapid.IntRange(0, 100).Draw(rt, "slot")), Type: k.Duty}
		if mutation == "type_confusion" || rapid.IntRange(0, 5).Draw(rt, "otherDuty") == 0 {
			duty.Type = dutyTypes[rapid.IntRange(0, len(dutyTypes)-1).Draw(rt, "dutyType")]
		}
		decoded := false
		var violation string
		if k.Unsigned || rapid.IntRange(0, 3).Draw(rt, "alsoUnsignedPath") == 0 {
			d, v := unsignedPath(ctx, duty, data)
			decoded = decoded || d
			violation = v
		}
		if violation == "" && (!k.Unsigned || rapid.IntRange(0, 3).Draw(rt, "alsoSignedPath") == 0) {
			d, v := signedPath(ctx, bn, duty, data)
			decoded = decoded || d
			violation = v
		}
		if violation != "" {
			site := panicSite(violation)
			if os.Getenv("VERIF_C14_DISCOVER") != "" {
				discovered(site, fmt.Sprintf("type %s duty %v mutation %s %s\n%s", k.Name, duty.Type, mutation, path, violation))
				return
			}
			if vstat.IsKnown("C14", "panic:"+site, fmt.Sprintf("type %s duty %v mutation %s %s", k.Name, duty.Type, mutation, path)) {
				vstat.Case("", false, "excluded:known_finding")
				return
			}
			rt.Fatalf("CRASH: %s offered as %v, mutation %s %s (site %s)\ninput: %.400q\n%s", k.Name, duty.Type, mutation, path, site, data, violation)
		}
		vstat.Case(fmt.Sprintf("mut/%s/%v/%s/%s", k.Name, duty.Type, mutation, path), decoded, "mutation:"+mutation, cls("decoded", decoded), cls("rejected_at_decode", !decoded))
		if decoded && vstat.WantSample("decoded:"+mutation) {
			vstat.Sample("decoded:"+mutation, map[string]any{"type": k.Name, "duty_context": duty.Type.String(), "mutation": mutation, "path": path, "bytes": len(data)})
		}
	})
}

// unsignedPath is what the consensus decide path does with proposal bytes: decode the set, store it
// in the duty store, serve it through every Await* and re-encode it.
func unsignedPath(ctx context.Context, duty core.Duty, data []byte) (decoded bool, violation string) {
	var set core.UnsignedDataSet
	var err error
	if v := guard("UnsignedDataSetFromProto", func() {
		set, err = core.UnsignedDataSetFromProto(duty.Type, &pbv1.UnsignedDataSet{Set: map[string][]byte{string(pk(1)): data}})
	}); v != "" {
		return false, v
	}
	if err != nil {
		return false, ""
	}
	db := dutydb.NewMemDB(fakes.NewDeadliner())
	if v := guard("dutydb.Store (consensus decide callback)", func() { err = db.Store(ctx, duty, set) }); v != "" {
		return true, v
	}
	if err == nil {
		qctx, cancel := context.WithTimeout(ctx, 20*time.Millisecond)
		defer cancel()
		v := guard("dutydb.Await* + re-encode (validator API)", func() {
			for slot := uint64(0); slot < 2; slot++ {
				s := duty.Slot + slot
				switch duty.Type {
				case core.DutyProposer:
					if d, ok := set[pk(1)].(core.VersionedProposal); ok {
						if sl, e := d.Slot(); e == nil {
							s = uint64(sl)
						}
					}
					c2, c := context.WithTimeout(qctx, 2*time.Millisecond)
					if p, e := db.AwaitProposal(c2, s); e == nil {
						_, _ = json.Marshal(p)
						_, _ = p.Root()
					}
					c()
				case core.DutyAttester:
					if d, ok := set[pk(1)].(core.AttestationData); ok {
						c2, c := context.WithTimeout(qctx, 2*time.Millisecond)
						if a, e := db.AwaitAttestation(c2, uint64(d.Data.Slot), uint64(d.Duty.CommitteeIndex)); e == nil {
							_, _ = json.Marshal(a)
							_, _ = a.HashTreeRoot()
						}
						c()
						_, _ = db.PubKeyByAttestation(qctx, uint64(d.Data.Slot), uint64(d.Duty.CommitteeIndex), uint64(d.Duty.ValidatorIndex))
					}
				}
			}
		})
		if v != "" {
			return true, v
		}
	}
	if v := guard("re-encode unsigned set (consensus propose / hash)", func() {
		if pb, e := core.UnsignedDataSetToProto(set); e == nil {
			_, _ = proto.MarshalOptions{Deterministic: true}.Marshal(pb)
		}
		for _, d := range set {
			if c, e := d.Clone(); e == nil {
				_, _ = json.Marshal(c)
			}
		}
	}); v != "" {
		return true, v
	}
	return true, ""
}

// signedPath is what a node does with a partial-signature frame: decode, verify against the
// cluster's public shares, store, aggregate at threshold, store the aggregate, broadcast.
func signedPath(ctx context.Context, bn *fakebn.BN, duty core.Duty, data []byte) (decoded bool, violation string) {
	var par core.ParSignedData
	var err error
	if v := guard("ParSignedDataFromProto", func() {
		par, err = core.ParSignedDataFromProto(duty.Type, &pbv1.ParSignedData{Data: data, Signature: make([]byte, 96), ShareIdx: 1})
	}); v != "" {
		return false, v
	}
	if err != nil {
		return false, ""
	}
	// the production verifier (this is where MessageRoot / Epoch / DomainName first touch the value)
	verifier, err := parsigex.NewEth2Verifier(bn, map[core.PubKey]map[int]tbls.PublicKey{pk(1): {1: testShare}})
	must(err)
	if v := guard("parsigex eth2 verifier (stream handler)", func() { _ = verifier(ctx, "", duty, pk(1), par) }); v != "" {
		return true, v
	}
	// a share holder can sign whatever it sends: continue as if the signature had verified
	db := parsigdb.NewMemDB(1, fakes.NewDeadliner(core.DutyExit, core.DutyBuilderRegistration), parsigdb.NewMemDBMetadata(12, time.Unix(0, 0)))
	agg, err := sigagg.New(1, func(context.Context, core.PubKey, core.SignedData) error { return nil })
	must(err)
	asdb := aggsigdb.NewMemDBV2(fakes.NewDeadliner())
	agg.Subscribe(asdb.Store)
	agg.Subscribe(func(_ context.Context, _ core.Duty, set core.SignedDataSet) error {
		for _, d := range set { // broadcaster: re-encode what is sent to the beacon node
			_, _ = json.Marshal(d)
			if e2, ok := d.(core.Eth2SignedData); ok {
				_, _ = e2.Epoch(ctx, bn)
				_ = e2.DomainName()
			}
			_, _ = d.MessageRoot()
		}
		return nil
	})
	db.SubscribeThreshold(agg.Aggregate)
	if v := guard("parsigdb.StoreExternal -> sigagg -> aggsigdb -> broadcaster", func() {
		_ = db.StoreExternal(ctx, duty, core.ParSignedDataSet{pk(1): par})
	}); v != "" {
		return true, v
	}
	if v := guard("re-encode partial (parsigex broadcast)", func() {
		if pb, e := core.ParSignedDataSetToProto(core.ParSignedDataSet{pk(1): par}); e == nil {
			_, _ = proto.Marshal(pb)
		}
		if c, e := par.Clone(); e == nil {
			_, _ = json.Marshal(c)
		}
	}); v != "" {
		return true, v
	}
	return true, ""
}

var testShare = func() tbls.PublicKey {
	s, err := tbls.GenerateSecretKey()
	must(err)
	p, err := tbls.SecretToPublicKey(s)
	must(err)
	return p
}()

func cls(name string, on bool) string {
	if on {
		return name
	}
	return ""
}

var _ = eth2p0.Slot(0)

var (
	discMu   sync.Mutex
	discSeen = map[string]int{}
)

func discovered(site, detail string) {
	discMu.Lock()
	defer discMu.Unlock()
	discSeen[site]++
	if discSeen[site] == 1 {
		fmt.Printf("DISCOVERED %s\n%s\n\n", site, detail)
	}
}

// TestC14Regression replays the shrunk inputs that crashed the pinned tree before the fix
// (known_findings.json, status fixed), bypassing rapid.
func TestC14Regression(t *testing.T) {
	vstat.Rule("C14", ruleMut)
	bn := fakebn.New()
	ctx := context.Background()
	// (1) builder registration whose version field is not v1 (reaches the eth2 verifier's MessageRoot)
	regKind := valgen.KindByName("VersionedSignedValidatorRegistration")
	ptr := valgen.GenPtr(t, regKind, 1)
	wire, _ := encode(reflect.ValueOf(ptr).Elem().Interface(), ptr)
	for pos := 0; pos < len(wire) && pos < 24; pos++ {
		for _, x := range []byte{1, 2, 0x80, 0xff} {
			m := append([]byte{}, wire...)
			m[pos] ^= x
			if _, v := signedPath(ctx, bn, core.Duty{Slot: 1, Type: core.DutyBuilderRegistration}, m); v != "" {
				t.Fatalf("builder registration with byte %d flipped crashes the receive path:\n%s", pos, v)
			}
		}
	}
	// (2) proposals whose body lists contain null / whose execution payload is null
	for _, kidx := range []int{2, 5, 6} {
		for seed := int64(1); seed <= 4; seed++ {
			p := valgen.GenPtr(t, valgen.Kinds[kidx], seed)
			_, js := encode(reflect.ValueOf(p).Elem().Interface(), p)
			var root any
			dec := json.NewDecoder(bytes.NewReader(js))
			dec.UseNumber()
			must(dec.Decode(&root))
			var nodes []jsonNode
			collect(root, "", nil, "", 0, &nodes)
			for _, n := range nodes {
				if !(strings.HasSuffix(n.path, "[0]") || strings.HasSuffix(n.path, ".execution_payload") || strings.HasSuffix(n.path, ".execution_payload_header") || strings.HasSuffix(n.path, ".execution_requests") || strings.HasSuffix(n.path, ".sync_aggregate") || strings.HasSuffix(n.path, ".eth1_data")) {
					continue
				}
				var fresh any
				d2 := json.NewDecoder(bytes.NewReader(js))
				d2.UseNumber()
				must(d2.Decode(&fresh))
				var fnodes []jsonNode
				collect(fresh, "", nil, "", 0, &fnodes)
				for _, fn := range fnodes {
					if fn.path == n.path {
						m := applyJSONMutation(fresh, fn, "null")
						duty := core.Duty{Slot: 1, Type: core.DutyProposer}
						if _, v := unsignedPath(ctx, duty, m); v != "" {
							t.Fatalf("proposal with %s = null crashes the decide path:\n%s", n.path, v)
						}
						if _, v := signedPath(ctx, bn, duty, m); v != "" {
							t.Fatalf("proposal with %s = null crashes the receive path:\n%s", n.path, v)
						}
						vstat.Case("regression/"+valgen.Kinds[kidx].Name+n.path, true, "regression")
						break
					}
				}
			}
		}
	}
}

// sameValue is reflect.DeepEqual, except for the builder registration whose timestamp is carried
// with second precision by design (the fuzzer draws nanoseconds).
func sameValue(kind string, a, b any) bool {
	if kind == "VersionedSignedValidatorRegistration" {
		return true
	}
	return reflect.DeepEqual(a, b)
}
