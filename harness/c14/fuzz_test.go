package c14

import (
	"context"
	"fmt"
	"reflect"
	"testing"

	"github.com/obolnetwork/charon/core"

	"verifharness/fakebn"
	"verifharness/valgen"
	"verifharness/vstat"
)

// FuzzC14Decode is the coverage-guided, byte-level companion of TestC14Mutations (thorough tier only):
// arbitrary bytes are offered as the payload of a peer's partial signature and of a decided proposal
// under every duty type; the oracle is the totality clause of C14 (no operation of the receive /
// decide / store / re-encode paths may panic). The corpus starts from the valid SSZ and JSON
// encodings of every core type and fork plus an empty input.
func FuzzC14Decode(f *testing.F) {
	vstat.Rule("C14", "native fuzzing: coverage-guided byte strings (seed corpus = valid SSZ and JSON encodings of every type) x duty type pushed through the receive and decide paths; oracle = no panic; every execution counts, non-trivial = decoded without error")
	bn := fakebn.New()
	ctx := context.Background()
	f.Add([]byte{}, uint8(0))
	f.Add([]byte("{}"), uint8(1))
	f.Add([]byte("null"), uint8(2))
	for ki, k := range valgen.Kinds {
		for _, seed := range []int64{1, 2} {
			ptr := valgen.GenPtr(&testing.T{}, k, seed)
			wire, js := encode(reflect.ValueOf(ptr).Elem().Interface(), ptr)
			f.Add(wire, uint8(ki))
			f.Add(js, uint8(ki))
		}
	}
	f.Fuzz(func(t *testing.T, data []byte, sel uint8) {
		dt := dutyTypes[int(sel)%len(dutyTypes)]
		duty := core.Duty{Slot: uint64(sel), Type: dt}
		d1, v := unsignedPath(ctx, duty, data)
		if v == "" {
			var d2 bool
			d2, v = signedPath(ctx, bn, duty, data)
			d1 = d1 || d2
		}
		if v != "" {
			site := panicSite(v)
			if vstat.IsKnown("C14", "panic:"+site, fmt.Sprintf("fuzz duty %v", dt)) {
				vstat.Case("", false, "excluded:known_finding")
				return
			}
			t.Fatalf("CRASH: fuzz input offered as %v (site %s)\ninput: %.400q\n%s", dt, site, data, v)
		}
		vstat.Case(fmt.Sprintf("fuzz/%v/%x", dt, data), d1, "fuzz_exec", cls("fuzz_decoded", d1))
	})
}
