package c14

import (
	"testing"

	"github.com/OffchainLabs/go-bitfield"
	eth2spec "github.com/attestantio/go-eth2-client/spec"
	eth2p0 "github.com/attestantio/go-eth2-client/spec/phase0"

	"github.com/obolnetwork/charon/core"

	"verifharness/vstat"
)

// TestC14RegressionLegacyAttestation replays, without the generator, the shrunk failure that led to the
// repair recorded in known_findings.json (fixed: property=C14 e63d953): an attestation of a format before
// Electra has no validator index, is written in the older SSZ form, and for a slot whose low 32 bits are 20
// that form could not be read back (decode, Clone and every store failed).
func TestC14RegressionLegacyAttestation(t *testing.T) {
	vstat.Rule("C14", ruleRT)
	for _, version := range []eth2spec.DataVersion{eth2spec.DataVersionPhase0, eth2spec.DataVersionAltair, eth2spec.DataVersionBellatrix, eth2spec.DataVersionCapella, eth2spec.DataVersionDeneb} {
		for _, slot := range []uint64{0, 12, 13, 19, 20, 21, 1<<32 + 20, 1<<32 + 12, 20 << 32} {
			p0 := &eth2p0.Attestation{AggregationBits: bitfield.NewBitlist(8), Data: &eth2p0.AttestationData{Slot: eth2p0.Slot(slot), Source: &eth2p0.Checkpoint{}, Target: &eth2p0.Checkpoint{}}}
			att := &eth2spec.VersionedAttestation{Version: version}
			switch version {
			case eth2spec.DataVersionPhase0:
				att.Phase0 = p0
			case eth2spec.DataVersionAltair:
				att.Altair = p0
			case eth2spec.DataVersionBellatrix:
				att.Bellatrix = p0
			case eth2spec.DataVersionCapella:
				att.Capella = p0
			default:
				att.Deneb = p0
			}
			v, err := core.NewVersionedAttestation(att)
			if err != nil {
				t.Fatalf("HARNESS-ERROR: %v", err)
			}
			b, err := v.MarshalSSZ()
			if err != nil {
				t.Fatalf("SSZ: %s attestation for slot %d does not marshal: %v", version, slot, err)
			}
			var back core.VersionedAttestation
			if err := back.UnmarshalSSZ(b); err != nil {
				t.Fatalf("SSZ: %s attestation without validator index for slot %d does not decode its own encoding: %v", version, slot, err)
			}
			if render(back) != render(v) || back.ValidatorIndex != nil {
				t.Fatalf("SSZ LOSSY: %s attestation without validator index for slot %d changes in an SSZ round trip", version, slot)
			}
			if _, err := v.Clone(); err != nil {
				t.Fatalf("CLONE: %s attestation without validator index for slot %d cannot be cloned: %v", version, slot, err)
			}
			vstat.Case("regression/legacy-attestation/"+version.String()+"/"+render(slot), true, "regression")
		}
	}
}
