package c14

import (
	"context"
	"crypto/sha256"
	"fmt"
	"reflect"
	"sync"
	"testing"
	"time"

	k1 "github.com/decred/dcrd/dcrec/secp256k1/v4"
	"github.com/libp2p/go-libp2p/core/peer"
	"pgregory.net/rapid"

	"github.com/obolnetwork/charon/core"
	pbv1 "github.com/obolnetwork/charon/core/corepb/v1"
	"github.com/obolnetwork/charon/core/parsigdb"
	"github.com/obolnetwork/charon/core/parsigex"
	"github.com/obolnetwork/charon/p2p"
	"github.com/obolnetwork/charon/tbls"

	"verifharness/fakebn"
	"verifharness/fakes"
	"verifharness/memnet"
	"verifharness/valgen"
	"verifharness/vstat"
)

// TestC14PeerFrameTotality: the first place peer bytes meet a node is the stream handler of the partial signature
// exchange. Here the production component (parsigex.NewParSigEx with the production eth2 verifier, an all-allowing
// gater, the partial-signature store behind it) is registered on the in-memory network and is sent frames that are
// structurally odd at the *envelope* level — missing duty, missing or empty data set, nil entries, empty / garbage /
// type-confused data bytes, odd share indices and signature lengths, unknown duty types, truncated and arbitrary
// bytes — next to what TestC14Mutations does to the values inside. Oracle: no panic escapes the handler (production
// runs it without recover: a panic there ends the process of every node the frame is sent to).
func TestC14PeerFrameTotality(t *testing.T) {
	vstat.Rule("C14", "peer frames: ParSigExMsg envelopes with structural oddities (nil duty / data set / entries, empty or type-confused data bytes, odd share indices, signature lengths and duty types, truncated / arbitrary bytes) through the production parsigex stream handler over the in-memory network; oracle = no panic escapes the handler; non-trivial = the frame parsed as a ParSigExMsg")
	bn := fakebn.New()
	var keys []*k1.PrivateKey
	var peers []peer.ID
	for i := 0; i < 3; i++ {
		h := sha256.Sum256([]byte(fmt.Sprintf("verif-c14-peer-%d", i)))
		k := k1.PrivKeyFromBytes(h[:])
		id, err := p2p.PeerIDFromKey(k.PubKey())
		must(err)
		keys, peers = append(keys, k), append(peers, id)
	}
	secret, err := tbls.GenerateSecretKey()
	must(err)
	group, err := tbls.SecretToPublicKey(secret)
	must(err)
	shares, err := tbls.ThresholdSplit(secret, 3, 2)
	must(err)
	pub, err := core.PubKeyFromBytes(group[:])
	must(err)
	pubshares := map[core.PubKey]map[int]tbls.PublicKey{pub: {}}
	for i, s := range shares {
		pubshares[pub][i], err = tbls.SecretToPublicKey(s)
		must(err)
	}
	rapid.Check(t, func(rt *rapid.T) {
		net := memnet.New()
		var mu sync.Mutex
		var panics []string
		net.OnPanic = func(f *memnet.Frame, r any, stack []byte) {
			mu.Lock()
			panics = append(panics, fmt.Sprintf("%v\n%s", r, trimStack(string(stack))))
			mu.Unlock()
		}
		verifier, err := parsigex.NewEth2Verifier(bn, pubshares)
		must(err)
		ex := parsigex.NewParSigEx(net.Host(peers[0]), p2p.Send, 0, peers, verifier, func(core.Duty) bool { return true })
		db := parsigdb.NewMemDB(2, fakes.NewDeadliner(core.DutyExit, core.DutyBuilderRegistration), parsigdb.NewMemDBMetadata(12, time.Now()))
		ex.Subscribe(func(ctx context.Context, d core.Duty, set core.ParSignedDataSet) error { return db.StoreExternal(ctx, d, set) })

		// a valid-looking entry to start from
		ki := rapid.IntRange(0, len(valgen.Kinds)-1).Draw(rt, "kind")
		kind := valgen.Kinds[ki]
		ptr := valgen.GenPtr(t, kind, int64(rapid.IntRange(1, 1<<20).Draw(rt, "seed")))
		wire, js := encode(reflect.ValueOf(ptr).Elem().Interface(), ptr)
		dt := dutyTypes[rapid.IntRange(0, len(dutyTypes)-1).Draw(rt, "dutyType")]
		msg := &pbv1.ParSigExMsg{Duty: &pbv1.Duty{Slot: uint64(rapid.IntRange(0, 100).Draw(rt, "slot")), Type: int32(dt)},
			DataSet: &pbv1.ParSignedDataSet{Set: map[string]*pbv1.ParSignedData{string(pub): {Data: wire, Signature: make([]byte, 96), ShareIdx: 2}}}}
		entry := msg.DataSet.Set[string(pub)]
		odd := rapid.SampledFrom([]string{"none", "nil_duty", "duty_type_out_of_range", "duty_type_negative", "nil_data_set", "nil_set_map", "empty_set", "nil_entry", "nil_data", "empty_data", "json_instead_of_ssz",
			"garbage_data", "truncated_data", "share_idx_zero", "share_idx_negative", "share_idx_huge", "nil_signature", "short_signature", "long_signature", "odd_pubkey", "empty_pubkey", "two_entries_one_nil", "raw_bytes", "truncated_frame"}).Draw(rt, "oddity")
		var raw []byte
		switch odd {
		case "nil_duty":
			msg.Duty = nil
		case "duty_type_out_of_range":
			msg.Duty.Type = int32(rapid.IntRange(14, 1<<20).Draw(rt, "type"))
		case "duty_type_negative":
			msg.Duty.Type = -int32(rapid.IntRange(1, 1<<20).Draw(rt, "type"))
		case "nil_data_set":
			msg.DataSet = nil
		case "nil_set_map":
			msg.DataSet.Set = nil
		case "empty_set":
			msg.DataSet.Set = map[string]*pbv1.ParSignedData{}
		case "nil_entry":
			msg.DataSet.Set[string(pub)] = nil
		case "nil_data":
			entry.Data = nil
		case "empty_data":
			entry.Data = []byte{}
		case "json_instead_of_ssz":
			entry.Data = js
		case "garbage_data":
			entry.Data = rapid.SliceOfN(rapid.Byte(), 1, 300).Draw(rt, "garbage")
		case "truncated_data":
			if len(wire) > 1 {
				entry.Data = wire[:rapid.IntRange(1, len(wire)-1).Draw(rt, "cut")]
			}
		case "share_idx_zero":
			entry.ShareIdx = 0
		case "share_idx_negative":
			entry.ShareIdx = -int32(rapid.IntRange(1, 1<<30).Draw(rt, "idx"))
		case "share_idx_huge":
			entry.ShareIdx = int32(rapid.IntRange(4, 1<<30).Draw(rt, "idx"))
		case "nil_signature":
			entry.Signature = nil
		case "short_signature":
			entry.Signature = make([]byte, rapid.IntRange(0, 95).Draw(rt, "sigLen"))
		case "long_signature":
			entry.Signature = make([]byte, rapid.IntRange(97, 400).Draw(rt, "sigLen"))
		case "odd_pubkey":
			delete(msg.DataSet.Set, string(pub))
			msg.DataSet.Set[rapid.StringMatching(`(0x)?[0-9a-fA-Fxz]{1,120}`).Draw(rt, "pk")] = entry
		case "empty_pubkey":
			delete(msg.DataSet.Set, string(pub))
			msg.DataSet.Set[""] = entry
		case "two_entries_one_nil":
			msg.DataSet.Set["0x"+fmt.Sprintf("%096x", 5)] = nil
		case "raw_bytes":
			raw = rapid.SliceOfN(rapid.Byte(), 0, 200).Draw(rt, "raw")
		case "truncated_frame":
			full := memnet.Encode(msg)
			raw = full[:rapid.IntRange(0, len(full)-1).Draw(rt, "cutFrame")]
		}
		from := peers[1+rapid.IntRange(0, 1).Draw(rt, "from")]
		var f *memnet.Frame
		if raw != nil {
			f = net.InjectRaw(from, peers[0], parsigex.Protocols()[0], raw)
		} else {
			f = net.Inject(from, peers[0], parsigex.Protocols()[0], msg)
		}
		net.Take(0)
		net.Deliver(f)
		f.Wait()
		mu.Lock()
		defer mu.Unlock()
		if len(panics) > 0 {
			rt.Fatalf("CRASH: a peer frame (%s, %s offered as %v) made the partial signature exchange handler panic: %s", odd, kind.Name, dt, panics[0])
		}
		vstat.Case(fmt.Sprintf("peerframe/%s/%s/%v", odd, kind.Name, dt), raw == nil, "peer_frame", "peer_frame_oddity:"+odd)
	})
}
