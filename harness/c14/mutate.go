package c14

import (
	"bytes"
	"encoding/json"
	"fmt"
	"sort"

	"pgregory.net/rapid"
)

// jsonNode addresses one node of a decoded JSON document.
type jsonNode struct {
	path   string
	parent any // map[string]any or []any
	key    string
	idx    int
}

func collect(v any, path string, parent any, key string, idx int, out *[]jsonNode) {
	if parent != nil {
		*out = append(*out, jsonNode{path, parent, key, idx})
	}
	switch t := v.(type) {
	case map[string]any:
		keys := make([]string, 0, len(t))
		for k := range t {
			keys = append(keys, k)
		}
		sort.Strings(keys)
		for _, k := range keys {
			collect(t[k], path+"."+k, t, k, 0, out)
		}
	case []any:
		for i, e := range t {
			collect(e, fmt.Sprintf("%s[%d]", path, i), t, "", i, out)
		}
	}
}

var jsonMutations = []string{"null", "wrong_type", "empty_list", "list_with_null", "removed", "empty_object", "empty_string", "huge_number"}

// mutateJSON applies one structural mutation to one node of the document and returns the new
// bytes, the node path and the mutation name. ok=false if the document has no nodes.
func mutateJSON(rt *rapid.T, doc []byte) (out []byte, path, mutation string, ok bool) {
	dec := json.NewDecoder(bytes.NewReader(doc))
	dec.UseNumber()
	var root any
	if err := dec.Decode(&root); err != nil {
		return nil, "", "", false
	}
	var nodes []jsonNode
	collect(root, "", nil, "", 0, &nodes)
	if len(nodes) == 0 {
		return nil, "", "", false
	}
	n := nodes[rapid.IntRange(0, len(nodes)-1).Draw(rt, "node")]
	mutation = jsonMutations[rapid.IntRange(0, len(jsonMutations)-1).Draw(rt, "mutation")]
	return applyJSONMutation(root, n, mutation), n.path, mutation, true
}

func applyJSONMutation(root any, n jsonNode, mutation string) []byte {
	var cur any
	switch p := n.parent.(type) {
	case map[string]any:
		cur = p[n.key]
	case []any:
		cur = p[n.idx]
	}
	var repl any
	remove := false
	switch mutation {
	case "null":
		repl = nil
	case "wrong_type":
		switch cur.(type) {
		case string:
			repl = json.Number("7")
		case json.Number:
			repl = "x"
		case map[string]any:
			repl = []any{}
		case []any:
			repl = map[string]any{}
		default:
			repl = map[string]any{"a": "b"}
		}
	case "empty_list":
		repl = []any{}
	case "list_with_null":
		repl = []any{nil}
	case "empty_object":
		repl = map[string]any{}
	case "empty_string":
		repl = ""
	case "huge_number":
		repl = "340282366920938463463374607431768211455"
	case "removed":
		remove = true
	}
	switch p := n.parent.(type) {
	case map[string]any:
		if remove {
			delete(p, n.key)
		} else {
			p[n.key] = repl
		}
	case []any:
		if remove {
			p[n.idx] = nil // lists cannot lose a slot in place; null stands in
		} else {
			p[n.idx] = repl
		}
	}
	b, err := json.Marshal(root)
	if err != nil {
		panic("HARNESS-ERROR: " + err.Error())
	}
	return b
}

// mutateBytes applies a binary mutation (truncate / splice / flip / extend).
func mutateBytes(rt *rapid.T, b []byte, other []byte) ([]byte, string) {
	if len(b) == 0 {
		return []byte{1}, "extend"
	}
	switch rapid.IntRange(0, 4).Draw(rt, "binMutation") {
	case 0:
		return append([]byte{}, b[:rapid.IntRange(0, len(b)-1).Draw(rt, "cut")]...), "truncate"
	case 1:
		c := append([]byte{}, b...)
		k := rapid.IntRange(1, 4).Draw(rt, "flips")
		for i := 0; i < k; i++ {
			c[rapid.IntRange(0, len(c)-1).Draw(rt, "pos")] ^= byte(rapid.IntRange(1, 255).Draw(rt, "xor"))
		}
		return c, "flip"
	case 2:
		if len(other) == 0 {
			other = []byte{0xff, 0xff, 0xff, 0xff}
		}
		at := rapid.IntRange(0, len(b)).Draw(rt, "at")
		from := rapid.IntRange(0, len(other)-1).Draw(rt, "from")
		return append(append(append([]byte{}, b[:at]...), other[from:]...), b[at:]...), "splice"
	case 3:
		// overwrite a 4-byte offset with a large value (SSZ offsets are little-endian uint32)
		c := append([]byte{}, b...)
		if len(c) >= 4 {
			at := rapid.IntRange(0, len(c)-4).Draw(rt, "offAt")
			v := rapid.SampledFrom([]uint32{0, 1, 0xffffffff, 0x7fffffff, uint32(len(c)), uint32(len(c) + 1)}).Draw(rt, "offVal")
			c[at], c[at+1], c[at+2], c[at+3] = byte(v), byte(v>>8), byte(v>>16), byte(v>>24)
		}
		return c, "offset"
	default:
		return append(append([]byte{}, b...), rapid.SliceOfN(rapid.Byte(), 1, 40).Draw(rt, "tail")...), "extend"
	}
}
