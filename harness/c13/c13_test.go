// C13 — DKG broadcast delivers a payload only if every member signed exactly it.
//
// Production bcast.New components (one per honest member) run over memnet inside a synctest
// bubble; one member is played by the harness with its real k1 key. Every frame (signature
// request, signature response, BCastMessage) crosses memnet, so the oracle knows exactly what each
// honest member signed.
package c13

import (
	"context"
	"crypto/sha256"
	"fmt"
	"sort"
	"strings"
	"sync"
	"testing"
	"testing/synctest"
	"time"

	k1 "github.com/decred/dcrd/dcrec/secp256k1/v4"
	"github.com/libp2p/go-libp2p/core/peer"
	"github.com/libp2p/go-libp2p/core/protocol"
	"google.golang.org/protobuf/proto"
	"google.golang.org/protobuf/types/known/anypb"
	"google.golang.org/protobuf/types/known/wrapperspb"
	"pgregory.net/rapid"

	"github.com/obolnetwork/charon/dkg/bcast"
	pb "github.com/obolnetwork/charon/dkg/dkgpb/v1"
	"github.com/obolnetwork/charon/p2p"

	"verifharness/memnet"
	"verifharness/vstat"
)

func TestMain(m *testing.M) { vstat.Main(m) }

// The protocol ids are learnt from the traffic of a throw-away component pair so that the check
// follows the repository's protocol version.
var (
	protoOnce          sync.Once
	protoSig, protoMsg protocol.ID
)

func learnProtocols() {
	protoOnce.Do(func() {
		n := memnet.New()
		var peers []peer.ID
		for i := 0; i < 2; i++ {
			id, _ := p2p.PeerIDFromKey(key(i).PubKey())
			peers = append(peers, id)
		}
		c0 := bcast.New(n.Host(peers[0]), peers, key(0), []byte("probe"))
		_ = bcast.New(n.Host(peers[1]), peers, key(1), []byte("probe"))
		c0.RegisterMessageIDFuncs("probe", func(context.Context, peer.ID, string, proto.Message) error { return nil },
			func(context.Context, peer.ID, *anypb.Any) error { return nil })
		ctx, cancel := context.WithCancel(context.Background())
		done := make(chan struct{})
		go func() { _ = c0.Broadcast(ctx, "probe", wrapperspb.String("x")); close(done) }()
		for i := 0; i < 2000 && n.NPending() == 0; i++ {
			time.Sleep(time.Millisecond)
		}
		if n.NPending() == 0 {
			panic("HARNESS-ERROR: no signature request observed")
		}
		f := n.Take(0)
		protoSig = f.Proto
		protoMsg = protocol.ID(strings.TrimSuffix(string(f.Proto), "/sig") + "/msg")
		n.Drop(f)
		cancel()
		<-done
	})
}

const rule = "n in 3..6 members, one (any index) played by the harness with its real key, the others are production bcast components over memnet with a recording callback; honest members broadcast (possibly different payloads under one id, as every DKG step does); the faulty member draws: per-receiver payloads in signature requests, requests to subsets, repeated requests with changed payload, BCastMessage frames whose signature list is complete / permuted / truncated / has an entry replaced by a signature for another id, payload or session, and relays of honest members' fully signed messages under its own identity, interleaved with drops and duplicates; " +
	"oracle: (1) every delivery (receiver, sender, id, payload) is backed by a signature of every honest member over exactly (session, id, payload) seen on the wire, (2) per (sender, id) all receivers deliver the same payload, (3) nothing for unregistered ids; " +
	"non-trivial = the faulty member obtained >=1 honest signature and sent >=1 message frame; distinct by the action trace"

var keyCache = map[int]*k1.PrivateKey{}

func key(i int) *k1.PrivateKey {
	if k, ok := keyCache[i]; ok {
		return k
	}
	h := sha256.Sum256([]byte(fmt.Sprintf("verif-c13-%d", i)))
	k := k1.PrivKeyFromBytes(h[:])
	keyCache[i] = k
	return k
}

// signAs obtains the signature the member would give for (session, requester, id, payload) from
// a fresh production component of that member on a private network: the harness never restates the
// signed digest, so it follows whatever the repository signs.
func signAs(member int, peers []peer.ID, session []byte, requester peer.ID, id string, payload *anypb.Any) []byte {
	net := memnet.New()
	comp := bcast.New(net.Host(peers[member]), peers, key(member), session)
	comp.RegisterMessageIDFuncs(id, func(context.Context, peer.ID, string, proto.Message) error { return nil },
		func(context.Context, peer.ID, *anypb.Any) error { return nil })
	f := net.Inject(requester, peers[member], protoSig, &pb.BCastSigRequest{Id: id, Message: payload})
	net.Take(0)
	net.Deliver(f)
	f.Wait()
	var sr pb.BCastSigResponse
	if f.Response() == nil || (&memnet.Frame{Req: f.Response()}).Decode(&sr) != nil {
		return nil
	}
	return sr.GetSignature()
}

type delivery struct {
	receiver int
	sender   peer.ID
	id       string
	payload  string
}

type cluster struct {
	session []byte
	net     *memnet.Net
	comps   map[int]*bcast.Component
	deliv   []delivery
}

var ids = []string{"step1", "step2"}

func payloadAny(s string) *anypb.Any {
	a, err := anypb.New(wrapperspb.String(s))
	if err != nil {
		panic(err)
	}
	return a
}

func TestC13Broadcast(t *testing.T) {
	vstat.Rule("C13", rule)
	vstat.Assume("delivered = the registered callback was invoked and returned nil; the callback is a pure recorder that attributes the payload to the transport-authenticated sender, as pedersen's node-key callback does")
	rapid.Check(t, func(rt *rapid.T) {
		rapid.SyncTest(rt, func(rt *rapid.T) { runCase(rt) })
	})
}

func runCase(rt *rapid.T) {
	learnProtocols()
	n := rapid.IntRange(3, 6).Draw(rt, "n")
	faulty := rapid.IntRange(0, n-1).Draw(rt, "faulty")
	var peers []peer.ID
	for i := 0; i < n; i++ {
		id, err := p2p.PeerIDFromKey(key(i).PubKey())
		if err != nil {
			rt.Fatalf("HARNESS-ERROR: %v", err)
		}
		peers = append(peers, id)
	}
	idx := func(p peer.ID) int {
		for i, q := range peers {
			if q == p {
				return i
			}
		}
		return -1
	}
	ctx, cancel := context.WithCancel(context.Background())
	defer cancel()

	// harvested by the faulty member
	type sigKey struct {
		session string
		id      string
		payload string
		member  int
	}
	sigs := map[sigKey][]byte{}
	type fullMsg struct {
		id, payload string
		sigs        [][]byte
		from        int
	}
	var harvestedMsgs []fullMsg
	answerHonest := true
	waited := false

	mk := func(session []byte, main bool) *cluster {
		c := &cluster{session: session, net: memnet.New(), comps: map[int]*bcast.Component{}}
		for i := 0; i < n; i++ {
			h := c.net.Host(peers[i])
			if i == faulty {
				// the faulty member answers signature requests of honest members (or not) and records
				// fully signed messages it receives
				h.HandleFunc(protoSig, func(f *memnet.Frame) proto.Message {
					var req pb.BCastSigRequest
					if err := f.Decode(&req); err != nil || !answerHonest {
						return nil
					}
					sig := signAs(faulty, peers, session, f.From, req.GetId(), req.GetMessage())
					return &pb.BCastSigResponse{Id: req.GetId(), Signature: sig}
				})
				h.HandleFunc(protoMsg, func(f *memnet.Frame) proto.Message {
					var m pb.BCastMessage
					if err := f.Decode(&m); err == nil && main {
						var sv wrapperspb.StringValue
						if m.GetMessage().UnmarshalTo(&sv) == nil {
							harvestedMsgs = append(harvestedMsgs, fullMsg{m.GetId(), sv.GetValue(), m.GetSignatures(), idx(f.From)})
						}
					}
					return nil
				})
				continue
			}
			comp := bcast.New(h, peers, key(i), session)
			for _, id := range ids {
				comp.RegisterMessageIDFuncs(id,
					func(_ context.Context, p peer.ID, msgID string, msg proto.Message) error {
						sv, ok := msg.(*wrapperspb.StringValue)
						if !ok {
							return fmt.Errorf("unexpected type")
						}
						c.deliv = append(c.deliv, delivery{i, p, msgID, sv.GetValue()})
						return nil
					},
					func(_ context.Context, _ peer.ID, a *anypb.Any) error {
						var sv wrapperspb.StringValue
						return a.UnmarshalTo(&sv)
					})
			}
			c.comps[i] = comp
		}
		return c
	}
	main := mk([]byte("session-A"), true)
	other := mk([]byte("session-B"), false)

	var honest []int
	for i := 0; i < n; i++ {
		if i != faulty {
			honest = append(honest, i)
		}
	}
	var trace []string
	var honestBroadcasts []struct {
		member      int
		id, payload string
	}
	var bdone []chan error
	sentMsgFrames, gotHonestSigs, relays := 0, 0, 0

	// collect the responses of finished frames the faulty member injected
	type pendingReq struct {
		f       *memnet.Frame
		session string
		id      string
		payload string
		member  int
	}
	var reqs []pendingReq
	harvest := func() {
		var still []pendingReq
		for _, r := range reqs {
			resp := r.f.Response()
			if resp == nil {
				still = append(still, r)
				continue
			}
			var sr pb.BCastSigResponse
			if err := (&memnet.Frame{Req: resp}).Decode(&sr); err == nil && len(sr.GetSignature()) > 0 {
				sigs[sigKey{r.session, r.id, r.payload, r.member}] = sr.GetSignature()
				gotHonestSigs++
			}
		}
		reqs = still
	}
	ownSig := func(session []byte, id, payload string) []byte {
		return signAs(faulty, peers, session, peers[faulty], id, payloadAny(payload))
	}
	payloads := []string{"P", "Q", "R"}

	nEv := rapid.IntRange(5, 80).Draw(rt, "nEvents")
	for ev := 0; ev < nEv; ev++ {
		op := rapid.IntRange(0, 99).Draw(rt, "op")
		switch {
		case op < 10 && len(honestBroadcasts) < 4: // an honest member broadcasts
			m := honest[rapid.IntRange(0, len(honest)-1).Draw(rt, "bmember")]
			id := ids[rapid.IntRange(0, len(ids)-1).Draw(rt, "bid")]
			dup := false
			for _, b := range honestBroadcasts {
				if b.member == m && b.id == id {
					dup = true
				}
			}
			if dup {
				continue
			}
			payload := fmt.Sprintf("honest-%d-%s", m, id)
			honestBroadcasts = append(honestBroadcasts, struct {
				member      int
				id, payload string
			}{m, id, payload})
			done := make(chan error, 1)
			bdone = append(bdone, done)
			go func() { done <- main.comps[m].Broadcast(ctx, id, wrapperspb.String(payload)) }()
			trace = append(trace, fmt.Sprintf("broadcast(%d,%s)", m, id))
		case op < 55: // deliver a pending frame of the main session
			if np := main.net.NPending(); np > 0 {
				f := main.net.Take(rapid.IntRange(0, np-1).Draw(rt, "deliver"))
				main.net.Deliver(f)
				if rapid.IntRange(0, 9).Draw(rt, "dup") == 0 {
					synctest.Wait()
					main.net.Deliver(f)
					trace = append(trace, "duplicate")
				}
				trace = append(trace, fmt.Sprintf("deliver(%d->%d,%s)", idx(f.From), idx(f.To), string(f.Proto[strings.LastIndex(string(f.Proto), "/")+1:])))
			}
		case op < 58: // lose a frame
			if np := main.net.NPending(); np > 0 {
				main.net.Drop(main.net.Take(rapid.IntRange(0, np-1).Draw(rt, "drop")))
				trace = append(trace, "drop")
			}
		case op < 59:
			answerHonest = !answerHonest
			trace = append(trace, fmt.Sprintf("faultyAnswers=%v", answerHonest))
		case op < 60: // time passes (a faulty member may wait as long as it likes between its requests; a ceremony takes minutes)
			d := rapid.SampledFrom([]time.Duration{time.Second, 30 * time.Second, 3 * time.Minute, 20 * time.Minute, 3 * time.Hour}).Draw(rt, "wait")
			time.Sleep(d)
			synctest.Wait()
			waited = true
			trace = append(trace, fmt.Sprintf("wait(%v)", d))
		case op < 75: // faulty: signature requests (possibly different payloads per receiver, either session)
			id := ids[rapid.IntRange(0, len(ids)-1).Draw(rt, "rid")]
			if rapid.IntRange(0, 9).Draw(rt, "unregistered") == 0 {
				id = "unregistered"
			}
			cl, sess := main, "A"
			if rapid.IntRange(0, 4).Draw(rt, "otherSession") == 0 {
				cl, sess = other, "B"
			}
			concurrent := cl == main && rapid.IntRange(0, 3).Draw(rt, "concurrentPair") == 0
			pairP := payloads[rapid.IntRange(0, len(payloads)-1).Draw(rt, "pairPayload")]
			for _, h := range honest {
				if !concurrent && rapid.IntRange(0, 3).Draw(rt, "skip") == 0 {
					continue
				}
				p := payloads[rapid.IntRange(0, len(payloads)-1).Draw(rt, "rpayload")]
				if concurrent {
					p = pairP
					// two requests for the same id with different payloads hit the member at the same
					// time (two streams): at most one of them may be signed
					q := payloads[(indexOfStr(payloads, p)+1)%len(payloads)]
					f1 := cl.net.Inject(peers[faulty], peers[h], protoSig, &pb.BCastSigRequest{Id: id, Message: payloadAny(p)})
					f2 := cl.net.Inject(peers[faulty], peers[h], protoSig, &pb.BCastSigRequest{Id: id, Message: payloadAny(q)})
					cl.net.Take(cl.net.NPending() - 1)
					cl.net.Take(cl.net.NPending() - 1)
					cl.net.Deliver(f1)
					cl.net.Deliver(f2)
					reqs = append(reqs, pendingReq{f1, sess, id, p, h}, pendingReq{f2, sess, id, q, h})
					continue
				}
				f := cl.net.Inject(peers[faulty], peers[h], protoSig, &pb.BCastSigRequest{Id: id, Message: payloadAny(p)})
				if cl == other { // the side session has no scheduler of its own: deliver at once
					other.net.Take(other.net.NPending() - 1)
					other.net.Deliver(f)
				}
				reqs = append(reqs, pendingReq{f, sess, id, p, h})
			}
			trace = append(trace, "sigreq("+id+","+sess+")")
		case op < 78: // faulty: shift the boundary between the payload's type URL and its value
			// Members sign the digest of (id, type URL, value, ...). If that digest does not separate
			// the two fields, (T, V) and (T+V[:k], V[k:]) are signed alike. The faulty member has
			// everybody sign a harmless looking payload A whose bytes end in "/<message name>" followed
			// by the encoding of another payload, then presents the shifted split B with A's signatures.
			id := ids[rapid.IntRange(0, len(ids)-1).Draw(rt, "sid")]
			evil := "evil-" + id
			encEvil, _ := proto.Marshal(wrapperspb.String(evil))
			filler := "zz/google.protobuf.StringValue"
			contentA := filler + string(encEvil)
			anyA := payloadAny(contentA)
			cut := len(anyA.GetValue()) - len(encEvil)
			anyB := &anypb.Any{TypeUrl: anyA.GetTypeUrl() + string(anyA.GetValue()[:cut]), Value: anyA.GetValue()[cut:]}
			var frames []*memnet.Frame
			for _, h := range honest {
				f := main.net.Inject(peers[faulty], peers[h], protoSig, &pb.BCastSigRequest{Id: id, Message: anyA})
				main.net.Take(main.net.NPending() - 1)
				main.net.Deliver(f)
				frames = append(frames, f)
				reqs = append(reqs, pendingReq{f, "A", id, contentA, h})
			}
			synctest.Wait()
			harvest()
			list := make([][]byte, n)
			complete := true
			for m := 0; m < n; m++ {
				if m == faulty {
					list[m] = ownSig(main.session, id, contentA)
				} else {
					list[m] = sigs[sigKey{"A", id, contentA, m}]
				}
				if list[m] == nil {
					complete = false
				}
			}
			if complete {
				for _, h := range honest {
					main.net.Inject(peers[faulty], peers[h], protoMsg, &pb.BCastMessage{Id: id, Message: anyB, Signatures: list})
					sentMsgFrames++
				}
				vstat.Count("boundary_shift_sent", 1)
			}
			trace = append(trace, fmt.Sprintf("boundary_shift(%s,complete=%v)", id, complete))
		case op < 92: // faulty: BCastMessage with an assembled signature list
			id := ids[rapid.IntRange(0, len(ids)-1).Draw(rt, "mid")]
			if rapid.IntRange(0, 14).Draw(rt, "unregisteredMsg") == 0 {
				id = "unregistered"
			}
			p := payloads[rapid.IntRange(0, len(payloads)-1).Draw(rt, "mpayload")]
			list := make([][]byte, n)
			for m := 0; m < n; m++ {
				if m == faulty {
					list[m] = ownSig(main.session, id, p)
					continue
				}
				list[m] = sigs[sigKey{"A", id, p, m}]
				if list[m] == nil || rapid.IntRange(0, 5).Draw(rt, "substitute") == 0 {
					// substitute: signature for another id / payload / session, or own signature, or garbage
					var cands [][]byte
					for k, s := range sigs {
						if k.member == m && (k.id != id || k.payload != p || k.session != "A") {
							cands = append(cands, s)
						}
					}
					sort.Slice(cands, func(a, b int) bool { return string(cands[a]) < string(cands[b]) })
					cands = append(cands, ownSig(main.session, id, p), make([]byte, 65))
					list[m] = cands[rapid.IntRange(0, len(cands)-1).Draw(rt, "subst")]
				}
			}
			switch rapid.IntRange(0, 9).Draw(rt, "listShape") {
			case 0:
				list = list[:n-1]
			case 1:
				list[0], list[n-1] = list[n-1], list[0]
			case 2:
				list = append(list, list[0])
			}
			for _, h := range honest {
				if rapid.IntRange(0, 2).Draw(rt, "mskip") == 0 {
					continue
				}
				main.net.Inject(peers[faulty], peers[h], protoMsg, &pb.BCastMessage{Id: id, Message: payloadAny(p), Signatures: list})
				sentMsgFrames++
			}
			trace = append(trace, "msg("+id+","+p+")")
		default: // faulty: relay an honest member's fully signed message under its own identity
			if len(harvestedMsgs) == 0 {
				continue
			}
			hm := harvestedMsgs[rapid.IntRange(0, len(harvestedMsgs)-1).Draw(rt, "relay")]
			for _, h := range honest {
				if rapid.Bool().Draw(rt, "relayTo") {
					main.net.Inject(peers[faulty], peers[h], protoMsg, &pb.BCastMessage{Id: hm.id, Message: payloadAny(hm.payload), Signatures: hm.sigs})
					sentMsgFrames++
					relays++
				}
			}
			trace = append(trace, fmt.Sprintf("relay(%s of %d)", hm.id, hm.from))
		}
		synctest.Wait()
		harvest()
	}
	// finisher: whenever the faulty member holds complete signature sets for two different payloads
	// under one id, it completes the equivocation (one payload per receiver)
	synctest.Wait()
	harvest()
	for _, id := range ids {
		var complete []string
		for _, p := range payloads {
			full := true
			for _, h := range honest {
				if sigs[sigKey{"A", id, p, h}] == nil {
					full = false
				}
			}
			if full {
				complete = append(complete, p)
			}
		}
		if len(complete) >= 2 && len(honest) >= 2 {
			for i, h := range honest {
				p := complete[i%2]
				list := make([][]byte, n)
				for m := 0; m < n; m++ {
					if m == faulty {
						list[m] = ownSig(main.session, id, p)
					} else {
						list[m] = sigs[sigKey{"A", id, p, m}]
					}
				}
				main.net.Inject(peers[faulty], peers[h], protoMsg, &pb.BCastMessage{Id: id, Message: payloadAny(p), Signatures: list})
				sentMsgFrames++
			}
			trace = append(trace, "finish_equivocation("+id+")")
		}
	}
	// drain what is left so that broadcasts can finish
	for guard := 0; main.net.NPending() > 0 && guard < 500; guard++ {
		main.net.Deliver(main.net.Take(0))
		synctest.Wait()
	}
	harvest()
	cancel()
	for main.net.NPending() > 0 {
		main.net.Drop(main.net.Take(0))
	}
	synctest.Wait()

	// ---- oracle
	// what every honest member signed (as seen on the wire of the main session) or broadcast itself
	signed := map[string]bool{} // member|id|payload
	for _, f := range main.net.All {
		if f.Proto != protoSig || f.To == peers[faulty] {
			continue
		}
		var req pb.BCastSigRequest
		var sr pb.BCastSigResponse
		if f.Decode(&req) != nil || f.Response() == nil {
			continue
		}
		if (&memnet.Frame{Req: f.Response()}).Decode(&sr) != nil || len(sr.GetSignature()) == 0 {
			continue
		}
		var sv wrapperspb.StringValue
		if req.GetMessage().UnmarshalTo(&sv) != nil {
			continue
		}
		signed[fmt.Sprintf("%d|%s|%s", idx(f.To), req.GetId(), sv.GetValue())] = true
	}
	for _, b := range honestBroadcasts {
		signed[fmt.Sprintf("%d|%s|%s", b.member, b.id, b.payload)] = true
	}
	honestPayload := map[string]int{} // id|payload -> honest originator
	for _, b := range honestBroadcasts {
		honestPayload[b.id+"|"+b.payload] = b.member
	}
	perSender := map[string]map[string]bool{}
	relayedDeliveries := 0
	for _, d := range main.deliv {
		if d.id == "unregistered" {
			rt.Fatalf("UNREGISTERED: member %d delivered a payload for an id nobody registered", d.receiver)
		}
		for _, h := range honest {
			if !signed[fmt.Sprintf("%d|%s|%s", h, d.id, d.payload)] {
				rt.Fatalf("UNSIGNED DELIVERY: member %d delivered (%s, %q) from %d although member %d never signed exactly that (trace %v)", d.receiver, d.id, d.payload, idx(d.sender), h, trace)
			}
		}
		s := idx(d.sender)
		if orig, ok := honestPayload[d.id+"|"+d.payload]; ok && orig != s {
			// another (honest) member's fully signed broadcast presented under sender s's identity
			relayedDeliveries++
			if vstat.IsKnown("C13", "sender_not_bound:relay_under_own_identity", fmt.Sprintf("member %d delivered honest member %d's payload %q for id %s as coming from member %d", d.receiver, orig, d.payload, d.id, s)) {
				continue // excluded: recorded finding
			}
			rt.Fatalf("RELAY: member %d delivered member %d's payload %q (id %s) as sent by member %d (trace %v)", d.receiver, orig, d.payload, d.id, s, trace)
		}
		k := fmt.Sprintf("%d|%s", s, d.id)
		if perSender[k] == nil {
			perSender[k] = map[string]bool{}
		}
		perSender[k][d.payload] = true
		if len(perSender[k]) > 1 {
			rt.Fatalf("EQUIVOCATION DELIVERED: for sender %d and id %s members delivered different payloads %v (trace %v)", s, d.id, perSender[k], trace)
		}
	}
	for i, done := range bdone {
		select {
		case <-done:
		default:
			_ = i
		}
	}
	nontrivial := gotHonestSigs > 0 && sentMsgFrames > 0
	vstat.Case(strings.Join(trace, ";"), nontrivial, cls("time_passed_between_actions", waited), cls("faulty_got_sigs", gotHonestSigs > 0), cls("faulty_sent_msg", sentMsgFrames > 0),
		cls("honest_delivery", len(main.deliv) > 0), cls("relay_attempted", relays > 0), cls("relay_delivered(known finding)", relayedDeliveries > 0), fmt.Sprintf("n=%d", n))
	vstat.Count("deliveries", int64(len(main.deliv)))
	if nontrivial && len(main.deliv) > 0 && vstat.WantSample("history") {
		vstat.Sample("history", map[string]any{"n": n, "faulty": faulty, "events": trace, "deliveries": len(main.deliv)})
	}
}

func cls(name string, on bool) string {
	if on {
		return name
	}
	return ""
}

// TestC13PositiveControl: with every frame delivered in order and the harness-played member
// answering honestly, each honest broadcast must be delivered by every other honest member. If not,
// the harness no longer speaks the protocol (for instance the signed digest changed) and the check
// would be vacuous: that is reported as a harness error (inconclusive), never as a pass.
func TestC13PositiveControl(t *testing.T) {
	vstat.Rule("C13", rule)
	learnProtocols()
	synctest.Test(t, func(t *testing.T) {
		n, faulty := 4, 1
		var peers []peer.ID
		for i := 0; i < n; i++ {
			id, _ := p2p.PeerIDFromKey(key(i).PubKey())
			peers = append(peers, id)
		}
		session := []byte("pc")
		net := memnet.New()
		ctx, cancel := context.WithCancel(context.Background())
		defer cancel()
		delivered := map[int]int{}
		comps := map[int]*bcast.Component{}
		for i := 0; i < n; i++ {
			h := net.Host(peers[i])
			if i == faulty {
				h.HandleFunc(protoSig, func(f *memnet.Frame) proto.Message {
					var req pb.BCastSigRequest
					if f.Decode(&req) != nil {
						return nil
					}
					sig := signAs(faulty, peers, session, f.From, req.GetId(), req.GetMessage())
					return &pb.BCastSigResponse{Id: req.GetId(), Signature: sig}
				})
				h.HandleFunc(protoMsg, func(*memnet.Frame) proto.Message { return nil })
				continue
			}
			c := bcast.New(h, peers, key(i), session)
			c.RegisterMessageIDFuncs("step1", func(context.Context, peer.ID, string, proto.Message) error { delivered[i]++; return nil },
				func(context.Context, peer.ID, *anypb.Any) error { return nil })
			comps[i] = c
		}
		errc := make(chan error, 1)
		go func() { errc <- comps[0].Broadcast(ctx, "step1", wrapperspb.String("hello")) }()
		synctest.Wait()
		for guard := 0; net.NPending() > 0 && guard < 100; guard++ {
			net.Deliver(net.Take(0))
			synctest.Wait()
		}
		if err := <-errc; err != nil {
			t.Fatalf("HARNESS-ERROR: fault-free broadcast failed: %v", err)
		}
		if delivered[2] != 1 || delivered[3] != 1 {
			t.Fatalf("HARNESS-ERROR: fault-free broadcast delivered %v", delivered)
		}
	})
	vstat.Case("positive-control", false, "positive_control")
}

func indexOfStr(list []string, x string) int {
	for i, v := range list {
		if v == x {
			return i
		}
	}
	return 0
}
