// C17 — aggregate-signature store: reads return the stored value with no lost wake-ups, for both
// in-memory implementations. The same generated history is applied to MemDB and MemDBV2 inside one
// synctest bubble and compared with a reference map after every step.
package c17

import (
	"context"
	"errors"
	"fmt"
	"strings"
	"testing"
	"testing/synctest"

	eth2v1 "github.com/attestantio/go-eth2-client/api/v1"
	eth2p0 "github.com/attestantio/go-eth2-client/spec/phase0"
	"pgregory.net/rapid"

	"github.com/obolnetwork/charon/core"
	"github.com/obolnetwork/charon/core/aggsigdb"

	"verifharness/fakes"
	"verifharness/vstat"
)

func TestMain(m *testing.M) { vstat.Main(m) }

const rule = "history of Await (1..6 concurrent readers over overlapping keys), Store (1..3 keys per set, equal and conflicting re-stores, partially failing sets), reader cancellation, expiry through a scripted deadliner, applied to aggsigdb.NewMemDB and NewMemDBV2 alike; after every step and quiescence each pending reader whose key is stored must have returned the stored value, others must still be pending; " +
	"non-trivial = >=2 readers pending on >=2 distinct keys when a store arrived; distinct by op trace"

type store interface {
	Store(context.Context, core.Duty, core.SignedDataSet) error
	Await(context.Context, core.Duty, core.PubKey, core.SubcommitteeIndex) (core.SignedData, error)
	Run(context.Context)
}

type key struct {
	duty    core.Duty
	pubkey  core.PubKey
	subcomm int
}

type reader struct {
	id        int
	key       key
	cancel    context.CancelFunc
	done      chan struct{}
	val       core.SignedData
	err       error
	cancelled bool
}

var duties = []core.Duty{{Slot: 1, Type: core.DutyRandao}, {Slot: 2, Type: core.DutyRandao}, {Slot: 1, Type: core.DutyPrepareSyncContribution}}

func pk(b byte) core.PubKey {
	raw := make([]byte, 48)
	raw[0] = b
	p, err := core.PubKeyFromBytes(raw)
	if err != nil {
		panic(err)
	}
	return p
}

var pubkeys = []core.PubKey{pk(1), pk(2)}

// mkData: variants 1 and 2 differ in the signature only, variants 3 and 4 carry the signatures of 1 and 2 over
// another payload (so two variants may differ in signature, in payload, or in both).
func mkData(duty core.Duty, variant, subcomm int) core.SignedData {
	var s eth2p0.BLSSignature
	s[0] = byte(2 - variant%2)
	payload := 0
	if variant > 2 {
		payload = 1
	}
	if duty.Type == core.DutyRandao {
		return core.NewSignedRandao(eth2p0.Epoch(duty.Slot+uint64(1000*payload)), s)
	}
	return core.NewSyncCommitteeSelection(&eth2v1.SyncCommitteeSelection{ValidatorIndex: eth2p0.ValidatorIndex(5 + payload), Slot: eth2p0.Slot(duty.Slot), SubcommitteeIndex: uint64(subcomm), SelectionProof: s})
}

func js(d core.SignedData) string {
	b, err := d.MarshalJSON()
	if err != nil {
		panic("HARNESS-ERROR: " + err.Error())
	}
	return string(b)
}

type world struct {
	name    string
	db      store
	dl      *fakes.Deadliner
	model   map[key]string
	readers []*reader
	nextID  int
}

func TestC17Model(t *testing.T) {
	vstat.Rule("C17", rule)
	vstat.Assume("entries of a failing multi-key Store are applied in map order: which new keys were stored before the conflict is observed by probing, then asserted like any other stored key")
	rapid.Check(t, func(rt *rapid.T) {
		rapid.SyncTest(rt, func(rt *rapid.T) { runCase(rt) })
	})
}

func runCase(rt *rapid.T) {
	ctx, cancel := context.WithCancel(context.Background())
	mk := func(name string) *world {
		dl := fakes.NewDeadliner()
		w := &world{name: name, dl: dl, model: map[key]string{}}
		if name == "v1" {
			w.db = aggsigdb.NewMemDB(dl)
		} else {
			w.db = aggsigdb.NewMemDBV2(dl)
		}
		return w
	}
	worlds := []*world{mk("v1"), mk("v2")}
	runDone := make(chan struct{}, 2)
	for _, w := range worlds {
		go func() { w.db.Run(ctx); runDone <- struct{}{} }()
	}
	defer func() {
		cancel()
		<-runDone
		<-runDone
		for _, w := range worlds {
			for _, r := range w.readers {
				r.cancel()
				<-r.done
			}
		}
		synctest.Wait()
	}()

	var trace []string
	nontrivial := false

	startReader := func(w *world, k key) *reader {
		rctx, rcancel := context.WithCancel(ctx)
		r := &reader{id: w.nextID, key: k, cancel: rcancel, done: make(chan struct{})}
		w.nextID++
		go func() {
			defer close(r.done)
			r.val, r.err = w.db.Await(rctx, k.duty, k.pubkey, core.SubcommitteeIndex(k.subcomm))
		}()
		w.readers = append(w.readers, r)
		return r
	}
	finished := func(r *reader) bool {
		select {
		case <-r.done:
			return true
		default:
			return false
		}
	}
	check := func(w *world, when string) {
		var still []*reader
		for _, r := range w.readers {
			want, stored := w.model[r.key]
			switch {
			case r.cancelled:
				if !finished(r) {
					rt.Fatalf("[%s] %s: cancelled reader %d of %v did not return", w.name, when, r.id, r.key)
				}
				if r.err == nil {
					// cancellation raced with a value that was already there: must be the stored one
					if !stored || js(r.val) != want {
						rt.Fatalf("[%s] %s: cancelled reader %d returned a value that is not stored", w.name, when, r.id)
					}
				} else if !errors.Is(r.err, context.Canceled) {
					rt.Fatalf("[%s] %s: cancelled reader %d returned %v", w.name, when, r.id, r.err)
				}
			case stored:
				if !finished(r) {
					rt.Fatalf("[%s] %s: LOST WAKE-UP: reader %d waits for %v although it is stored (pending readers %d) trace %v", w.name, when, r.id, r.key, len(w.readers), trace)
				}
				if r.err != nil {
					rt.Fatalf("[%s] %s: reader %d of stored key returned error %v", w.name, when, r.id, r.err)
				}
				if js(r.val) != want {
					rt.Fatalf("[%s] %s: reader %d got %s, stored value is %s", w.name, when, r.id, js(r.val), want)
				}
			default:
				if finished(r) {
					rt.Fatalf("[%s] %s: reader %d of %v returned (%v, %v) although nothing is stored under its key", w.name, when, r.id, r.key, r.val, r.err)
				}
				still = append(still, r)
			}
		}
		w.readers = still
	}
	probe := func(w *world, k key) bool {
		r := startReader(w, k)
		w.readers = w.readers[:len(w.readers)-1]
		synctest.Wait()
		if finished(r) {
			if r.err != nil {
				rt.Fatalf("[%s] probe of %v returned %v", w.name, k, r.err)
			}
			return true
		}
		r.cancel()
		<-r.done
		return false
	}

	drawKey := func() key {
		d := duties[rapid.IntRange(0, len(duties)-1).Draw(rt, "duty")]
		k := key{duty: d, pubkey: pubkeys[rapid.IntRange(0, 1).Draw(rt, "pubkey")]}
		if core.IsSyncSubcommitteeDuty(d.Type) {
			k.subcomm = rapid.IntRange(0, 1).Draw(rt, "subcomm")
		}
		return k
	}

	nOps := rapid.IntRange(1, 30).Draw(rt, "nOps")
	for op := 0; op < nOps; op++ {
		switch c := rapid.IntRange(0, 9).Draw(rt, "op"); {
		case c < 4: // new reader
			if len(worlds[0].readers) >= 6 {
				continue
			}
			k := drawKey()
			for _, w := range worlds {
				startReader(w, k)
			}
			trace = append(trace, fmt.Sprintf("await(%d/%v,%d)", k.duty.Slot, k.duty.Type, k.subcomm))
		case c < 8: // store
			d := duties[rapid.IntRange(0, len(duties)-1).Draw(rt, "sduty")]
			nk := rapid.IntRange(1, 2).Draw(rt, "nKeys")
			variantOf := map[core.PubKey]int{}
			subcomm := 0
			if core.IsSyncSubcommitteeDuty(d.Type) {
				subcomm = rapid.IntRange(0, 1).Draw(rt, "ssubcomm")
			}
			for i := 0; i < nk; i++ {
				variantOf[pubkeys[(i+rapid.IntRange(0, 1).Draw(rt, "spk"))%2]] = rapid.SampledFrom([]int{1, 1, 2, 2, 3, 4}).Draw(rt, "variant")
			}
			// non-trivial: >=2 readers pending on >=2 distinct keys right now
			distinct := map[key]bool{}
			for _, r := range worlds[0].readers {
				distinct[r.key] = true
			}
			if len(worlds[0].readers) >= 2 && len(distinct) >= 2 {
				nontrivial = true
			}
			for _, w := range worlds {
				set := core.SignedDataSet{}
				conflict := false
				var fresh []key
				for p, v := range variantOf {
					data := mkData(d, v, subcomm)
					set[p] = data
					k := key{d, p, subcomm}
					if old, ok := w.model[k]; ok {
						if old != js(data) {
							conflict = true
						}
					} else {
						fresh = append(fresh, k)
					}
				}
				err := w.db.Store(ctx, d, set)
				synctest.Wait()
				if conflict != (err != nil) {
					rt.Fatalf("[%s] store %v of %v returned %v, conflict expected=%v", w.name, variantOf, d, err, conflict)
				}
				for _, k := range fresh {
					if !conflict || probe(w, k) {
						w.model[k] = js(mkData(d, variantOf[k.pubkey], subcomm))
					}
				}
			}
			trace = append(trace, fmt.Sprintf("store(%d/%v,%d keys)", d.Slot, d.Type, len(variantOf)))
		case c == 8: // cancel a reader
			if len(worlds[0].readers) == 0 {
				continue
			}
			i := rapid.IntRange(0, len(worlds[0].readers)-1).Draw(rt, "cancelIdx")
			for _, w := range worlds {
				if i < len(w.readers) {
					w.readers[i].cancelled = true
					w.readers[i].cancel()
				}
			}
			trace = append(trace, "cancel")
		default: // expiry
			d := duties[rapid.IntRange(0, len(duties)-1).Draw(rt, "xduty")]
			for _, w := range worlds {
				w.dl.Expire(d)
				for k := range w.model {
					if k.duty == d {
						delete(w.model, k)
					}
				}
			}
			trace = append(trace, fmt.Sprintf("expire(%d/%v)", d.Slot, d.Type))
		}
		synctest.Wait()
		for _, w := range worlds {
			check(w, trace[len(trace)-1])
		}
	}
	vstat.Case(strings.Join(trace, ";"), nontrivial, cls("readers>=2_on>=2_keys_at_store", nontrivial))
	if nontrivial && vstat.WantSample("history") {
		vstat.Sample("history", map[string]any{"ops": trace})
	}
}

func cls(name string, on bool) string {
	if on {
		return name
	}
	return ""
}

// TestC17Regression: three waiters (two on the stored key) and one Store — the shrunk history that
// failed on MemDBV2 before the fix.
func TestC17Regression(t *testing.T) {
	vstat.Rule("C17", rule)
	synctest.Test(t, func(t *testing.T) {
		ctx, cancel := context.WithCancel(context.Background())
		defer cancel()
		db := aggsigdb.NewMemDBV2(fakes.NewDeadliner())
		go db.Run(ctx)
		got := make(chan string, 3)
		for _, p := range []core.PubKey{pubkeys[0], pubkeys[0], pubkeys[1]} {
			go func() {
				v, err := db.Await(ctx, duties[0], p, 0)
				if err == nil {
					got <- js(v)
				}
			}()
		}
		synctest.Wait()
		if err := db.Store(ctx, duties[0], core.SignedDataSet{pubkeys[0]: mkData(duties[0], 1, 0)}); err != nil {
			t.Fatal(err)
		}
		synctest.Wait()
		if len(got) != 2 {
			t.Fatalf("one Store woke %d of the 2 readers of its key", len(got))
		}
		cancel()
		synctest.Wait()
	})
	vstat.Case("regression-v2-three-waiters", true, "regression")
}
