package c17

import (
	"context"
	"fmt"
	"sync"
	"sync/atomic"
	"testing"
	"time"

	"pgregory.net/rapid"

	"github.com/obolnetwork/charon/core"
	"github.com/obolnetwork/charon/core/aggsigdb"

	"verifharness/fakes"
	"verifharness/vstat"
)

// TestC17Threads is the real-thread companion of TestC17Model (thorough tier, built with -race): the
// bubble cannot pre-empt inside a critical section, OS threads can. A drawn plan (keys, number of
// readers per key, number of writers, re-stores of equal data, cancelled readers) runs with every
// reader and writer on its own goroutine at once. Oracle: every reader that was not cancelled returns
// exactly the value stored for its key (no lost wake-up: each key is stored, so a reader still pending
// 20 s of wall clock later is reported as inconclusive, never as a violation), cancelled readers return
// an error or the stored value, and the race detector stays silent (GORACE=halt_on_error).
func TestC17Threads(t *testing.T) {
	vstat.Rule("C17", "threads: drawn plan of 2..12 keys x 1..6 readers x 1..3 writers (equal re-stores) on real goroutines under the race detector, both implementations; non-trivial = a key with >=2 readers")
	rapid.Check(t, func(rt *rapid.T) {
		impl := rapid.SampledFrom([]string{"v1", "v2"}).Draw(rt, "impl")
		nKeys := rapid.IntRange(2, 12).Draw(rt, "keys")
		type plan struct {
			k       key
			readers int
			writers int
			cancel  int // readers cancelled while pending
		}
		var plans []plan
		multi := false
		for i := 0; i < nKeys; i++ {
			d := core.Duty{Slot: uint64(1 + i/2), Type: core.DutyRandao}
			p := plan{k: key{duty: d, pubkey: pubkeys[i%2]}, readers: rapid.IntRange(1, 6).Draw(rt, "readers"), writers: rapid.IntRange(1, 3).Draw(rt, "writers")}
			p.cancel = rapid.IntRange(0, p.readers/2).Draw(rt, "cancelled")
			if p.readers-p.cancel >= 2 {
				multi = true
			}
			plans = append(plans, p)
		}
		ctx, cancelAll := context.WithCancel(context.Background())
		defer cancelAll()
		dl := fakes.NewDeadliner()
		var db store
		if impl == "v1" {
			db = aggsigdb.NewMemDB(dl)
		} else {
			db = aggsigdb.NewMemDBV2(dl)
		}
		runDone := make(chan struct{})
		go func() { db.Run(ctx); close(runDone) }()

		type result struct {
			k         key
			val       core.SignedData
			err       error
			cancelled bool
		}
		var readersWG, writersWG sync.WaitGroup
		results := make(chan result, 256)
		start := make(chan struct{})
		for _, p := range plans {
			for r := 0; r < p.readers; r++ {
				cancelled := r < p.cancel
				rctx, rcancel := context.WithCancel(ctx)
				readersWG.Add(1)
				go func() {
					defer readersWG.Done()
					defer rcancel()
					<-start
					if cancelled {
						go func() { time.Sleep(50 * time.Microsecond); rcancel() }()
					}
					v, err := db.Await(rctx, p.k.duty, p.k.pubkey, 0)
					results <- result{p.k, v, err, cancelled}
				}()
			}
			for w := 0; w < p.writers; w++ {
				writersWG.Add(1)
				go func() {
					defer writersWG.Done()
					<-start
					if err := db.Store(ctx, p.k.duty, core.SignedDataSet{p.k.pubkey: mkData(p.k.duty, 1, 0)}); err != nil {
						results <- result{k: p.k, err: fmt.Errorf("store: %w", err)}
					}
				}()
			}
		}
		close(start)
		wait := func(wg *sync.WaitGroup, d time.Duration) bool {
			fin := make(chan struct{})
			go func() { wg.Wait(); close(fin) }()
			select {
			case <-fin:
				return true
			case <-time.After(d):
				return false
			}
		}
		// A heartbeat goroutine tells a wedged store from a starved machine: a violation is reported only
		// if the heartbeat made normal progress while the callers did not return.
		var beats int64
		hbStop := make(chan struct{})
		go func() {
			tk := time.NewTicker(10 * time.Millisecond)
			defer tk.Stop()
			for {
				select {
				case <-tk.C:
					atomic.AddInt64(&beats, 1)
				case <-hbStop:
					return
				}
			}
		}()
		if !wait(&writersWG, 20*time.Second) {
			close(hbStop)
			cancelAll()
			if atomic.LoadInt64(&beats) < 700 {
				panic("HARNESS-ERROR: Store calls still running after 20 s and the machine is starved (heartbeat made little progress); impl " + impl)
			}
			rt.Fatalf("STORE HANGS: %s: Store calls for distinct keys did not return within 20 s although the machine was responsive (the store is wedged); plan %v", impl, plans)
		}
		// every key is stored now: a reader that does not return was not woken.
		atomic.StoreInt64(&beats, 0)
		ok := wait(&readersWG, 15*time.Second)
		close(hbStop)
		if !ok {
			cancelAll()
			if atomic.LoadInt64(&beats) < 500 {
				panic("HARNESS-ERROR: readers pending and the machine is starved (heartbeat made little progress); impl " + impl)
			}
			rt.Fatalf("LOST WAKE-UP: %s: every key was stored (all Store calls returned) but a reader was still waiting 15 s later; plan %v", impl, plans)
		}
		close(results)
		for r := range results {
			switch {
			case r.val == nil && r.err != nil && !r.cancelled:
				rt.Fatalf("%s: %v/%s: %v", impl, r.k.duty, r.k.pubkey[:6], r.err)
			case r.err == nil:
				if js(r.val) != js(mkData(r.k.duty, 1, 0)) {
					rt.Fatalf("%s: reader of %v got %s, stored %s", impl, r.k.duty, js(r.val), js(mkData(r.k.duty, 1, 0)))
				}
			}
		}
		cancelAll()
		<-runDone
		vstat.Case(fmt.Sprintf("threads/%s/%v", impl, plans), multi, "threads:"+impl)
	})
}
