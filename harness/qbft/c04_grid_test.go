// C04 — fault grid. The crash points of the property ("message index, recipient subset") are enumerated
// completely for n = 4 and n = 7: every member as the one that stops inside its k-th broadcast (k = 1..12),
// every subset of the other members as the recipients that were still served, under three fixed latency
// patterns; for n = 7 (f = 2) additionally with or without a second member that is silent from the start.
// What the grid does not fix (slot, duty type, start offsets, hashed latencies) is drawn by rapid, a few
// completions per grid point. Each grid point is a sub-test, so a failure names its point and replays alone.
package qbft

import (
	"fmt"
	"os"
	"strconv"
	"testing"
	"time"

	"pgregory.net/rapid"

	"github.com/obolnetwork/charon/core"

	"verifharness/vstat"
)

type gridPoint struct {
	n      int
	member int64
	bcast  int
	mask   uint
	lat    int  // 1 = zero latency, 2 = all at the maximum, 3 = skewed by destination
	second bool // n = 7: a second faulty member, silent from the start (the next leader that is not the crashing member)
}

func (g gridPoint) name() string {
	s := 0
	if g.second {
		s = 1
	}
	return fmt.Sprintf("n%d_m%d_b%d_r%x_l%d_s%d", g.n, g.member, g.bcast, g.mask, g.lat, s)
}

func c04Grid(sizes []int) []gridPoint {
	var out []gridPoint
	for _, n := range sizes {
		seconds := []bool{false}
		if (n-1)/3 >= 2 {
			seconds = []bool{false, true}
		}
		for m := int64(0); m < int64(n); m++ {
			for b := 1; b <= 12; b++ {
				for mask := uint(0); mask < 1<<uint(n); mask++ {
					if mask&(1<<uint(m)) != 0 {
						continue // the member itself is not a recipient
					}
					for lat := 1; lat <= 3; lat++ {
						for _, sec := range seconds {
							out = append(out, gridPoint{n, m, b, mask, lat, sec})
						}
					}
				}
			}
		}
	}
	return out
}

func TestC04Grid(t *testing.T) {
	vstat.Rule("C04", ruleC04+"; grid: for n=4 and n=7 every (member that stops, broadcast index 1..12, subset of the other members still served, one of three latency patterns[, second member silent for n=7]) is visited, each completed with drawn slot, duty type and start offsets")
	sizes := []int{4, 7}
	if os.Getenv("VERIF_C04_GRID") == "n4" {
		sizes = []int{4}
	}
	shard, _ := strconv.Atoi(os.Getenv("VERIF_SHARD"))
	shards, _ := strconv.Atoi(os.Getenv("VERIF_SHARDS"))
	if shards < 1 {
		shards = 1
	}
	grid := c04Grid(sizes)
	vstat.Exhaustive()
	visited := 0
	for i, g := range grid {
		if i%shards != shard {
			continue
		}
		visited++
		t.Run(g.name(), func(t *testing.T) {
			rapid.Check(t, func(rt *rapid.T) {
				rapid.SyncTest(rt, func(rt *rapid.T) {
					c := c04Case{n: g.n, timerSel: "default", faults: map[int64]faultPlan{}, fixedLat: g.lat, latMax: 333 * time.Millisecond}
					c.duty = core.Duty{Slot: uint64(rapid.IntRange(0, 40).Draw(rt, "slot")), Type: c04Duties[rapid.IntRange(0, len(c04Duties)-1).Draw(rt, "dutyType")]}
					c.faults[g.member] = faultPlan{kind: fCrashInBroadcast, bcast: g.bcast, reached: g.mask}
					if g.second {
						for r := int64(1); ; r++ {
							if id := (int64(c.duty.Slot) + int64(c.duty.Type) + r) % int64(g.n); id != g.member {
								c.faults[id] = faultPlan{kind: fSilent}
								break
							}
						}
					}
					for i := 0; i < g.n; i++ {
						c.starts = append(c.starts, time.Duration(rapid.IntRange(0, 900).Draw(rt, "startMs"))*time.Millisecond)
					}
					c.latSeed = rapid.Uint64().Draw(rt, "latSeed")
					runC04(rt, c)
				})
			})
		})
	}
	vstat.Count("grid_points_visited", int64(visited))
	vstat.Count("grid_points_total_this_configuration", int64(len(grid))/int64(shards))
}
