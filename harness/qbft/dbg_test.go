package qbft

import (
	"os"
	"runtime"
)

func dumpGoroutines() {
	buf := make([]byte, 1<<20)
	n := runtime.Stack(buf, true)
	os.Stderr.Write(buf[:n])
}
