package qbft

import (
	"fmt"
	"os"
	"testing"
	"testing/synctest"

	cq "github.com/obolnetwork/charon/core/qbft"

	"verifharness/qbftsim"
)

// TestDbgJumpEquivocation is a scripted run of the "laggard jumps on an equivocating leader" attack,
// used while tuning the staged profile (VERIF_DBG=1).
func TestDbgJumpEquivocation(t *testing.T) {
	if os.Getenv("VERIF_DBG") == "" {
		t.Skip("debug only")
	}
	synctest.Test(t, func(t *testing.T) {
		n := 4
		offset := int64(2)
		leader := func(_ int64, round, proc int64) bool { return (offset+round)%int64(n) == proc }
		byz := map[int64]bool{0: true}
		s := qbftsim.New(n, 7, leader, byz, qbftsim.Hooks{})
		defer s.Stop()
		for _, h := range []int64{1, 2, 3} {
			s.Start(h)
			s.SupplyInput(h, 101+h)
		}
		synctest.Wait()
		for s.NPending() > 0 {
			s.DropIdx(0)
		}
		s.FireTimer(1)
		s.FireTimer(2)
		var rcs []*qbftsim.M
		s.Lock()
		for _, m := range s.Sent {
			if m.Typ == cq.MsgRoundChange && m.Rnd == 2 {
				rcs = append(rcs, m.Strip())
			}
		}
		s.Unlock()
		for s.NPending() > 0 {
			s.DropIdx(0)
		}
		mk := func(typ cq.MsgType, r, v int64, just []*qbftsim.M) *qbftsim.M {
			return &qbftsim.M{Typ: typ, Inst: 7, Src: 0, Rnd: r, Val: v, Just: just, Byz: true}
		}
		just := append(append([]*qbftsim.M{}, rcs...), mk(cq.MsgRoundChange, 2, 0, nil))
		s.Inject(mk(cq.MsgPrePrepare, 2, 901, just), []int64{3})
		s.Inject(mk(cq.MsgPrePrepare, 2, 902, just), []int64{3})
		s.Inject(mk(cq.MsgPrePrepare, 2, 901, just), []int64{1})
		s.Inject(mk(cq.MsgPrePrepare, 2, 902, just), []int64{2})
		for s.NPending() > 0 {
			found := false
			s.Lock()
			idx := -1
			for i, d := range s.Pending {
				if d.Msg.Typ == cq.MsgPrePrepare {
					idx = i
					break
				}
			}
			s.Unlock()
			if idx >= 0 {
				s.DeliverIdx(idx)
				found = true
			}
			if !found {
				break
			}
		}
		s.Lock()
		for _, m := range s.Sent {
			fmt.Println("SENT", m)
		}
		for _, u := range s.Unjusts {
			fmt.Println("UNJUST at", u.Proc, u.Msg)
		}
		s.Unlock()
	})
}
