package qbft

import "testing/synctest"

func waitQuiet() { synctest.Wait() }
