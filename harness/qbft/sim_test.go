// C02 (agreement) and C03 (validity / integrity) — one generator, two oracles.
//
// n production core/qbft.Run state machines inside a synctest bubble; the harness delivers one
// message at a time, fires timers, starts processes late, and plays up to f Byzantine members
// through the adversary templates.
package qbft

import (
	"fmt"
	"hash/fnv"
	"os"
	"sort"
	"strings"
	"testing"

	"pgregory.net/rapid"

	cq "github.com/obolnetwork/charon/core/qbft"

	"verifharness/qbftsim"
	"verifharness/vstat"
)

func TestMain(m *testing.M) { vstat.Main(m) }

const ruleC02 = "n in 3..7 production qbft.Run processes in a synctest bubble, drawn leader offset, up to f Byzantine members played by message templates filled from observed honest traffic; event sequence of deliver/drop/duplicate/timer/late start/late input/adversary message, then a fair completion phase; " +
	"non-trivial = run with >=1 honest round change, or >=1 adversary message delivered and not rejected as unjust, or >=1 drop/duplicate; distinct by (n, byzantine set, decisions (process, round, value), hash of the upon-rule trace)"

const ruleC03 = "same generator as C02 incl. members that never obtain an input and adversary DECIDED bundles (short, padded, wrong value); oracle per honest process: at most one Decide, non-zero value, value carried by a PRE-PREPARE actually sent by the designated leader of some round (no Byzantine members: an input value), qcommit contains a quorum of distinct-source COMMITs for exactly the decided round and value; " +
	"non-trivial = a decision through a justified DECIDED message, or in round > 1, or of a re-proposed prepared value; distinct as for C02"

type caseCfg struct {
	n      int
	offset int64
	byz    map[int64]bool
	maxEv  int
	oracle string // C02 or C03
	staged bool   // force the staged (round-structured, goal-directed) profile
}

func oracleSel() string {
	o := os.Getenv("VERIF_ORACLE")
	if o == "" {
		return "C02"
	}
	return o
}

func TestQBFTRandom(t *testing.T) {
	or := oracleSel()
	if or == "C02" {
		vstat.Rule("C02", ruleC02)
	} else {
		vstat.Rule("C03", ruleC03)
	}
	vstat.Assume("message sources are authenticated by the transport (C05): the adversary can only originate messages under its own identities, nested justifications may be any observed honest message")
	vstat.Assume("Compare is the production default (returns nil at once) in three cases of four; in the fourth the opt-in comparison is on and every honest member rejects a drawn set of values (a pure function of member and value, answered at once; a comparison that blocks until local data arrives is not modelled); FIFOLimit = 100 as instance.RecvBufferSize")
	maxEv := vstat.EnvInt("VERIF_MAXEV", 300)
	rapid.Check(t, func(rt *rapid.T) {
		rapid.SyncTest(rt, func(rt *rapid.T) {
			n := rapid.IntRange(3, 7).Draw(rt, "n")
			f := (n - 1) / 3
			nb := 0
			if f > 0 {
				nb = rapid.IntRange(0, f).Draw(rt, "nByz")
				if nb < f && rapid.IntRange(0, 2).Draw(rt, "fullF") != 0 {
					nb = f
				}
			}
			byz := map[int64]bool{}
			for len(byz) < nb {
				byz[int64(rapid.IntRange(0, n-1).Draw(rt, "byzID"))] = true
			}
			cfg := caseCfg{n: n, offset: int64(rapid.IntRange(0, n-1).Draw(rt, "offset")), byz: byz, maxEv: maxEv, oracle: or}
			runRandom(rt, cfg, nil)
		})
	})
}

// TestQBFTStaged runs only the staged (goal-directed, round-structured) profile, with the
// configurations in which a Byzantine member leads one of rounds 2..4 made frequent.
func TestQBFTStaged(t *testing.T) {
	or := oracleSel()
	if or == "C02" {
		vstat.Rule("C02", ruleC02+" || staged profile: per round drawn intents (who sees a prepare quorum / a commit quorum, whose ROUND-CHANGEs arrive first), cooperating Byzantine votes, Byzantine leaders re-proposing stale prepared values with drawn justification order")
	} else {
		vstat.Rule("C03", ruleC03)
	}
	maxEv := vstat.EnvInt("VERIF_MAXEV", 300)
	rapid.Check(t, func(rt *rapid.T) {
		rapid.SyncTest(rt, func(rt *rapid.T) {
			n := rapid.SampledFrom([]int{3, 3, 4, 4, 4, 5, 6, 6, 7, 7}).Draw(rt, "n")
			f := (n - 1) / 3
			byz := map[int64]bool{}
			for len(byz) < f {
				byz[int64(rapid.IntRange(0, n-1).Draw(rt, "byzID"))] = true
			}
			cfg := caseCfg{n: n, offset: int64(rapid.IntRange(0, n-1).Draw(rt, "offset")), byz: byz, maxEv: maxEv, oracle: or, staged: true}
			runRandom(rt, cfg, nil)
		})
	})
}

type outcome struct {
	roundChanges int
	advAccepted  int
	advSent      int
	dropsDups    int
	decisions    []qbftsim.Decision
	ruleHash     uint64
	viaDecided   bool
	lateRound    bool
	reproposed   bool
	twoPrepared  bool // honest ROUND-CHANGEs carried two different prepared values
	staleAttempt bool // a Byzantine leader re-proposed a prepared value although a higher prepared round was visible
}

// fixedAdversary lets the systematic sweep script the adversary part (nil = drawn).
type fixedAdversary func(rt *rapid.T, s *qbftsim.Sim, a *adversary, step int) bool

func runRandom(rt *rapid.T, cfg caseCfg, fixed fixedAdversary) outcome {
	n := cfg.n
	leader := func(_ int64, round, proc int64) bool { return (cfg.offset+round)%int64(n) == proc }
	// The opt-in comparison of the leader's proposal with the member's local data (Definition.Compare): in one
	// case of four the feature is on and honest members reject some values. The verdict is a pure function of
	// (member, value) as the production comparison is (same proposal, same local data, same verdict).
	hooks := qbftsim.Hooks{}
	compareOn := rapid.IntRange(0, 3).Draw(rt, "compareFeature") == 0
	if compareOn {
		verdict := make([][5]bool, n)
		for i := range verdict {
			for k := range verdict[i] {
				verdict[i][k] = rapid.IntRange(0, 2).Draw(rt, "compareFails") == 0
			}
		}
		hooks.CompareFails = func(p *qbftsim.Proc, m *qbftsim.M) bool { return verdict[p.ID][uint64(m.Val)%5] }
	}
	s := qbftsim.New(n, 7, leader, cfg.byz, hooks)
	defer s.Stop()

	var hon, byzs []int64
	for i := int64(0); i < int64(n); i++ {
		if cfg.byz[i] {
			byzs = append(byzs, i)
		} else {
			hon = append(hon, i)
		}
	}
	adv := &adversary{s: s, byz: byzs, hon: hon, vals: []int64{901, 902}, compareOn: compareOn}

	// Some honest processes start late / get their input late / never.
	var notStarted, noInput []int64
	for _, h := range hon {
		switch rapid.IntRange(0, 9).Draw(rt, "startMode") {
		case 0: // late start
			notStarted = append(notStarted, h)
			noInput = append(noInput, h)
		case 1: // started, input late (or never)
			s.Start(h)
			noInput = append(noInput, h)
		default:
			s.Start(h)
			s.SupplyInput(h, 101+h)
		}
	}
	neverInput := map[int64]bool{}
	for _, h := range noInput {
		if rapid.IntRange(0, 3).Draw(rt, "never") == 0 {
			neverInput[h] = true
		}
	}
	waitQuiet()

	var out outcome
	var trace []string
	logf := func(format string, args ...any) {
		trace = append(trace, fmt.Sprintf(format, args...))
	}
	var delivered []qbftsim.Delivery
	blocked := map[int64]bool{}
	effective := map[*qbftsim.M]bool{} // adversary messages handed to a process that had not decided yet
	checkNow := func() { checkOracles(rt, s, cfg, hon, &trace) }

	// Orderly profile: walk the protocol phases round by round, with per-destination omissions,
	// partial deliveries and adversary moves in between; this reaches multi-round states (prepared
	// but undecided members, split decisions) that a purely chaotic schedule rarely builds.
	profile := rapid.IntRange(0, 4).Draw(rt, "profile")
	if cfg.staged {
		profile = 4
	}
	orderly := profile == 1 || profile == 2
	staged := profile >= 3
	{
		pendingFor := func(typ cq.MsgType, dst int64) []int {
			s.Lock()
			defer s.Unlock()
			var idx []int
			for i, d := range s.Pending {
				if d.Msg.Typ == typ && d.Dst == dst {
					idx = append(idx, i)
				}
			}
			return idx
		}
		deliverP := func(i int) {
			s.Lock()
			dst := s.Pending[i].Dst
			s.Unlock()
			undecided := len(s.DecisionsOf(dst)) == 0
			d, ok := s.DeliverIdx(i)
			if ok {
				delivered = append(delivered, d)
				if undecided && d.Msg.Byz {
					effective[d.Msg] = true
				}
			}
			logf("phase %v -> %d (%v)", d.Msg, d.Dst, ok)
			checkNow()
		}
		advMaybe := func() {
			if len(byzs) == 0 {
				return
			}
			k := rapid.IntRange(0, 2).Draw(rt, "advMoves")
			for i := 0; i < k; i++ {
				label := adv.act(rt)
				out.advSent++
				vstat.Count("adv:"+label, 1)
				logf("adversary %s", label)
			}
		}
		if staged {
			runStaged(rt, &stageEnv{s: s, cfg: cfg, hon: hon, byzs: byzs, adv: adv, deliverP: deliverP, logf: logf, check: checkNow, out: &out})
		}
		step := func(typ cq.MsgType) {
			for _, h := range hon {
				mode := rapid.IntRange(0, 9).Draw(rt, "phaseMode")
				idx := pendingFor(typ, h)
				if len(idx) == 0 {
					continue
				}
				switch {
				case mode < 6: // everything
					for len(pendingFor(typ, h)) > 0 {
						deliverP(pendingFor(typ, h)[0])
					}
				case mode < 8: // a part
					k := rapid.IntRange(1, len(idx)).Draw(rt, "part")
					for j := 0; j < k && len(pendingFor(typ, h)) > 0; j++ {
						l := pendingFor(typ, h)
						deliverP(l[rapid.IntRange(0, len(l)-1).Draw(rt, "partPick")])
					}
				case mode == 8: // hold back for later
				default: // lose them
					for len(pendingFor(typ, h)) > 0 {
						s.DropIdx(pendingFor(typ, h)[0])
					}
					out.dropsDups++
					logf("phase: drop all %v -> %d", typ, h)
				}
			}
		}
		phases := 0
		if orderly {
			phases = rapid.IntRange(1, 5).Draw(rt, "phases")
		}
		for ph := 0; ph < phases && !allDecided(s, hon); ph++ {
			for _, typ := range []cq.MsgType{cq.MsgPrePrepare, cq.MsgPrepare, cq.MsgCommit} {
				advMaybe()
				step(typ)
			}
			advMaybe()
			for _, h := range hon {
				if len(s.DecisionsOf(h)) == 0 && rapid.IntRange(0, 4).Draw(rt, "timeout?") != 0 {
					s.FireTimer(h)
					logf("phase: timer %d", h)
				}
			}
			step(cq.MsgRoundChange)
			advMaybe()
			step(cq.MsgDecided)
		}
	}

	maxEv := cfg.maxEv
	if orderly || staged {
		maxEv = cfg.maxEv / 4
	}
	nEv := rapid.IntRange(10, maxEv).Draw(rt, "nEvents")
	extraAfterDecided := 25
	for ev := 0; ev < nEv; ev++ {
		if allDecided(s, hon) {
			extraAfterDecided--
			if extraAfterDecided < 0 {
				break
			}
		}
		np := s.NPending()
		op := rapid.IntRange(0, 99).Draw(rt, "op")
		// eligible = pending deliveries whose destination is not currently partitioned off
		eligible := func(filter func(d qbftsim.Delivery) bool) []int {
			s.Lock()
			defer s.Unlock()
			var idx []int
			for i, d := range s.Pending {
				if !blocked[d.Dst] && (filter == nil || filter(d)) {
					idx = append(idx, i)
				}
			}
			return idx
		}
		deliverAt := func(i int, how string) {
			s.Lock()
			dst := s.Pending[i].Dst
			s.Unlock()
			undecided := len(s.DecisionsOf(dst)) == 0
			d, ok := s.DeliverIdx(i)
			if ok {
				delivered = append(delivered, d)
				if undecided && d.Msg.Byz {
					effective[d.Msg] = true
				}
			}
			logf("%s %v -> %d (%v)", how, d.Msg, d.Dst, ok)
		}
		switch {
		case op < 36 && np > 0:
			el := eligible(nil)
			if len(el) == 0 {
				break
			}
			deliverAt(el[rapid.IntRange(0, len(el)-1).Draw(rt, "deliver")], "deliver")
		case op < 56 && np > 0: // batch: everything of one type and/or for one destination, in order
			typ := cq.MsgType(rapid.IntRange(0, 5).Draw(rt, "batchType")) // 0 = any
			dst := int64(rapid.IntRange(-1, n-1).Draw(rt, "batchDst"))    // -1 = any
			match := func(d qbftsim.Delivery) bool {
				return (typ == 0 || d.Msg.Typ == typ) && (dst < 0 || d.Dst == dst)
			}
			cnt := 0
			for cnt < 64 {
				el := eligible(match)
				if len(el) == 0 {
					break
				}
				deliverAt(el[0], "batch")
				cnt++
				checkNow()
			}
		case op < 61: // partition a process off / back in
			h := hon[rapid.IntRange(0, len(hon)-1).Draw(rt, "blockProc")]
			blocked[h] = !blocked[h]
			logf("blocked[%d]=%v", h, blocked[h])
		case op < 64 && np > 0:
			if rapid.Bool().Draw(rt, "dropBatch") {
				dst := hon[rapid.IntRange(0, len(hon)-1).Draw(rt, "dropDst")]
				for {
					el := eligible(func(d qbftsim.Delivery) bool { return d.Dst == dst })
					if len(el) == 0 {
						break
					}
					s.DropIdx(el[0])
				}
				logf("drop all -> %d", dst)
			} else {
				d := s.DropIdx(rapid.IntRange(0, np-1).Draw(rt, "drop"))
				logf("drop %v -> %d", d.Msg, d.Dst)
			}
			out.dropsDups++
		case op < 68 && len(delivered) > 0:
			d := delivered[rapid.IntRange(0, len(delivered)-1).Draw(rt, "dup")]
			dst := d.Dst
			if rapid.Bool().Draw(rt, "dupOther") {
				dst = hon[rapid.IntRange(0, len(hon)-1).Draw(rt, "dupDst")]
			}
			ok := s.Send(qbftsim.Delivery{Msg: d.Msg, Dst: dst, Dup: true})
			waitQuiet()
			out.dropsDups++
			logf("duplicate %v -> %d (%v)", d.Msg, dst, ok)
		case op < 73:
			h := hon[rapid.IntRange(0, len(hon)-1).Draw(rt, "timerProc")]
			ok := s.FireTimer(h)
			logf("timer %d (%v)", h, ok)
		case op < 77: // timers of every undecided, not partitioned process
			for _, h := range hon {
				if !blocked[h] && len(s.DecisionsOf(h)) == 0 {
					s.FireTimer(h)
				}
			}
			logf("timers(all unblocked)")
		case op < 81 && (len(notStarted) > 0 || len(noInput) > 0):
			if len(notStarted) > 0 && rapid.Bool().Draw(rt, "startOrInput") {
				h := notStarted[0]
				notStarted = notStarted[1:]
				s.Start(h)
				waitQuiet()
				logf("start %d", h)
			} else if len(noInput) > 0 {
				h := noInput[0]
				noInput = noInput[1:]
				if !neverInput[h] {
					s.SupplyInput(h, 101+h)
					waitQuiet()
					logf("input %d", h)
				}
			}
		case len(byzs) > 0:
			var label string
			if fixed != nil && fixed(rt, s, adv, ev) {
				label = "scripted"
			} else {
				label = adv.act(rt)
			}
			out.advSent++
			vstat.Count("adv:"+label, 1)
			logf("adversary %s", label)
		default:
			el := eligible(nil)
			if len(el) > 0 {
				deliverAt(el[0], "deliver(oldest)")
			}
		}
		checkNow()
	}

	// Fair completion: start everybody, deliver everything in FIFO order, fire timers when stuck.
	for _, h := range notStarted {
		s.Start(h)
	}
	waitQuiet()
	budget := 60 * n * n
	for rounds := 0; budget > 0 && rounds < 8 && !allDecided(s, hon); {
		if s.NPending() > 0 {
			d, _ := s.DeliverIdx(0)
			logf("complete: deliver %v -> %d", d.Msg, d.Dst)
			budget--
			checkNow()
			continue
		}
		rounds++
		for _, h := range hon {
			if len(s.DecisionsOf(h)) == 0 {
				s.FireTimer(h)
			}
		}
		logf("complete: timers")
	}
	checkNow()

	// classification
	s.Lock()
	out.roundChanges = s.RoundChg
	rejected := map[*qbftsim.M]bool{}
	honestUnjust := 0
	for _, u := range s.Unjusts {
		if u.Msg.Byz {
			rejected[u.Msg] = true
		} else {
			honestUnjust++
		}
	}
	h := fnv.New64a()
	for _, r := range s.Rules {
		fmt.Fprintf(h, "%d:%d:%d;", r.Proc, r.Round, r.Rule)
		if r.Rule == cq.UponJustifiedDecided {
			out.viaDecided = true
		}
		if r.Rule == cq.UponQuorumRoundChanges {
			// leader re-proposal with prepared value is visible in Sent; see below
		}
	}
	out.ruleHash = h.Sum64()
	out.decisions = append(out.decisions, s.Decided...)
	pvs := map[int64]bool{}
	for _, m := range s.Sent {
		if m.Typ == cq.MsgPrePrepare && m.Rnd > 1 && m.Val != 101+m.Src {
			out.reproposed = true
		}
		if m.Typ == cq.MsgRoundChange && m.PR > 0 {
			pvs[m.PV] = true
		}
	}
	out.twoPrepared = len(pvs) > 1
	compareFailed := s.CompareFailures > 0
	s.Unlock()
	seenAdv := map[*qbftsim.M]bool{}
	for _, d := range delivered {
		if d.Msg.Byz && effective[d.Msg] && !rejected[d.Msg] && !seenAdv[d.Msg] {
			seenAdv[d.Msg] = true
			out.advAccepted++
			vstat.Count("adv_accepted:"+d.Msg.Label, 1)
		}
	}
	for _, d := range out.decisions {
		if d.Round > 1 {
			out.lateRound = true
		}
	}

	if dbg := os.Getenv("VERIF_DBG_TRACE"); dbg != "" && strings.Contains(strings.Join(trace, "\n"), dbg) {
		fmt.Fprintf(os.Stderr, "==== case n=%d byz=%v offset=%d decisions=%v\n%s\n", n, byzs, cfg.offset, out.decisions, joinTrace(trace))
	}
	var nontrivial bool
	if cfg.oracle == "C02" {
		nontrivial = out.roundChanges > 0 || out.advAccepted > 0 || out.dropsDups > 0
	} else {
		nontrivial = len(out.decisions) > 0 && (out.viaDecided || out.lateRound || out.reproposed)
	}
	var decs []string
	for _, d := range out.decisions {
		decs = append(decs, fmt.Sprintf("%d:%d:%d", d.Proc, d.Round, d.Value))
	}
	sort.Strings(decs)
	fp := fmt.Sprintf("%d|%v|%v|%x", n, byzs, decs, out.ruleHash)
	vstat.Case(fp, nontrivial,
		cls("decided_any", len(out.decisions) > 0), cls("decided_all", allDecided(s, hon)),
		cls("round_change", out.roundChanges > 0), cls("adv_accepted", out.advAccepted > 0),
		cls("byzantine", len(byzs) > 0), cls("via_decided_msg", out.viaDecided), cls("decided_round>1", out.lateRound),
		cls("reproposed_prepared", out.reproposed), cls("drop_or_dup", out.dropsDups > 0), cls("profile_orderly", orderly), cls("profile_staged", staged), cls("two_values_prepared_by_honest", out.twoPrepared), cls("stale_reproposal_attempted", out.staleAttempt), cls("honest_msg_unjust(observation)", honestUnjust > 0), cls("compare_feature_on", compareOn), cls("compare_failed_at_some_member", compareFailed), cls("decided_in_a_case_with_compare_failure", compareFailed && len(out.decisions) > 0), fmt.Sprintf("n=%d", n))
	vstat.Count("adv_sent", int64(out.advSent))
	vstat.Count("adv_accepted_total", int64(out.advAccepted))
	kind := ""
	switch {
	case out.advAccepted > 0 && out.lateRound:
		kind = "byzantine+late_round"
	case out.viaDecided:
		kind = "via_decided"
	case out.reproposed:
		kind = "reproposed"
	}
	if kind != "" && vstat.WantSample(kind) {
		tr := trace
		if len(tr) > 60 {
			tr = append(append([]string{}, tr[:40]...), fmt.Sprintf("... %d more ...", len(tr)-40))
		}
		vstat.Sample(kind, map[string]any{"n": n, "byzantine": byzs, "leader_offset": cfg.offset, "decisions(proc:round:value)": decs, "events": tr})
	}
	return out
}

func joinTrace(tr []string) string {
	out := ""
	for i, l := range tr {
		out += fmt.Sprintf("  %3d %s\n", i, l)
	}
	return out
}

func cls(name string, on bool) string {
	if on {
		return name
	}
	return ""
}

func allDecided(s *qbftsim.Sim, hon []int64) bool {
	for _, h := range hon {
		if len(s.DecisionsOf(h)) == 0 {
			return false
		}
	}
	return true
}

// checkOracles evaluates the agreement (C02) or validity/integrity (C03) oracle over everything
// decided so far.
func checkOracles(rt *rapid.T, s *qbftsim.Sim, cfg caseCfg, hon []int64, trace *[]string) {
	s.Lock()
	msg := evalOracles(s, cfg)
	s.Unlock()
	if msg != "" {
		rt.Fatalf("%s\n n=%d byz=%v offset=%d\n%s", msg, cfg.n, cfg.byz, cfg.offset, joinTrace(*trace))
	}
}

func evalOracles(s *qbftsim.Sim, cfg caseCfg) (failure string) {
	if len(s.Decided) == 0 {
		return ""
	}
	fail := func(format string, args ...any) {
		if failure == "" {
			failure = fmt.Sprintf(format, args...)
		}
	}
	if cfg.oracle == "C02" {
		first := s.Decided[0]
		for _, d := range s.Decided[1:] {
			if d.Value != first.Value {
				fail("AGREEMENT: process %d decided %d (round %d) but process %d decided %d (round %d)", first.Proc, first.Value, first.Round, d.Proc, d.Value, d.Round)
			}
		}
		return failure
	}
	// C03
	q := s.Def.Quorum()
	count := map[int64]int{}
	proposed := map[int64]bool{}
	for _, m := range s.Sent {
		if m.Typ == cq.MsgPrePrepare && s.LeaderFn(s.Inst, m.Rnd, m.Src) {
			proposed[m.Val] = true
		}
	}
	for _, m := range s.Injected {
		if m.Typ == cq.MsgPrePrepare && s.LeaderFn(s.Inst, m.Rnd, m.Src) {
			proposed[m.Val] = true
		}
	}
	sentCommit := map[[3]int64]bool{}
	for _, m := range s.Sent {
		if m.Typ == cq.MsgCommit {
			sentCommit[[3]int64{m.Src, m.Rnd, m.Val}] = true
		}
	}
	inputs := map[int64]bool{}
	for _, p := range s.Procs {
		if p.HasInput {
			inputs[p.Input] = true
		}
	}
	for _, d := range s.Decided {
		count[d.Proc]++
		if count[d.Proc] > 1 {
			fail("INTEGRITY: process %d decided more than once", d.Proc)
		}
		if d.Value == 0 {
			fail("VALIDITY: process %d decided the empty value", d.Proc)
		}
		if !proposed[d.Value] {
			fail("VALIDITY: process %d decided %d which no designated leader ever proposed", d.Proc, d.Value)
		}
		if len(cfg.byz) == 0 && !inputs[d.Value] {
			fail("VALIDITY: process %d decided %d which is nobody's input", d.Proc, d.Value)
		}
		src := map[int64]bool{}
		for _, c := range d.QCommit {
			if c.Typ == cq.MsgCommit && c.Rnd == d.Round && c.Val == d.Value {
				if !cfg.byz[c.Src] && !sentCommit[[3]int64{c.Src, c.Rnd, c.Val}] {
					fail("INTEGRITY: qcommit of process %d contains a COMMIT of honest %d that it never sent", d.Proc, c.Src)
				}
				src[c.Src] = true
			}
		}
		if len(src) < q {
			fail("INTEGRITY: decision of process %d (value %d round %d) backed by only %d distinct matching COMMITs, quorum %d", d.Proc, d.Value, d.Round, len(src), q)
		}
	}
	return failure
}
