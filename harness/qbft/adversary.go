package qbft

import (
	"sort"

	"pgregory.net/rapid"

	cq "github.com/obolnetwork/charon/core/qbft"

	"verifharness/qbftsim"
)

// adversary builds messages for the Byzantine members from templates that are filled from the
// pool of honest messages observed so far. It can only ever put its own identities in Src of
// messages it creates; nested justifications may contain any observed honest message (stripped)
// or its own creations — exactly the power a transport with authenticated sources leaves it.
type adversary struct {
	s    *qbftsim.Sim
	byz  []int64
	hon  []int64
	vals []int64 // byzantine-invented values
	// compareOn: the honest members run the opt-in comparison of proposals with their local data
	compareOn bool
}

type rv struct{ r, v int64 }

type pools struct {
	prepares map[rv]map[int64]*qbftsim.M
	commits  map[rv]map[int64]*qbftsim.M
	rcs      map[int64]map[int64]*qbftsim.M
	rounds   map[int64]bool
	values   map[int64]bool
	maxRound int64
}

func (a *adversary) observe() pools {
	p := pools{prepares: map[rv]map[int64]*qbftsim.M{}, commits: map[rv]map[int64]*qbftsim.M{}, rcs: map[int64]map[int64]*qbftsim.M{}, rounds: map[int64]bool{1: true}, values: map[int64]bool{}, maxRound: 1}
	add := func(m *qbftsim.M) {
		m = m.Strip()
		p.rounds[m.Rnd] = true
		if m.Rnd > p.maxRound {
			p.maxRound = m.Rnd
		}
		if m.Val != 0 {
			p.values[m.Val] = true
		}
		switch m.Typ {
		case cq.MsgPrepare:
			k := rv{m.Rnd, m.Val}
			if p.prepares[k] == nil {
				p.prepares[k] = map[int64]*qbftsim.M{}
			}
			p.prepares[k][m.Src] = m
		case cq.MsgCommit:
			k := rv{m.Rnd, m.Val}
			if p.commits[k] == nil {
				p.commits[k] = map[int64]*qbftsim.M{}
			}
			p.commits[k][m.Src] = m
		case cq.MsgRoundChange:
			if p.rcs[m.Rnd] == nil {
				p.rcs[m.Rnd] = map[int64]*qbftsim.M{}
			}
			p.rcs[m.Rnd][m.Src] = m
		}
	}
	a.s.Lock()
	defer a.s.Unlock()
	for _, m := range a.s.Sent {
		add(m)
		for _, j := range m.Just {
			add(j)
		}
	}
	return p
}

func sortedKeys[K comparable, V any](m map[K]V, less func(a, b K) bool) []K {
	out := make([]K, 0, len(m))
	for k := range m {
		out = append(out, k)
	}
	sort.Slice(out, func(i, j int) bool { return less(out[i], out[j]) })
	return out
}

func vals(m map[int64]*qbftsim.M) []*qbftsim.M {
	ks := sortedKeys(m, func(a, b int64) bool { return a < b })
	out := make([]*qbftsim.M, 0, len(ks))
	for _, k := range ks {
		out = append(out, m[k])
	}
	return out
}

func (a *adversary) mk(typ cq.MsgType, src, r, v, pr, pv int64, just []*qbftsim.M, label string) *qbftsim.M {
	return &qbftsim.M{Typ: typ, Inst: a.s.Inst, Src: src, Rnd: r, Val: v, PR: pr, PV: pv, Just: just, Byz: true, Label: label}
}

func (a *adversary) pickByz(t *rapid.T) int64 {
	return a.byz[rapid.IntRange(0, len(a.byz)-1).Draw(t, "byz")]
}

func (a *adversary) pickRound(t *rapid.T, p pools, lo int64) int64 {
	hi := p.maxRound + 1
	if hi < lo {
		hi = lo
	}
	return int64(rapid.IntRange(int(lo), int(hi)).Draw(t, "round"))
}

func (a *adversary) pickValue(t *rapid.T, p pools) int64 {
	cands := sortedKeys(p.values, func(x, y int64) bool { return x < y })
	cands = append(cands, a.vals...)
	for _, h := range a.hon { // inputs of honest processes even if not yet proposed
		cands = append(cands, 101+h)
	}
	cands = append(cands, 0) // the empty value must never be accepted anywhere
	return cands[rapid.IntRange(0, len(cands)-1).Draw(t, "value")]
}

func (a *adversary) subset(t *rapid.T, label string) []int64 {
	mask := rapid.IntRange(1, (1<<len(a.hon))-1).Draw(t, label)
	var out []int64
	for i, h := range a.hon {
		if mask&(1<<i) != 0 {
			out = append(out, h)
		}
	}
	return out
}

// split sends value v1 to one drawn part of the honest members and v2 to the rest (or nothing).
func (a *adversary) split(t *rapid.T, build func(v int64) *qbftsim.M, v1, v2 int64) {
	for _, h := range a.hon {
		switch rapid.IntRange(0, 3).Draw(t, "which") {
		case 0:
			a.s.Inject(build(v1), []int64{h})
		case 1:
			a.s.Inject(build(v2), []int64{h})
		case 2: // both, in either order
			a.s.Inject(build(v1), []int64{h})
			a.s.Inject(build(v2), []int64{h})
		}
	}
}

// byzPrepares returns PREPAREs for (r,v) from every Byzantine member.
func (a *adversary) byzMsgs(typ cq.MsgType, r, v int64) []*qbftsim.M {
	var out []*qbftsim.M
	for _, b := range a.byz {
		out = append(out, a.mk(typ, b, r, v, 0, 0, nil, "nested"))
	}
	return out
}

// preparedPair draws a (pr,pv) claim: preferably one for which honest PREPAREs were observed.
func (a *adversary) preparedPair(t *rapid.T, p pools, below int64) (rv, bool) {
	var cands []rv
	for _, k := range sortedKeys(p.prepares, func(x, y rv) bool { return x.r < y.r || (x.r == y.r && x.v < y.v) }) {
		if k.r < below {
			cands = append(cands, k)
		}
	}
	if len(cands) == 0 || rapid.IntRange(0, 5).Draw(t, "forgePair") == 0 {
		if below <= 1 {
			return rv{}, false
		}
		return rv{int64(rapid.IntRange(1, int(below-1)).Draw(t, "fpr")), a.pickValue(t, p)}, true
	}
	return cands[rapid.IntRange(0, len(cands)-1).Draw(t, "pair")], true
}

func (a *adversary) prepareQuorum(p pools, k rv) []*qbftsim.M {
	out := vals(p.prepares[k])
	var hon []*qbftsim.M
	for _, m := range out {
		if a.s.Honest(m.Src) {
			hon = append(hon, m)
		}
	}
	return append(hon, a.byzMsgs(cq.MsgPrepare, k.r, k.v)...)
}

// act performs one adversary action. It returns the template label.
func (a *adversary) act(t *rapid.T) string {
	p := a.observe()
	tmpl := rapid.IntRange(0, 10).Draw(t, "template")
	if a.compareOn && rapid.IntRange(0, 3).Draw(t, "afterCompareFailure") == 0 {
		tmpl = 11
	}
	switch tmpl {
	case 11: // a member whose comparison rejected round k's proposal takes round k+1's proposal without justification
		var ks []int64
		a.s.Lock()
		for _, h := range a.hon {
			if k := a.s.Procs[h].CompareFailRound; k > 0 {
				ks = append(ks, k)
			}
		}
		a.s.Unlock()
		if len(ks) == 0 {
			return a.vote(t, p)
		}
		r := ks[rapid.IntRange(0, len(ks)-1).Draw(t, "failedRound")] + 1
		b := a.pickByz(t) // leader of that round or not
		v := a.pickValue(t, p)
		var just []*qbftsim.M
		if rapid.Bool().Draw(t, "withJustification") {
			just, _ = a.qrcJustification(t, p, r)
		}
		a.s.Inject(a.mk(cq.MsgPrePrepare, b, r, v, 0, 0, just, "ppAfterCompareFailure"), a.hon)
		for _, typ := range []cq.MsgType{cq.MsgPrepare, cq.MsgCommit} {
			if rapid.IntRange(0, 3).Draw(t, "followUp") != 0 {
				for _, m := range a.byzMsgs(typ, r, v) {
					a.s.Inject(m, a.hon)
				}
			}
		}
		return "preprepare_after_compare_failure"
	case 0: // (equivocating) PRE-PREPARE for round 1
		for _, b := range a.byz {
			if a.s.LeaderFn(a.s.Inst, 1, b) {
				v1, v2 := a.pickValue(t, p), a.pickValue(t, p)
				a.split(t, func(v int64) *qbftsim.M { return a.mk(cq.MsgPrePrepare, b, 1, v, 0, 0, nil, "pp1") }, v1, v2)
				return "preprepare_r1"
			}
		}
		fallthrough
	case 1: // justified PRE-PREPARE for a later round led by a Byzantine member
		var rounds []int64
		for r := int64(2); r <= p.maxRound+1; r++ {
			for _, b := range a.byz {
				if a.s.LeaderFn(a.s.Inst, r, b) {
					rounds = append(rounds, r)
				}
			}
		}
		if len(rounds) == 0 {
			return a.vote(t, p)
		}
		r := rounds[rapid.IntRange(0, len(rounds)-1).Draw(t, "ppRound")]
		var b int64
		for _, x := range a.byz {
			if a.s.LeaderFn(a.s.Inst, r, x) {
				b = x
			}
		}
		just, pv := a.qrcJustification(t, p, r)
		v1 := pv
		if pv == 0 || rapid.IntRange(0, 4).Draw(t, "otherValue") == 0 {
			v1 = a.pickValue(t, p)
		}
		v2 := a.pickValue(t, p)
		a.split(t, func(v int64) *qbftsim.M { return a.mk(cq.MsgPrePrepare, b, r, v, 0, 0, just, "ppJ") }, v1, v2)
		return "preprepare_justified"
	case 2, 3, 4:
		return a.vote(t, p)
	case 5, 6: // ROUND-CHANGE with (possibly forged) prepared claim
		b := a.pickByz(t)
		r := a.pickRound(t, p, 2)
		var m *qbftsim.M
		switch rapid.IntRange(0, 3).Draw(t, "rcKind") {
		case 0:
			m = a.mk(cq.MsgRoundChange, b, r, 0, 0, 0, nil, "rcNull")
		case 1, 2:
			k, ok := a.preparedPair(t, p, r)
			if !ok {
				m = a.mk(cq.MsgRoundChange, b, r, 0, 0, 0, nil, "rcNull")
			} else {
				m = a.mk(cq.MsgRoundChange, b, r, 0, k.r, k.v, a.prepareQuorum(p, k), "rcPrepared")
			}
		default: // claim without sufficient support
			k, ok := a.preparedPair(t, p, r)
			if !ok {
				k = rv{1, a.pickValue(t, p)}
			}
			m = a.mk(cq.MsgRoundChange, b, r, 0, k.r, k.v, a.byzMsgs(cq.MsgPrepare, k.r, k.v), "rcForged")
		}
		a.s.Inject(m, a.subset(t, "rcDst"))
		return "round_change"
	case 7, 8: // DECIDED assembled from observed + own commits
		b := a.pickByz(t)
		keys := sortedKeys(p.commits, func(x, y rv) bool { return x.r < y.r || (x.r == y.r && x.v < y.v) })
		var k rv
		if len(keys) == 0 || rapid.IntRange(0, 5).Draw(t, "inventDecided") == 0 {
			k = rv{a.pickRound(t, p, 1), a.pickValue(t, p)}
		} else {
			k = keys[rapid.IntRange(0, len(keys)-1).Draw(t, "commitKey")]
		}
		var commits []*qbftsim.M
		for _, m := range vals(p.commits[k]) {
			if a.s.Honest(m.Src) {
				commits = append(commits, m)
			}
		}
		commits = append(commits, a.byzMsgs(cq.MsgCommit, k.r, k.v)...)
		label := "decidedFull"
		switch rapid.IntRange(0, 5).Draw(t, "decidedKind") {
		case 0: // short by truncation to quorum-1
			q := a.s.Def.Quorum()
			if len(commits) >= q {
				commits = commits[:q-1]
			}
			label = "decidedShort"
		case 1: // pad with commits for another value / round and repeats
			other := a.pickValue(t, p)
			for _, x := range a.byz {
				commits = append(commits, a.mk(cq.MsgCommit, x, k.r, other, 0, 0, nil, "nested"), a.mk(cq.MsgCommit, x, k.r+1, k.v, 0, 0, nil, "nested"))
			}
			for _, ok := range keys {
				if ok != k {
					commits = append(commits, vals(p.commits[ok])...)
					break
				}
			}
			if len(commits) > 0 {
				commits = append(commits, commits[0], commits[0])
			}
			label = "decidedPadded"
		case 2: // claims a different value than its commits
			m := a.mk(cq.MsgDecided, b, k.r, a.pickValue(t, p), 0, 0, commits, "decidedWrongValue")
			a.s.Inject(m, a.subset(t, "decDst"))
			return "decided"
		}
		a.s.Inject(a.mk(cq.MsgDecided, b, k.r, k.v, 0, 0, commits, label), a.subset(t, "decDst"))
		return "decided"
	case 9: // PRE-PREPARE from a member that is not the leader of the round
		b := a.pickByz(t)
		r := a.pickRound(t, p, 1)
		var just []*qbftsim.M
		if r > 1 {
			just, _ = a.qrcJustification(t, p, r)
		}
		v1, v2 := a.pickValue(t, p), a.pickValue(t, p)
		a.split(t, func(v int64) *qbftsim.M { return a.mk(cq.MsgPrePrepare, b, r, v, 0, 0, just, "ppAnySource") }, v1, v2)
		return "preprepare_any_source"
	default: // raw fields + random observed messages as justification
		b := a.pickByz(t)
		typ := cq.MsgType(rapid.IntRange(1, 5).Draw(t, "rawType"))
		r := a.pickRound(t, p, 1)
		v := a.pickValue(t, p)
		if rapid.IntRange(0, 9).Draw(t, "zero") == 0 {
			v = 0
		}
		var just []*qbftsim.M
		a.s.Lock()
		sent := a.s.Sent
		a.s.Unlock()
		nj := rapid.IntRange(0, 6).Draw(t, "rawJust")
		for i := 0; i < nj && len(sent) > 0; i++ {
			just = append(just, sent[rapid.IntRange(0, len(sent)-1).Draw(t, "rawPick")].Strip())
		}
		pr, pv := int64(0), int64(0)
		if typ == cq.MsgRoundChange && rapid.Bool().Draw(t, "rawPrepared") {
			pr, pv = a.pickRound(t, p, 1), a.pickValue(t, p)
		}
		a.s.Inject(a.mk(typ, b, r, v, pr, pv, just, "raw"), a.subset(t, "rawDst"))
		return "raw"
	}
}

// vote sends PREPARE or COMMIT for one or two values to drawn parts of the honest members.
func (a *adversary) vote(t *rapid.T, p pools) string {
	typ := cq.MsgPrepare
	label := "prepare"
	if rapid.Bool().Draw(t, "commit") {
		typ = cq.MsgCommit
		label = "commit"
	}
	r := a.pickRound(t, p, 1)
	v1, v2 := a.pickValue(t, p), a.pickValue(t, p)
	all := rapid.Bool().Draw(t, "allByz")
	for _, b := range a.byz {
		if !all && b != a.byz[0] {
			continue
		}
		a.split(t, func(v int64) *qbftsim.M { return a.mk(typ, b, r, v, 0, 0, nil, label) }, v1, v2)
	}
	return label
}

// qrcJustification assembles what a PRE-PREPARE for round r needs: ROUND-CHANGEs for r from honest
// members (observed) and from every Byzantine member, plus PREPAREs if a prepared value is claimed.
func (a *adversary) qrcJustification(t *rapid.T, p pools, r int64) ([]*qbftsim.M, int64) {
	var just []*qbftsim.M
	honestRC := vals(p.rcs[r])
	mode := rapid.IntRange(0, 2).Draw(t, "qrcMode")
	k, havePair := a.preparedPair(t, p, r)
	if mode == 0 || !havePair { // J1: all null
		for _, m := range honestRC {
			if a.s.Honest(m.Src) && (m.PR == 0 || rapid.IntRange(0, 3).Draw(t, "keepNonNull") == 0) {
				just = append(just, m)
			}
		}
		for _, b := range a.byz {
			just = append(just, a.mk(cq.MsgRoundChange, b, r, 0, 0, 0, nil, "nested"))
		}
		return just, 0
	}
	// J2: highest prepared claim k
	for _, m := range honestRC {
		if !a.s.Honest(m.Src) {
			continue
		}
		if m.PR <= k.r || rapid.IntRange(0, 3).Draw(t, "keepHigher") == 0 {
			just = append(just, m)
		}
	}
	for _, b := range a.byz {
		just = append(just, a.mk(cq.MsgRoundChange, b, r, 0, k.r, k.v, nil, "nested"))
	}
	if mode == 1 {
		just = append(just, a.prepareQuorum(p, k)...)
	} else { // only Byzantine prepares (insufficient unless f+... ) plus whatever honest ones exist for another value
		just = append(just, a.byzMsgs(cq.MsgPrepare, k.r, k.v)...)
	}
	return just, k.v
}
