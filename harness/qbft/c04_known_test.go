package qbft

import (
	"os"
	"testing"
	"time"

	"pgregory.net/rapid"

	"github.com/obolnetwork/charon/core"

	"verifharness/vstat"
)

func ms(xs ...int) []time.Duration {
	var o []time.Duration
	for _, x := range xs {
		o = append(o, time.Duration(x)*time.Millisecond)
	}
	return o
}

// knownC04 is the recorded instance of the open finding eager_timer_split_doubling (replay tier).
func knownC04(seed uint64) c04Case {
	return c04Case{n: 5, duty: core.Duty{Slot: 9, Type: core.DutyProposer}, timerSel: "default",
		faults: map[int64]faultPlan{1: {kind: fCrashInBroadcast, bcast: 1, reached: 0b10101}},
		starts: ms(16, 621, 1, 7, 741), latMax: 333 * time.Millisecond, fixedLat: 0, latSeed: seed}
}

// TestC04KnownFinding replays the recorded failing input of the open finding so that every run
// reports it (KNOWN-FINDING) while it exists, and stops reporting it once the behaviour is gone.
func TestC04KnownFinding(t *testing.T) {
	vstat.Rule("C04", ruleC04)
	seeds := []uint64{3, 15, 17, 18, 22, 28}
	if os.Getenv("VERIF_C04_SCAN") != "" {
		seeds = nil
		for i := uint64(0); i < 60; i++ {
			seeds = append(seeds, i)
		}
	}
	for _, seed := range seeds {
		rapid.Check(t, func(rt *rapid.T) {
			rapid.SyncTest(rt, func(rt *rapid.T) {
				res := runC04(rt, knownC04(seed))
				if os.Getenv("VERIF_C04_SCAN") != "" {
					println("SCAN", seed, res.maxRound)
				}
			})
		})
	}
}
