package qbft

import (
	"fmt"
	"os"
	"sort"

	"pgregory.net/rapid"

	cq "github.com/obolnetwork/charon/core/qbft"

	"verifharness/qbftsim"
)

// The staged profile is a goal-directed generator for deep protocol states that neither the
// chaotic nor the orderly profile reaches in a useful fraction of cases: it walks the protocol
// round by round and draws, per round, an *intent* for each phase (who gets to see a prepare
// quorum, who gets to see a commit quorum, whose ROUND-CHANGEs reach the next leader first), with
// the Byzantine members helping quorums form where the intent needs it and exploiting what they
// have observed when one of them leads a round (re-proposal of a stale prepared value with the
// justification ordered to their advantage, equivocation between the two prepared values, ...).
// Everything is still drawn from rapid, so cases shrink and replay; only the distribution differs.
type stageEnv struct {
	s        *qbftsim.Sim
	cfg      caseCfg
	hon      []int64
	byzs     []int64
	adv      *adversary
	deliverP func(i int)
	logf     func(string, ...any)
	check    func()
	out      *outcome

	laggards  map[int64]bool // undecided honest members whose timer did not fire in the previous round
	jumpRound int64          // scenario B: the Byzantine-led round in which the leader equivocates towards the laggards
}

func (e *stageEnv) pendingIdx(match func(d qbftsim.Delivery) bool) []int {
	e.s.Lock()
	defer e.s.Unlock()
	var idx []int
	for i, d := range e.s.Pending {
		if match(d) {
			idx = append(idx, i)
		}
	}
	return idx
}

// deliverAll delivers, oldest first, every pending message matching the predicate (including the
// ones that appear while doing so).
func (e *stageEnv) deliverAll(match func(d qbftsim.Delivery) bool, limit int) int {
	n := 0
	for n < limit {
		idx := e.pendingIdx(match)
		if len(idx) == 0 {
			break
		}
		e.deliverP(idx[0])
		n++
	}
	return n
}

func (e *stageEnv) subset(rt *rapid.T, label string, from []int64) map[int64]bool {
	out := map[int64]bool{}
	if len(from) == 0 {
		return out
	}
	mask := rapid.IntRange(0, (1<<len(from))-1).Draw(rt, label)
	for i, h := range from {
		if mask&(1<<i) != 0 {
			out[h] = true
		}
	}
	return out
}

func (e *stageEnv) undecided() []int64 {
	var out []int64
	for _, h := range e.hon {
		if len(e.s.DecisionsOf(h)) == 0 {
			out = append(out, h)
		}
	}
	return out
}

func setOf(xs []int64) map[int64]bool {
	m := map[int64]bool{}
	for _, x := range xs {
		m[x] = true
	}
	return m
}

func keysOf(m map[int64]bool) []int64 {
	var out []int64
	for k := range m {
		out = append(out, k)
	}
	sort.Slice(out, func(i, j int) bool { return out[i] < out[j] })
	return out
}

func (e *stageEnv) leaderOf(r int64) int64 {
	for i := int64(0); i < int64(e.cfg.n); i++ {
		if e.s.LeaderFn(e.s.Inst, r, i) {
			return i
		}
	}
	return -1
}

// proposedIn returns the values carried by PRE-PREPAREs of round r sent by its leader so far.
func (e *stageEnv) proposedIn(r int64) []int64 {
	e.s.Lock()
	defer e.s.Unlock()
	seen := map[int64]bool{}
	for _, list := range [][]*qbftsim.M{e.s.Sent, e.s.Injected} {
		for _, m := range list {
			if m.Typ == cq.MsgPrePrepare && m.Rnd == r && e.s.LeaderFn(e.s.Inst, r, m.Src) && m.Val != 0 {
				seen[m.Val] = true
			}
		}
	}
	return keysOf(seen)
}

func runStaged(rt *rapid.T, e *stageEnv) {
	s := e.s
	q := s.Def.Quorum()
	rounds := rapid.IntRange(2, 5).Draw(rt, "stagedRounds")
	prepared := map[int64]bool{} // honest members the harness has let see a prepare quorum so far
	sawPrepareLast := map[int64]bool{}
	// Scenario: with probability 1/2 the intents of the rounds before the first Byzantine-led round
	// R >= 3 are biased towards "round R-2 prepares a value at a few members only, round R-1 prepares
	// another value at other members" (two prepared values alive when a Byzantine member leads); each
	// forced intent is still overridden by a free draw one time in five.
	//
	// Scenario B (one case in four): the round before the first Byzantine-led round R >= 2 ends with
	// some members not timing out, so that they jump to round R on the Byzantine leader's justified
	// PRE-PREPARE; the leader equivocates, giving the jumping members both values.
	// Scenario C (half of the cases without Byzantine members): a walk along the lock rule. Rounds 1 and 2 each let
	// a single (fresh) member see a prepare quorum and nobody decide, round 3 lets everybody prepare and exactly one
	// member decide, and after every round each member hears the ROUND-CHANGEs for the next round *except those
	// that report the highest prepared round* (the scheduler plays against the "highest prepared" rule: what a
	// member under-reports then decides the next proposal).
	target, targetB, targetC := int64(0), int64(0), int64(0)
	scenario := 0
	if len(e.byzs) > 0 {
		scenario = rapid.IntRange(0, 3).Draw(rt, "scenario")
	} else if rapid.Bool().Draw(rt, "lockWalk") {
		scenario = 4
	}
	forceAll := os.Getenv("VERIF_FORCE_SCENARIO") != ""
	if forceAll {
		fmt.Sscan(os.Getenv("VERIF_FORCE_SCENARIO"), &scenario)
	}
	switch {
	case scenario == 1 || scenario == 2:
		for r := int64(3); r <= 6; r++ {
			if e.cfg.byz[e.leaderOf(r)] && !e.cfg.byz[e.leaderOf(r-1)] && !e.cfg.byz[e.leaderOf(r-2)] {
				target = r
				break
			}
		}
		if target > int64(rounds) {
			rounds = int(target)
		}
	case scenario == 3:
		for r := int64(2); r <= 5; r++ {
			if e.cfg.byz[e.leaderOf(r)] {
				targetB = r
				break
			}
		}
		if targetB+1 > int64(rounds) {
			rounds = int(targetB + 1)
		}
	}
	if scenario == 4 {
		targetC = 3
		if rounds < 4 {
			rounds = 4
		}
	}
	e.jumpRound = targetB
	intent := func(name string, r int64, hi int, forced map[int64]int) int {
		if targetC > 0 {
			if v, ok := forced[200+r-targetC]; ok && (forceAll || rapid.IntRange(0, 5).Draw(rt, name+"Free") != 0) {
				return v
			}
		}
		if target > 0 {
			if v, ok := forced[r-target]; ok && (forceAll || rapid.IntRange(0, 4).Draw(rt, name+"Free") != 0) {
				return v
			}
		}
		if targetB > 0 {
			if v, ok := forced[100+r-targetB]; ok && (forceAll || rapid.IntRange(0, 4).Draw(rt, name+"Free") != 0) {
				return v
			}
		}
		return rapid.IntRange(0, hi).Draw(rt, name)
	}
	for r := int64(1); r <= int64(rounds) && len(e.undecided()) > 0; r++ {
		ld := e.leaderOf(r)
		e.logf("staged: round %d leader %d", r, ld)
		// --- proposal
		if e.cfg.byz[ld] {
			label := e.adv.leaderPropose(rt, e, r, ld)
			e.out.advSent++
			e.logf("staged: byzantine leader %s", label)
		}
		isRound := func(typ cq.MsgType, rr int64) func(d qbftsim.Delivery) bool {
			return func(d qbftsim.Delivery) bool { return d.Msg.Typ == typ && d.Msg.Rnd == rr }
		}
		ppMode := intent("ppIntent", r, 5, map[int64]int{-4: 1, -3: 1, -2: 1, -1: 1, 0: 1, 99: 1, 100: 1, 101: 1, 198: 1, 199: 1, 200: 1, 201: 1})
		ppDst := setOf(e.hon)
		if ppMode == 0 {
			ppDst = e.subset(rt, "ppDst", e.hon)
		}
		e.deliverAll(func(d qbftsim.Delivery) bool { return isRound(cq.MsgPrePrepare, r)(d) && ppDst[d.Dst] }, 200)

		// --- byzantine members help the proposals of this round along (towards drawn members)
		vals := e.proposedIn(r)
		if len(e.byzs) > 0 && len(vals) > 0 && intent("support", r, 5, map[int64]int{-2: 1, -1: 1, 0: 1, 100: 1, 101: 1}) != 0 {
			for _, v := range vals {
				pd, cd := setOf(e.hon), setOf(e.hon)
				if rapid.IntRange(0, 3).Draw(rt, "supportPart") == 0 {
					pd, cd = e.subset(rt, "supPrepDst", e.hon), e.subset(rt, "supCommitDst", e.hon)
				}
				for _, b := range e.byzs {
					s.Inject(e.adv.mk(cq.MsgPrepare, b, r, v, 0, 0, nil, "support_prepare"), keysOf(pd))
					s.Inject(e.adv.mk(cq.MsgCommit, b, r, v, 0, 0, nil, "support_commit"), keysOf(cd))
				}
			}
			e.out.advSent++
		}

		// --- who sees a prepare quorum
		var seePrepare map[int64]bool
		switch intent("prepareIntent", r, 6, map[int64]int{-4: 4, -3: 4, -2: 1, -1: 3, 0: 0, 98: 4, 99: 4, 100: 0, 101: 0, 198: 1, 199: 1, 200: 6, 201: 0}) {
		case 0: // everybody
			seePrepare = setOf(e.hon)
		case 1, 2: // a small set (at most n - quorum members), preferably members not prepared before
			max := e.cfg.n - q
			if max < 1 {
				max = 1
			}
			var fresh, old []int64
			for _, h := range e.undecided() {
				if prepared[h] {
					old = append(old, h)
				} else {
					fresh = append(fresh, h)
				}
			}
			cands := fresh
			if len(cands) == 0 || rapid.IntRange(0, 3).Draw(rt, "reusePrepared") == 0 {
				cands = append(cands, old...)
			}
			seePrepare = map[int64]bool{}
			k := rapid.IntRange(1, max).Draw(rt, "isolateK")
			for i := 0; i < k && len(cands) > 0; i++ {
				j := rapid.IntRange(0, len(cands)-1).Draw(rt, "isolate")
				seePrepare[cands[j]] = true
				cands = append(cands[:j], cands[j+1:]...)
			}
		case 3: // only members that were not prepared before
			seePrepare = map[int64]bool{}
			for _, h := range e.hon {
				if !prepared[h] {
					seePrepare[h] = true
				}
			}
		case 4: // nobody
			seePrepare = map[int64]bool{}
		case 6: // everybody but the members that saw the previous round's prepare quorum (they keep their older lock)
			seePrepare = map[int64]bool{}
			for _, h := range e.hon {
				if !sawPrepareLast[h] {
					seePrepare[h] = true
				}
			}
		default:
			seePrepare = e.subset(rt, "prepDst", e.hon)
		}
		sawPrepareLast = seePrepare
		for _, h := range e.hon {
			if seePrepare[h] {
				e.deliverAll(func(d qbftsim.Delivery) bool { return isRound(cq.MsgPrepare, r)(d) && d.Dst == h }, 200)
				prepared[h] = true
			} else if k := rapid.IntRange(0, q-1).Draw(rt, "fewPrepares"); k > 0 {
				// fewer than a quorum (sources are distinct per pending message)
				e.deliverAll(func(d qbftsim.Delivery) bool { return isRound(cq.MsgPrepare, r)(d) && d.Dst == h }, k-1)
			}
		}
		// --- who sees a commit quorum
		var seeCommit map[int64]bool
		switch intent("commitIntent", r, 5, map[int64]int{-4: 3, -3: 3, -2: 3, -1: rapid.SampledFrom([]int{0, 1, 3}).Draw(rt, "scenarioCommit"), 0: 0, 98: 3, 99: 3, 100: rapid.SampledFrom([]int{1, 1, 3}).Draw(rt, "scenarioCommitB"), 101: 0, 198: 3, 199: 3, 200: 1, 201: 0}) {
		case 0:
			seeCommit = setOf(e.hon)
		case 1, 2: // exactly one member
			und := e.undecided()
			seeCommit = map[int64]bool{}
			if len(und) > 0 {
				seeCommit[und[rapid.IntRange(0, len(und)-1).Draw(rt, "decider")]] = true
			}
		case 3, 4:
			seeCommit = map[int64]bool{}
		default:
			seeCommit = e.subset(rt, "commitDst", e.hon)
		}
		for _, h := range e.hon {
			if seeCommit[h] {
				e.deliverAll(func(d qbftsim.Delivery) bool { return isRound(cq.MsgCommit, r)(d) && d.Dst == h }, 200)
			}
		}
		if intent("loseRest", r, 3, map[int64]int{-2: 1, -1: 1, 100: 1}) == 0 {
			// what was held back in this round is lost for good (otherwise it arrives late, in the
			// chaotic and completion phases)
			for {
				idx := e.pendingIdx(func(d qbftsim.Delivery) bool {
					return d.Msg.Rnd == r && (d.Msg.Typ == cq.MsgPrepare || d.Msg.Typ == cq.MsgCommit)
				})
				if len(idx) == 0 {
					break
				}
				s.DropIdx(idx[0])
			}
			e.out.dropsDups++
			e.logf("staged: rest of round %d lost", r)
		}
		if len(e.undecided()) == 0 {
			break
		}
		// --- timeouts
		toMode := intent("timeoutIntent", r, 5, map[int64]int{-4: 1, -3: 1, -2: 1, -1: 1, 98: 1, 99: 4, 100: 1, 198: 1, 199: 1, 200: 1})
		e.laggards = map[int64]bool{}
		if und := e.undecided(); toMode == 4 && len(und) > 1 {
			// all but k members time out (k at most n - quorum, so the others plus the Byzantine
			// members can still form a ROUND-CHANGE quorum)
			max := e.cfg.n - q
			if max < 1 {
				max = 1
			}
			k := rapid.IntRange(1, max).Draw(rt, "laggards")
			for i := 0; i < k && i < len(und)-1; i++ {
				e.laggards[und[rapid.IntRange(0, len(und)-1).Draw(rt, "laggard")]] = true
			}
		}
		for _, h := range e.undecided() {
			if toMode == 0 && rapid.Bool().Draw(rt, "skipTimeout") {
				e.laggards[h] = true
				continue
			}
			if e.laggards[h] {
				continue
			}
			s.FireTimer(h)
			e.logf("staged: timer %d", h)
		}
		// byzantine ROUND-CHANGEs for the next round (null, so that an honest leader can propose)
		if len(e.byzs) > 0 && intent("byzRC", r, 4, map[int64]int{-3: 1, -2: 1, 98: 1, 99: 1, 100: 1}) != 0 {
			for _, b := range e.byzs {
				s.Inject(e.adv.mk(cq.MsgRoundChange, b, r+1, 0, 0, 0, nil, "support_rc_null"), e.hon)
			}
		}
		// --- whose ROUND-CHANGEs arrive (per destination)
		rcMode := intent("rcIntent", r, 7, map[int64]int{-4: 3, -3: 3, -2: 0, -1: 3, 98: 3, 99: 6, 100: 3, 198: 7, 199: 7, 200: 7})
		for _, h := range e.hon {
			if rcMode == 6 && e.laggards[h] {
				continue // members that did not time out do not hear of the round change yet (f+1 rule would pull them along)
			}
			var from map[int64]bool
			switch {
			case rcMode <= 2: // the prepared members' ROUND-CHANGEs are late
				from = map[int64]bool{}
				for i := int64(0); i < int64(e.cfg.n); i++ {
					if !prepared[i] {
						from[i] = true
					}
				}
			case rcMode == 7: // everything but the ROUND-CHANGEs that report the highest prepared round
				var maxPR int64
				for _, i := range e.pendingIdx(func(d qbftsim.Delivery) bool { return isRound(cq.MsgRoundChange, r+1)(d) && d.Dst == h }) {
					e.s.Lock()
					if pr := e.s.Pending[i].Msg.PR; pr > maxPR {
						maxPR = pr
					}
					e.s.Unlock()
				}
				from = map[int64]bool{}
				for _, i := range e.pendingIdx(func(d qbftsim.Delivery) bool { return isRound(cq.MsgRoundChange, r+1)(d) && d.Dst == h }) {
					e.s.Lock()
					m := e.s.Pending[i].Msg
					e.s.Unlock()
					if maxPR == 0 || m.PR < maxPR {
						from[m.Src] = true
					}
				}
			case rcMode == 3:
				from = nil // all
			default:
				all := make([]int64, e.cfg.n)
				for i := range all {
					all[i] = int64(i)
				}
				from = e.subset(rt, "rcFrom", all)
			}
			e.deliverAll(func(d qbftsim.Delivery) bool {
				return isRound(cq.MsgRoundChange, r+1)(d) && d.Dst == h && (from == nil || from[d.Msg.Src])
			}, 200)
		}
		e.check()
	}
}

// leaderPropose is what a Byzantine member does when it leads round r in the staged profile.
func (a *adversary) leaderPropose(rt *rapid.T, e *stageEnv, r, b int64) string {
	p := a.observe()
	if r == 1 {
		v1, v2 := a.pickValue(rt, p), a.pickValue(rt, p)
		if rapid.IntRange(0, 2).Draw(rt, "lpEquivocate") != 0 {
			v2 = v1
		}
		a.split(rt, func(v int64) *qbftsim.M { return a.mk(cq.MsgPrePrepare, b, 1, v, 0, 0, nil, "pp1") }, v1, v2)
		return "preprepare_r1"
	}
	// prepared claims visible in honest ROUND-CHANGEs for this round
	type claim struct{ pr, pv int64 }
	var claims []claim
	seen := map[claim]bool{}
	var honestRC []*qbftsim.M
	for _, m := range vals(p.rcs[r]) {
		if !a.s.Honest(m.Src) {
			continue
		}
		honestRC = append(honestRC, m)
		if m.PR > 0 && !seen[claim{m.PR, m.PV}] {
			seen[claim{m.PR, m.PV}] = true
			claims = append(claims, claim{m.PR, m.PV})
		}
	}
	sort.Slice(claims, func(i, j int) bool { return claims[i].pr < claims[j].pr })
	mode := rapid.IntRange(0, 8).Draw(rt, "lpMode")
	if e.jumpRound == r && rapid.IntRange(0, 4).Draw(rt, "lpFree") != 0 {
		mode = 6
	}
	// honest PREPAREs observed for earlier rounds (any value)
	var honestPrepared []rv
	for _, k := range sortedKeys(p.prepares, func(x, y rv) bool { return x.r < y.r || (x.r == y.r && x.v < y.v) }) {
		if k.r < r {
			for _, m := range p.prepares[k] {
				if a.s.Honest(m.Src) {
					honestPrepared = append(honestPrepared, k)
					break
				}
			}
		}
	}
	switch {
	case mode >= 7 && len(honestPrepared) > 0:
		// forged prepared claim: the Byzantine members claim to have prepared another value v' in a round
		// in which honest members prepared v, and "prove" it with their own PREPAREs for v' mixed with the
		// replayed honest PREPAREs for v (own ones first, last, or interleaved).
		k := honestPrepared[rapid.IntRange(0, len(honestPrepared)-1).Draw(rt, "mixedClaim")]
		var cands []int64
		for _, c := range append(append([]int64{}, a.vals...), 101+a.hon[0], 101+a.hon[len(a.hon)-1]) {
			if c != k.v {
				cands = append(cands, c)
			}
		}
		forged := cands[rapid.IntRange(0, len(cands)-1).Draw(rt, "forgedValue")]
		var just []*qbftsim.M
		for _, m := range honestRC {
			if m.PR <= k.r || rapid.IntRange(0, 3).Draw(rt, "keepHigherRC") == 0 {
				just = append(just, m)
			}
		}
		for _, x := range a.byz {
			just = append(just, a.mk(cq.MsgRoundChange, x, r, 0, k.r, forged, nil, "nested"))
		}
		own := a.byzMsgs(cq.MsgPrepare, k.r, forged)
		var replayed []*qbftsim.M
		for _, m := range vals(p.prepares[k]) {
			if a.s.Honest(m.Src) {
				replayed = append(replayed, m)
			}
		}
		switch rapid.IntRange(0, 2).Draw(rt, "mixOrder") {
		case 0:
			just = append(append(just, own...), replayed...)
		case 1:
			just = append(append(just, replayed...), own...)
		default:
			all := append(append([]*qbftsim.M{}, own...), replayed...)
			for _, i := range rapid.Permutation(seqInts(len(all))).Draw(rt, "mixPerm") {
				just = append(just, all[i])
			}
		}
		a.s.Inject(a.mk(cq.MsgPrePrepare, b, r, forged, 0, 0, just, "ppForgedMixed"), a.hon)
		return fmt.Sprintf("forged_claim_mixed_prepares(pr=%d,honest=%d,forged=%d)", k.r, k.v, forged)
	case mode == 6 && len(nullJustification(a, honestRC, r)) >= a.s.Def.Quorum():
		// equivocation towards members that are still in an earlier round (they jump on the justified
		// PRE-PREPARE): they get both values, the others are partitioned between the two. The
		// justification is a plain quorum of null ROUND-CHANGEs, the two values are real inputs.
		just := nullJustification(a, honestRC, r)
		cands := append([]int64{}, a.vals...)
		for _, h := range a.hon {
			cands = append(cands, 101+h)
		}
		i1 := rapid.IntRange(0, len(cands)-1).Draw(rt, "equivV1")
		v1 := cands[i1]
		cands = append(cands[:i1], cands[i1+1:]...)
		v2 := cands[rapid.IntRange(0, len(cands)-1).Draw(rt, "equivV2")]
		for _, h := range a.hon {
			switch {
			case e.laggards[h]:
				a.s.Inject(a.mk(cq.MsgPrePrepare, b, r, v1, 0, 0, just, "ppEquivJump"), []int64{h})
				a.s.Inject(a.mk(cq.MsgPrePrepare, b, r, v2, 0, 0, just, "ppEquivJump"), []int64{h})
			case rapid.Bool().Draw(rt, "side"):
				a.s.Inject(a.mk(cq.MsgPrePrepare, b, r, v1, 0, 0, just, "ppEquivJump"), []int64{h})
			default:
				a.s.Inject(a.mk(cq.MsgPrePrepare, b, r, v2, 0, 0, just, "ppEquivJump"), []int64{h})
			}
		}
		return fmt.Sprintf("equivocation_to_laggards(%d,%d)", v1, v2)
	case len(claims) >= 2 && mode <= 3:
		// stale re-proposal: claim a prepared pair that is not the highest one, with the matching
		// ROUND-CHANGE placed first / last / anywhere and the higher ones kept or left out.
		k := claims[rapid.IntRange(0, len(claims)-2).Draw(rt, "staleClaim")]
		e.out.staleAttempt = true
		var first, rest []*qbftsim.M
		for _, m := range honestRC {
			switch {
			case m.PR == k.pr && m.PV == k.pv:
				first = append(first, m)
			case m.PR > k.pr && rapid.IntRange(0, 3).Draw(rt, "dropHigher") == 0:
			default:
				rest = append(rest, m)
			}
		}
		for _, x := range a.byz {
			if rapid.Bool().Draw(rt, "byzClaims") {
				rest = append(rest, a.mk(cq.MsgRoundChange, x, r, 0, k.pr, k.pv, nil, "nested"))
			} else {
				rest = append(rest, a.mk(cq.MsgRoundChange, x, r, 0, 0, 0, nil, "nested"))
			}
		}
		var just []*qbftsim.M
		switch rapid.IntRange(0, 2).Draw(rt, "order") {
		case 0:
			just = append(append(just, first...), rest...)
		case 1:
			just = append(append(just, rest...), first...)
		default:
			all := append(append([]*qbftsim.M{}, first...), rest...)
			for _, i := range rapid.Permutation(seqInts(len(all))).Draw(rt, "justPerm") {
				just = append(just, all[i])
			}
		}
		just = append(just, a.prepareQuorum(p, rv{k.pr, k.pv})...)
		a.s.Inject(a.mk(cq.MsgPrePrepare, b, r, k.pv, 0, 0, just, "ppStale"), a.hon)
		return fmt.Sprintf("stale_reproposal(pr=%d,pv=%d)", k.pr, k.pv)
	case len(claims) >= 1 && mode == 4:
		// equivocate between a prepared value and a fresh one
		just, pv := a.qrcJustification(rt, p, r)
		a.split(rt, func(v int64) *qbftsim.M { return a.mk(cq.MsgPrePrepare, b, r, v, 0, 0, just, "ppJ") }, pv, a.pickValue(rt, p))
		return "equivocating_reproposal"
	default:
		just, pv := a.qrcJustification(rt, p, r)
		v := pv
		if v == 0 || rapid.IntRange(0, 3).Draw(rt, "lpOther") == 0 {
			v = a.pickValue(rt, p)
		}
		a.s.Inject(a.mk(cq.MsgPrePrepare, b, r, v, 0, 0, just, "ppJ"), a.hon)
		return "justified_proposal"
	}
}

// nullJustification is the J1 justification of a round-r PRE-PREPARE: the observed honest ROUND-CHANGEs
// for r without a prepared value plus one null ROUND-CHANGE per Byzantine member.
func nullJustification(a *adversary, honestRC []*qbftsim.M, r int64) []*qbftsim.M {
	var just []*qbftsim.M
	for _, m := range honestRC {
		if m.PR == 0 {
			just = append(just, m)
		}
	}
	for _, x := range a.byz {
		just = append(just, a.mk(cq.MsgRoundChange, x, r, 0, 0, 0, nil, "nested"))
	}
	return just
}

func seqInts(n int) []int {
	out := make([]int, n)
	for i := range out {
		out[i] = i
	}
	return out
}
