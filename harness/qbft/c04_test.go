// C04 — termination under timely delivery with at most f crashed / silent / late members.
//
// Latency mode of qbftsim: production round timers (what timer.GetRoundTimerFunc selects under the
// default feature set) on the bubble's virtual clock, every (message, recipient) pair delayed by a
// drawn latency below a third of the shortest round timeout, faults injected at drawn points
// (including a crash inside a broadcast after the frame reached a drawn recipient subset).
package qbft

import (
	"fmt"
	"hash/fnv"
	"os"
	"sort"
	"sync"
	"testing"
	"testing/synctest"
	"time"

	"pgregory.net/rapid"

	"github.com/obolnetwork/charon/core"
	"github.com/obolnetwork/charon/core/consensus/timer"
	cq "github.com/obolnetwork/charon/core/qbft"

	"verifharness/qbftsim"
	"verifharness/vstat"
)

const ruleC04 = "n in 4..7, duty type and slot drawn (leader rotation (slot+type+round) mod n, timer aligned to the duty start), fault set of size <= f with per member: silent, late start, crash at a drawn time, or crash inside its k-th broadcast after a drawn recipient subset was served; non-faulty members start within one round, per-(message,recipient) latency < 1/3 of the shortest round timeout; " +
	"oracle: every non-faulty member decides, in a round <= R_fault + n for the production-selected timer, no LogUnjust, agreement+validity; " +
	"non-trivial = >=1 faulty member and decision round > 1, or a crash inside a broadcast; distinct by (n, duty, fault plan, decision rounds)"

type faultKind int

const (
	fSilent faultKind = iota
	fLate
	fCrashAt
	fCrashInBroadcast
)

type faultPlan struct {
	kind    faultKind
	at      time.Duration // late start / crash time, relative to duty start
	bcast   int           // crash in the k-th broadcast (1-based)
	reached uint          // bit mask of recipients that still get the frame
}

type c04Case struct {
	n        int
	duty     core.Duty
	timerSel string // "default", "inc", "linear"
	faults   map[int64]faultPlan
	starts   []time.Duration
	latSeed  uint64
	latMax   time.Duration
	fixedLat int // 0 = hashed, 1 = all zero, 2 = all max, 3 = by-destination skew
}

func (c c04Case) String() string {
	var fs []string
	for i := int64(0); i < int64(c.n); i++ {
		if f, ok := c.faults[i]; ok {
			fs = append(fs, fmt.Sprintf("%d:%v", i, f))
		}
	}
	return fmt.Sprintf("n=%d duty=%v timer=%s faults=[%v] starts=%v latMax=%v latMode=%d", c.n, c.duty, c.timerSel, fs, c.starts, c.latMax, c.fixedLat)
}

func (f faultPlan) String() string {
	switch f.kind {
	case fSilent:
		return "silent"
	case fLate:
		return fmt.Sprintf("late@%v", f.at)
	case fCrashAt:
		return fmt.Sprintf("crash@%v", f.at)
	default:
		return fmt.Sprintf("crashInBcast#%d(mask %b)", f.bcast, f.reached)
	}
}

var c04Duties = []core.DutyType{core.DutyAttester, core.DutyProposer, core.DutyAggregator, core.DutySyncContribution}

func TestC04Random(t *testing.T) {
	vstat.Rule("C04", ruleC04)
	vstat.Assume("termination and the rotation bound (decision round <= R_fault + n) are asserted for the round timer timer.GetRoundTimerFunc selects under the default feature set (eager double linear, aligned to the duty start); the opt-in increasing and linear timers are run too but only no-unjust and agreement/validity are asserted for them, stalls are reported as observations")
	vstat.Assume("R_fault = highest round any non-faulty member had entered when the last fault event (crash, late start; silent = time 0) happened")
	rapid.Check(t, func(rt *rapid.T) {
		rapid.SyncTest(rt, func(rt *rapid.T) {
			n := rapid.IntRange(4, 7).Draw(rt, "n")
			c := c04Case{n: n, faults: map[int64]faultPlan{}}
			c.duty = core.Duty{Slot: uint64(rapid.IntRange(0, 40).Draw(rt, "slot")), Type: c04Duties[rapid.IntRange(0, len(c04Duties)-1).Draw(rt, "dutyType")]}
			switch rapid.IntRange(0, 9).Draw(rt, "timerSel") {
			case 0:
				c.timerSel = "inc"
			case 1:
				c.timerSel = "linear"
			default:
				c.timerSel = "default"
			}
			f := (n - 1) / 3
			nf := rapid.IntRange(0, f).Draw(rt, "nFaulty")
			if nf < f && rapid.Bool().Draw(rt, "fullF") {
				nf = f
			}
			for len(c.faults) < nf {
				id := int64(rapid.IntRange(0, n-1).Draw(rt, "faulty"))
				if rapid.Bool().Draw(rt, "faultyLeader") { // leaders of the first rounds matter most
					r := int64(rapid.IntRange(1, 3).Draw(rt, "leaderOfRound"))
					id = (int64(c.duty.Slot) + int64(c.duty.Type) + r) % int64(n)
				}
				if _, ok := c.faults[id]; ok {
					continue
				}
				var fp faultPlan
				switch rapid.IntRange(0, 5).Draw(rt, "faultKind") {
				case 0:
					fp.kind = fSilent
				case 1:
					fp.kind = fLate
					fp.at = time.Duration(rapid.IntRange(100, 6000).Draw(rt, "lateMs")) * time.Millisecond
				case 2:
					fp.kind = fCrashAt
					fp.at = time.Duration(rapid.IntRange(0, 5000).Draw(rt, "crashMs")) * time.Millisecond
				default:
					fp.kind = fCrashInBroadcast
					fp.bcast = rapid.SampledFrom([]int{1, 1, 2, 2, 3, 3, 4, 5, 6, 8, 10, 12}).Draw(rt, "crashBcast")
					fp.reached = uint(rapid.IntRange(0, (1<<n)-1).Draw(rt, "reached"))
				}
				c.faults[id] = fp
			}
			// start offsets smaller than a round: anywhere in 0..900 ms, or (two cases in three) bunched at
			// the two ends, so that members which start almost a round apart are common
			bunched := rapid.IntRange(0, 2).Draw(rt, "startsBunched") > 0
			for i := 0; i < n; i++ {
				ms := rapid.IntRange(0, 900).Draw(rt, "startMs")
				if bunched {
					switch rapid.IntRange(0, 2).Draw(rt, "startEnd") {
					case 0:
						ms = ms % 60
					case 1:
						ms = 840 + ms%61
					}
				}
				c.starts = append(c.starts, time.Duration(ms)*time.Millisecond)
			}
			c.latSeed = rapid.Uint64().Draw(rt, "latSeed")
			// strictly below a third of the shortest round timeout of the timer in use:
			// default (eager double linear) 1s (proposer 1.5s); increasing 1s; linear 400ms (round 2).
			third := 333
			if c.timerSel == "linear" {
				third = 133
			}
			c.latMax = time.Duration(rapid.SampledFrom([]int{1, 20, third / 3, third * 2 / 3, third}).Draw(rt, "latMaxMs")) * time.Millisecond
			c.fixedLat = rapid.IntRange(0, 3).Draw(rt, "latMode")
			runC04(rt, c)
		})
	})
}

func roundTimerFor(sel string, duty core.Duty, genesis time.Time, slotDur time.Duration) timer.RoundTimer {
	switch sel {
	case "inc":
		return timer.NewIncreasingRoundTimerWithDuty(duty)
	case "linear":
		return timer.NewLinearRoundTimerWithDuty(duty)
	default:
		return timer.GetRoundTimerFunc(genesis, slotDur)(duty)
	}
}

func dutyStartDelay(typ core.DutyType, slotDur time.Duration) time.Duration {
	switch typ {
	case core.DutyAttester:
		return slotDur / 3
	case core.DutyAggregator, core.DutySyncContribution:
		return 2 * slotDur / 3
	default:
		return 0
	}
}

var debugC04 bool

type c04Result struct {
	maxRound int64
	rFault   int64
}

func runC04(rt *rapid.T, c c04Case) c04Result {
	const slotDur = 12 * time.Second
	genesis := time.Now()
	n := c.n
	dutyStart := genesis.Add(slotDur * time.Duration(c.duty.Slot)).Add(dutyStartDelay(c.duty.Type, slotDur))
	leader := func(_ int64, round, proc int64) bool {
		return (int64(c.duty.Slot)+int64(c.duty.Type)+round)%int64(n) == proc
	}

	type inbox struct {
		ch chan qbftsim.QMsg
	}
	inboxes := make([]inbox, n)
	for i := range inboxes {
		inboxes[i].ch = make(chan qbftsim.QMsg, 100) // instance.RecvBufferSize
	}
	timers := make([]timer.RoundTimer, n)
	var s *qbftsim.Sim
	var lastFaultAt time.Time
	var rFault int64 = 1
	noteFault := func() {
		// highest round of any non-faulty member right now
		lastFaultAt = time.Now()
		s.Lock()
		for _, p := range s.Procs {
			if _, faulty := c.faults[p.ID]; !faulty && p.Round > rFault {
				rFault = p.Round
			}
		}
		s.Unlock()
	}
	_ = lastFaultAt

	latency := func(m *qbftsim.M, dst int64) time.Duration {
		switch c.fixedLat {
		case 1:
			return 0
		case 2:
			return c.latMax
		case 3:
			return c.latMax * time.Duration(dst+1) / time.Duration(n)
		}
		h := fnv.New64a()
		fmt.Fprintf(h, "%d/%d/%d/%d", c.latSeed, m.Src, m.ID, dst)
		return time.Duration(h.Sum64() % uint64(c.latMax))
	}

	stopPumps := make(chan struct{})
	var timerMu sync.Mutex
	timerCalls := make([]map[int64]int, n) // per member: round -> number of Timer(round) calls (2 = deadline doubled)
	for i := range timerCalls {
		timerCalls[i] = map[int64]int{}
	}
	// doubledOnPrePrepare: per member and round, how often the round's timer was re-created because a
	// justified PRE-PREPARE for that round arrived (the eager timer then doubles the deadline)
	doubledOnPrePrepare := make([]map[int64]int, n)
	for i := range doubledOnPrePrepare {
		doubledOnPrePrepare[i] = map[int64]int{}
	}
	hooks := qbftsim.Hooks{
		NewTimer: func(p *qbftsim.Proc, round int64) (<-chan time.Time, func()) {
			lastRule := cq.UponNothing
			if s != nil {
				s.Lock()
				for i := len(s.Rules) - 1; i >= 0; i-- {
					if s.Rules[i].Proc == p.ID {
						lastRule = s.Rules[i].Rule
						break
					}
				}
				s.Unlock()
			}
			timerMu.Lock()
			timerCalls[p.ID][round]++
			if timerCalls[p.ID][round] >= 2 && lastRule == cq.UponJustifiedPrePrepare {
				doubledOnPrePrepare[p.ID][round]++
			}
			timerMu.Unlock()
			return timers[p.ID].Timer(round)
		},
		OnBroadcast: func(p *qbftsim.Proc, m *qbftsim.M) ([]int64, bool) {
			fp, ok := c.faults[p.ID]
			if !ok || fp.kind != fCrashInBroadcast || p.Bcasts != fp.bcast {
				return nil, false
			}
			var rec []int64
			for i := 0; i < n; i++ {
				if fp.reached&(1<<uint(i)) != 0 {
					rec = append(rec, int64(i))
				}
			}
			if rec == nil {
				rec = []int64{}
			}
			noteFault()
			return rec, true
		},
		Route: func(d qbftsim.Delivery) {
			lat := latency(d.Msg, d.Dst)
			go func() {
				if !sleepOr(stopPumps, lat) {
					return
				}
				select {
				case inboxes[d.Dst].ch <- d.Msg:
				default: // buffer of a member that is not reading is full: frame lost, as in production
				}
			}()
		},
	}
	s = qbftsim.New(n, int64(c.duty.Slot), leader, nil, hooks)
	defer func() {
		close(stopPumps)
		s.Stop()
		if os.Getenv("VERIF_DEBUG") != "" {
			dumpGoroutines()
		}
	}()

	// wait for the duty to start
	time.Sleep(time.Until(dutyStart))

	startProc := func(i int64) {
		timers[i] = roundTimerFor(c.timerSel, c.duty, genesis, slotDur)
		s.Start(i)
		s.SupplyInput(i, 101+i)
		go func() { // pump: outer receive buffer -> instance
			for {
				select {
				case <-stopPumps:
					return
				case m := <-inboxes[i].ch:
					if !s.Send(qbftsim.Delivery{Msg: qbftsim.FromQ(m), Dst: i}) {
						return
					}
				}
			}
		}()
	}

	var nonFaulty []int64
	crashInBcast := false
	for i := int64(0); i < int64(n); i++ {
		fp, faulty := c.faults[i]
		if !faulty {
			nonFaulty = append(nonFaulty, i)
		}
		if faulty && fp.kind == fCrashInBroadcast {
			crashInBcast = true
		}
		switch {
		case faulty && fp.kind == fSilent:
			// never starts
		case faulty && fp.kind == fLate:
			go func() {
				if !sleepOr(stopPumps, fp.at) {
					return
				}
				noteFault()
				startProc(i)
			}()
		default:
			go func() {
				if !sleepOr(stopPumps, c.starts[i]) {
					return
				}
				startProc(i)
			}()
			if faulty && fp.kind == fCrashAt {
				go func() {
					if !sleepOr(stopPumps, fp.at) {
						return
					}
					noteFault()
					s.Crash(i)
				}()
			}
		}
	}

	// Run until every non-faulty member decided or the horizon is reached.
	horizon := dutyStart.Add(140 * time.Second)
	if c.timerSel != "default" {
		horizon = dutyStart.Add(40 * time.Second)
	}
	decidedAll := false
	for time.Now().Before(horizon) {
		time.Sleep(50 * time.Millisecond)
		synctest.Wait()
		if allDecided(s, nonFaulty) {
			decidedAll = true
			break
		}
	}
	// let pending fault events happen so that R_fault is final (a late start after all decided is irrelevant)
	s.Lock()
	var res c04Result
	res.rFault = rFault
	decRound := map[int64]int64{}
	for _, d := range s.Decided {
		if _, faulty := c.faults[d.Proc]; faulty {
			continue
		}
		decRound[d.Proc] = d.Round
		if d.Round > res.maxRound {
			res.maxRound = d.Round
		}
	}
	nUnjust := len(s.Unjusts)
	var unjust string
	if nUnjust > 0 {
		unjust = fmt.Sprintf("%v at process %d", s.Unjusts[0].Msg, s.Unjusts[0].Proc)
	}
	var runErrs []string
	for _, p := range s.Procs {
		if _, faulty := c.faults[p.ID]; !faulty && p.Exited {
			runErrs = append(runErrs, fmt.Sprintf("%d: %v", p.ID, p.RunErr))
		}
	}
	safety := evalOracles(s, caseCfg{n: n, oracle: "C02"})
	if safety == "" {
		safety = evalOracles(s, caseCfg{n: n, oracle: "C03"})
	}
	s.Unlock()

	if debugC04 && res.maxRound > 6 {
		fmt.Println("CASE", c, res.maxRound)
		s.Lock()
		for _, m := range s.Sent {
			fmt.Println("SENT", m.At.Sub(dutyStart), m)
		}
		for _, d := range s.Decided {
			fmt.Println("DECIDED", d.At.Sub(dutyStart), d.Proc, d.Round, d.Value)
		}
		for _, r := range s.Rules {
			fmt.Println("RULE", r.Proc, r.Round, r.Rule, r.Msg)
		}
		for _, p := range s.Procs {
			fmt.Println("PROC", p.ID, "round", p.Round, "bcasts", p.Bcasts, "exited", p.Exited, p.RunErr)
		}
		s.Unlock()
	}
	if len(runErrs) > 0 {
		rt.Fatalf("non-faulty member stopped running: %v\n%v", runErrs, c)
	}
	if !decidedAll && c.timerSel != "default" {
		// Observation only: the opt-in timers are not aligned to the duty start, members that start a
		// few hundred ms apart can stay one round apart for good. Not asserted (see DESIGN.md, C04).
		vstat.Case("", false, "observation:no_decision_within_40s:timer="+c.timerSel)
		if vstat.WantSample("observation_nonaligned_timer_stall") {
			vstat.Sample("observation_nonaligned_timer_stall", map[string]any{"case": c.String()})
		}
		return res
	}
	// Structural signature of the one recorded finding (known_findings.json): in some round a
	// non-faulty member restarted (doubled) its eager timer on a justified PRE-PREPARE while another
	// non-faulty member had already left that round on its first deadline.
	splitDoubling := false
	leftOnTimeout := map[[2]int64]bool{} // (member, round): the member left that round because its round timer fired
	s.Lock()
	for _, rc := range s.RoundChanges {
		if rc.Rule == cq.UponRoundTimeout {
			leftOnTimeout[[2]int64{rc.Proc, rc.From}] = true
		}
	}
	s.Unlock()
	timerMu.Lock()
	for _, a := range nonFaulty {
		for r, calls := range doubledOnPrePrepare[a] {
			if calls < 1 {
				continue
			}
			for _, b := range nonFaulty {
				if b != a && timerCalls[b][r] <= 1 && leftOnTimeout[[2]int64{b, r}] {
					splitDoubling = true
				}
			}
		}
	}
	timerMu.Unlock()
	// The recorded finding is about the timer as documented ("first request = the round's absolute first
	// deadline, a justified PRE-PREPARE received while in the round doubles it"). A run in which a
	// non-faulty member gave up a round earlier than that rule allows is something else and is not covered
	// by the recorded finding.
	timerAsDocumented := true
	earlyLeave := ""
	if c.timerSel == "default" {
		timeout := func(r int64) time.Duration {
			d := time.Duration(r) * timer.LinearRoundInc
			if c.duty.Type == core.DutyProposer {
				d += timer.ProposalRoundExtra
			}
			return d
		}
		s.Lock()
		for _, rc := range s.RoundChanges {
			if rc.Rule != cq.UponRoundTimeout {
				continue
			}
			if _, faulty := c.faults[rc.Proc]; faulty {
				continue
			}
			r := rc.From
			// how did the member enter round r, and did it process a justified PRE-PREPARE of r afterwards?
			enteredSeq, enteredByPrePrepare := int64(0), false
			for _, e := range s.RoundChanges {
				if e.Proc == rc.Proc && e.To == r && e.Seq < rc.Seq {
					enteredSeq, enteredByPrePrepare = e.Seq, e.Rule == cq.UponJustifiedPrePrepare
				}
			}
			doubled := false
			if !enteredByPrePrepare {
				for _, e := range s.Rules {
					if e.Proc == rc.Proc && e.Rule == cq.UponJustifiedPrePrepare && e.Msg != nil && e.Msg.Rnd == r && e.Seq > enteredSeq && e.Seq < rc.Seq {
						doubled = true
					}
				}
			}
			expected := dutyStart.Add(timeout(r))
			if doubled {
				expected = expected.Add(timeout(r))
			}
			if rc.At.Before(expected) {
				timerAsDocumented = false
				earlyLeave = fmt.Sprintf("member %d left round %d on a timeout at +%v, the timer rule gives +%v (doubled=%v)", rc.Proc, r, rc.At.Sub(dutyStart), expected.Sub(dutyStart), doubled)
			}
		}
		s.Unlock()
	}
	bound := res.rFault + int64(n)
	if c.timerSel == "default" && splitDoubling && !timerAsDocumented && (!decidedAll || res.maxRound > bound) {
		vstat.Note("C04: run not attributed to the recorded finding: %s", earlyLeave)
	}
	if c.timerSel == "default" && splitDoubling && timerAsDocumented && (!decidedAll || res.maxRound > bound) {
		if vstat.IsKnown("C04", "eager_timer_split_doubling", fmt.Sprintf("%v decision rounds %v", c, decRound)) {
			vstat.Case("", false, "excluded:known_finding_eager_timer_split_doubling")
			return res
		}
	}
	if !decidedAll {
		rt.Fatalf("TERMINATION: not every non-faulty member decided within 140s of virtual time (decided rounds %v)\n%v", decRound, c)
	}
	if nUnjust > 0 {
		rt.Fatalf("UNJUST: honest message rejected as unjustified: %s\n%v", unjust, c)
	}
	if safety != "" {
		rt.Fatalf("%s\n%v", safety, c)
	}
	if c.timerSel == "default" && res.maxRound > bound {
		rt.Fatalf("ROTATION BOUND: decision in round %d > R_fault %d + n %d\n%v", res.maxRound, res.rFault, n, c)
	}
	vstat.Max("decision_round:"+c.timerSel+fmt.Sprintf(":n=%d", n), res.maxRound)
	vstat.Max("slack_used(maxRound-R_fault):"+c.timerSel, res.maxRound-res.rFault)

	var fk []string
	for id, fp := range c.faults {
		fk = append(fk, fmt.Sprintf("%d:%v", id, fp))
	}
	sort.Strings(fk)
	nontrivial := (len(c.faults) > 0 && res.maxRound > 1) || crashInBcast
	fp := fmt.Sprintf("%d|%v|%s|%v|%v", n, c.duty, c.timerSel, fk, decRound)
	vstat.Case(fp, nontrivial, cls("faulty>=1", len(c.faults) > 0), cls("crash_in_broadcast", crashInBcast),
		cls("decision_round>1", res.maxRound > 1), cls("split_doubling_but_within_bound", splitDoubling), cls("decision_round>2", res.maxRound > 2), "timer="+c.timerSel, fmt.Sprintf("n=%d", n))
	if nontrivial && res.maxRound > 2 && vstat.WantSample("late_decision") {
		vstat.Sample("late_decision", map[string]any{"case": c.String(), "decision_rounds": fmt.Sprint(decRound), "R_fault": res.rFault})
	} else if crashInBcast && vstat.WantSample("crash_in_broadcast") {
		vstat.Sample("crash_in_broadcast", map[string]any{"case": c.String(), "decision_rounds": fmt.Sprint(decRound), "R_fault": res.rFault})
	}
	_ = cq.MsgCommit
	return res
}

// sleepOr sleeps on the bubble's clock unless stop is closed first (time stops when the bubble's
// main goroutine exits, so nothing may be left sleeping).
func sleepOr(stop <-chan struct{}, d time.Duration) bool {
	t := time.NewTimer(d)
	defer t.Stop()
	select {
	case <-stop:
		return false
	case <-t.C:
		return true
	}
}
