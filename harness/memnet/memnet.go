// Package memnet is an in-memory stand-in for libp2p: a host.Host with only ID,
// SetStreamHandlerMatch and NewStream implemented, and a network.Stream that turns every
// request into a Frame owned by the harness. Production constructors (p2p.RegisterHandler,
// p2p.Send, p2p.SendReceive and everything built on them) run unmodified on top of it while the
// harness decides when, whether and how often a frame is delivered, and can inject frames under
// the identity of any member it plays.
package memnet

import (
	"bytes"
	"context"
	"errors"
	"io"
	"runtime/debug"
	"sync"
	"time"

	"github.com/libp2p/go-libp2p/core/host"
	"github.com/libp2p/go-libp2p/core/network"
	"github.com/libp2p/go-libp2p/core/peer"
	"github.com/libp2p/go-libp2p/core/protocol"
	"github.com/libp2p/go-msgio/pbio"
	"google.golang.org/protobuf/proto"
)

// Frame is one request travelling from a sender to a receiver.
type Frame struct {
	Seq      int
	From, To peer.ID
	Proto    protocol.ID
	Req      []byte // exactly what the sender wrote (varint-delimited protobuf)
	Injected bool

	mu       sync.Mutex
	resp     []byte
	done     chan struct{} // closed when a response is available or the frame was aborted
	aborted  bool
	finished bool
}

func newFrame(from, to peer.ID, p protocol.ID, req []byte) *Frame {
	return &Frame{From: from, To: to, Proto: p, Req: req, done: make(chan struct{})}
}

func (f *Frame) finish(resp []byte, aborted bool) {
	f.mu.Lock()
	defer f.mu.Unlock()
	if f.finished {
		return
	}
	f.finished = true
	f.resp = resp
	f.aborted = aborted
	close(f.done)
}

// Wait blocks until the frame was answered or aborted.
func (f *Frame) Wait() { <-f.done }

// Response returns what the receiver's handler wrote back (nil if nothing) once delivered.
func (f *Frame) Response() []byte {
	f.mu.Lock()
	defer f.mu.Unlock()
	return f.resp
}

// Decode unmarshals the request into m.
func (f *Frame) Decode(m proto.Message) error {
	return pbio.NewDelimitedReader(bytes.NewReader(f.Req), 128<<20).ReadMsg(m)
}

// Encode renders a message the way p2p.Send writes it.
func Encode(m proto.Message) []byte {
	var buf bytes.Buffer
	if err := pbio.NewDelimitedWriter(&buf).WriteMsg(m); err != nil {
		panic("HARNESS-ERROR: encode: " + err.Error())
	}
	return buf.Bytes()
}

type handlerEntry struct {
	match   func(protocol.ID) bool
	handler network.StreamHandler
}

// Net connects the hosts.
type Net struct {
	mu      sync.Mutex
	hosts   map[peer.ID]*Host
	Pending []*Frame
	seq     int
	// OnFrame, if set, takes over every new frame (latency mode); otherwise frames queue in Pending.
	OnFrame func(f *Frame)
	// Log of every frame ever created (including injected ones).
	All []*Frame
	// OnPanic, if set, receives a panic that escapes a registered stream handler (production runs the handler
	// without recover: such a panic ends the process). nil = the panic propagates and ends the test binary.
	OnPanic func(f *Frame, r any, stack []byte)
}

func New() *Net { return &Net{hosts: map[peer.ID]*Host{}} }

// Host returns (creating it if needed) the host of a member.
func (n *Net) Host(id peer.ID) *Host {
	n.mu.Lock()
	defer n.mu.Unlock()
	if h, ok := n.hosts[id]; ok {
		return h
	}
	h := &Host{id: id, net: n}
	n.hosts[id] = h
	return h
}

func (n *Net) submit(f *Frame) {
	n.mu.Lock()
	n.seq++
	f.Seq = n.seq
	n.All = append(n.All, f)
	hook := n.OnFrame
	if hook == nil {
		n.Pending = append(n.Pending, f)
	}
	n.mu.Unlock()
	if hook != nil {
		hook(f)
	}
}

// NPending returns the number of queued frames.
func (n *Net) NPending() int {
	n.mu.Lock()
	defer n.mu.Unlock()
	return len(n.Pending)
}

// Take removes and returns pending frame i.
func (n *Net) Take(i int) *Frame {
	n.mu.Lock()
	defer n.mu.Unlock()
	f := n.Pending[i]
	n.Pending = append(n.Pending[:i], n.Pending[i+1:]...)
	return f
}

// Peek returns pending frame i.
func (n *Net) Peek(i int) *Frame {
	n.mu.Lock()
	defer n.mu.Unlock()
	return n.Pending[i]
}

// Drop aborts a frame: the sender sees a stream error.
func (n *Net) Drop(f *Frame) { f.finish(nil, true) }

// Deliver runs the receiver's stream handler for the frame in a new goroutine and returns
// immediately; the caller waits for quiescence (synctest.Wait). A frame may be delivered more
// than once (duplicate); only the first delivery's response reaches the sender.
func (n *Net) Deliver(f *Frame) bool {
	n.mu.Lock()
	h := n.hosts[f.To]
	n.mu.Unlock()
	if h == nil {
		f.finish(nil, true)
		return false
	}
	handler := h.handlerFor(f.Proto)
	if handler == nil {
		f.finish(nil, true)
		return false
	}
	s := &serverStream{frame: f, rd: bytes.NewReader(f.Req), local: f.To}
	onPanic := n.OnPanic
	go func() {
		if onPanic != nil {
			defer func() {
				if r := recover(); r != nil {
					onPanic(f, r, debug.Stack())
					f.finish(nil, true)
				}
			}()
		}
		handler(s)
		s.Close()
	}()
	return true
}

// Inject creates a frame under the identity `from` (a member the harness plays) and queues it like
// any other frame.
func (n *Net) Inject(from, to peer.ID, p protocol.ID, m proto.Message) *Frame {
	f := newFrame(from, to, p, Encode(m))
	f.Injected = true
	n.submit(f)
	return f
}

// InjectRaw is Inject with arbitrary bytes.
func (n *Net) InjectRaw(from, to peer.ID, p protocol.ID, raw []byte) *Frame {
	f := newFrame(from, to, p, raw)
	f.Injected = true
	n.submit(f)
	return f
}

// Host is the fake libp2p host of one member.
type Host struct {
	host.Host // nil: any method the code under test needs but memnet lacks panics loudly
	id        peer.ID
	net       *Net
	mu        sync.Mutex
	handlers  []handlerEntry
	down      bool
}

func (h *Host) ID() peer.ID { return h.id }

func (h *Host) SetStreamHandlerMatch(_ protocol.ID, match func(protocol.ID) bool, handler network.StreamHandler) {
	h.mu.Lock()
	defer h.mu.Unlock()
	h.handlers = append(h.handlers, handlerEntry{match, handler})
}

func (h *Host) SetStreamHandler(pid protocol.ID, handler network.StreamHandler) {
	h.SetStreamHandlerMatch(pid, func(p protocol.ID) bool { return p == pid }, handler)
}

// HandleFunc registers a harness-side responder for a protocol (for members the harness plays):
// fn gets the frame and returns the response message (nil = no response).
func (h *Host) HandleFunc(pid protocol.ID, fn func(f *Frame) proto.Message) {
	h.SetStreamHandlerMatch(pid, func(p protocol.ID) bool { return p == pid }, func(s network.Stream) {
		ss := s.(*serverStream)
		if resp := fn(ss.frame); resp != nil {
			_, _ = ss.Write(Encode(resp))
		}
	})
}

// SetDown makes the host unreachable (crash): handlers stop answering, new streams fail.
func (h *Host) SetDown(down bool) {
	h.mu.Lock()
	h.down = down
	h.mu.Unlock()
}

func (h *Host) handlerFor(p protocol.ID) network.StreamHandler {
	h.mu.Lock()
	defer h.mu.Unlock()
	if h.down {
		return nil
	}
	for i := len(h.handlers) - 1; i >= 0; i-- {
		if h.handlers[i].match(p) {
			return h.handlers[i].handler
		}
	}
	return nil
}

func (h *Host) NewStream(_ context.Context, p peer.ID, pids ...protocol.ID) (network.Stream, error) {
	h.mu.Lock()
	down := h.down
	h.mu.Unlock()
	if down || len(pids) == 0 {
		return nil, errors.New("memnet: host down")
	}
	return &clientStream{host: h, to: p, proto: pids[0]}, nil
}

// ---- streams

type conn struct {
	network.Conn
	local, remote peer.ID
}

func (c conn) RemotePeer() peer.ID { return c.remote }
func (c conn) LocalPeer() peer.ID  { return c.local }

type clientStream struct {
	network.Stream
	host  *Host
	to    peer.ID
	proto protocol.ID

	mu       sync.Mutex
	buf      bytes.Buffer
	frame    *Frame
	rd       *bytes.Reader
	deadline time.Time
}

func (s *clientStream) Protocol() protocol.ID { return s.proto }
func (s *clientStream) Conn() network.Conn    { return conn{local: s.host.id, remote: s.to} }
func (s *clientStream) ID() string            { return "memnet" }

func (s *clientStream) Write(p []byte) (int, error) {
	s.mu.Lock()
	defer s.mu.Unlock()
	if s.frame != nil {
		return 0, errors.New("memnet: write after close")
	}
	return s.buf.Write(p)
}

func (s *clientStream) flush() {
	s.mu.Lock()
	if s.frame != nil {
		s.mu.Unlock()
		return
	}
	if s.buf.Len() == 0 {
		s.mu.Unlock()
		return
	}
	f := newFrame(s.host.id, s.to, s.proto, append([]byte{}, s.buf.Bytes()...))
	s.frame = f
	s.mu.Unlock()
	s.host.net.submit(f)
}

func (s *clientStream) CloseWrite() error { s.flush(); return nil }
func (s *clientStream) Close() error      { s.flush(); return nil }
func (s *clientStream) Reset() error      { return nil }
func (s *clientStream) CloseRead() error  { return nil }

func (s *clientStream) SetDeadline(t time.Time) error {
	s.mu.Lock()
	s.deadline = t
	s.mu.Unlock()
	return nil
}
func (s *clientStream) SetReadDeadline(t time.Time) error { return s.SetDeadline(t) }
func (s *clientStream) SetWriteDeadline(time.Time) error  { return nil }

type timeoutErr struct{}

func (timeoutErr) Error() string   { return "memnet: i/o timeout" }
func (timeoutErr) Timeout() bool   { return true }
func (timeoutErr) Temporary() bool { return true }

func (s *clientStream) Read(p []byte) (int, error) {
	s.mu.Lock()
	f, rd, dl := s.frame, s.rd, s.deadline
	s.mu.Unlock()
	if f == nil {
		return 0, errors.New("memnet: read before request was sent")
	}
	if rd == nil {
		var timer <-chan time.Time
		if !dl.IsZero() {
			t := time.NewTimer(time.Until(dl))
			defer t.Stop()
			timer = t.C
		}
		select {
		case <-f.done:
		case <-timer:
			return 0, timeoutErr{}
		}
		f.mu.Lock()
		aborted, resp := f.aborted, f.resp
		f.mu.Unlock()
		if aborted {
			return 0, errors.New("memnet: stream reset")
		}
		rd = bytes.NewReader(resp)
		s.mu.Lock()
		s.rd = rd
		s.mu.Unlock()
	}
	n, err := rd.Read(p)
	if err == io.EOF && n > 0 {
		err = nil
	}
	return n, err
}

type serverStream struct {
	network.Stream
	frame *Frame
	rd    *bytes.Reader
	local peer.ID
	mu    sync.Mutex
	out   bytes.Buffer
}

func (s *serverStream) Protocol() protocol.ID            { return s.frame.Proto }
func (s *serverStream) Conn() network.Conn               { return conn{local: s.local, remote: s.frame.From} }
func (s *serverStream) ID() string                       { return "memnet" }
func (s *serverStream) Read(p []byte) (int, error)       { return s.rd.Read(p) }
func (s *serverStream) SetDeadline(time.Time) error      { return nil }
func (s *serverStream) SetReadDeadline(time.Time) error  { return nil }
func (s *serverStream) SetWriteDeadline(time.Time) error { return nil }
func (s *serverStream) CloseRead() error                 { return nil }
func (s *serverStream) Reset() error                     { return nil }
func (s *serverStream) CloseWrite() error                { return s.Close() }
func (s *serverStream) Write(p []byte) (int, error) {
	s.mu.Lock()
	defer s.mu.Unlock()
	return s.out.Write(p)
}
func (s *serverStream) Close() error {
	s.mu.Lock()
	resp := append([]byte{}, s.out.Bytes()...)
	s.mu.Unlock()
	s.frame.finish(resp, false)
	return nil
}
