// Package fakebn is a scripted beacon node: a struct embedding a nil eth2wrap.Client that
// implements only what the components under test call (Genesis, Spec, Domain, GenesisDomain, ...).
// Anything else panics, so a silent wrong default is impossible. Domains are computed with the
// consensus-spec compute_domain over the fake node's own fork schedule.
package fakebn

import (
	"context"
	"sort"
	"sync"
	"time"

	eth2api "github.com/attestantio/go-eth2-client/api"
	eth2v1 "github.com/attestantio/go-eth2-client/api/v1"
	eth2p0 "github.com/attestantio/go-eth2-client/spec/phase0"

	"github.com/obolnetwork/charon/app/eth2wrap"
)

type Fork struct {
	Name    string
	Version eth2p0.Version
	Epoch   eth2p0.Epoch
}

// DomainTypes are the consensus-spec domain type constants.
var DomainTypes = map[string]eth2p0.DomainType{
	"DOMAIN_BEACON_PROPOSER":                {0, 0, 0, 0},
	"DOMAIN_BEACON_ATTESTER":                {1, 0, 0, 0},
	"DOMAIN_RANDAO":                         {2, 0, 0, 0},
	"DOMAIN_DEPOSIT":                        {3, 0, 0, 0},
	"DOMAIN_VOLUNTARY_EXIT":                 {4, 0, 0, 0},
	"DOMAIN_SELECTION_PROOF":                {5, 0, 0, 0},
	"DOMAIN_AGGREGATE_AND_PROOF":            {6, 0, 0, 0},
	"DOMAIN_SYNC_COMMITTEE":                 {7, 0, 0, 0},
	"DOMAIN_SYNC_COMMITTEE_SELECTION_PROOF": {8, 0, 0, 0},
	"DOMAIN_CONTRIBUTION_AND_PROOF":         {9, 0, 0, 0},
	"DOMAIN_APPLICATION_BUILDER":            {0, 0, 0, 1},
}

type BN struct {
	eth2wrap.Client // nil

	GenesisTime           time.Time
	GenesisValidatorsRoot eth2p0.Root
	SlotDur               time.Duration
	SPE                   uint64
	Forks                 []Fork // ascending epochs, first at epoch 0

	mu      sync.Mutex
	Calls   []string
	vals    map[eth2p0.ValidatorIndex]eth2p0.BLSPubKey
	duties  *DutyTables
	infos   map[eth2p0.ValidatorIndex]ValInfo
	Records []CallRecord
	// LeakForeign makes duty answers include validators that were not asked for (a beacon node
	// that ignores the index filter)
	LeakForeign bool
	proCache    func(context.Context, eth2p0.Epoch, []eth2p0.ValidatorIndex) (eth2wrap.ProposerDutyWithMeta, error)
	attCache    func(context.Context, eth2p0.Epoch, []eth2p0.ValidatorIndex) (eth2wrap.AttesterDutyWithMeta, error)
	syncCache   func(context.Context, eth2p0.Epoch, []eth2p0.ValidatorIndex) (eth2wrap.SyncDutyWithMeta, error)
	fail        map[string]int
	failErr     map[string]error
	// AfterAnswer, if set, runs after a duties endpoint has assembled its answer (from the tables as they were)
	// and before the caller receives it: what happens while the response is on its way.
	AfterAnswer func(endpoint string, epoch eth2p0.Epoch)
	latency     time.Duration
}

// New returns a fake node whose fork epochs are spread over the whole epoch range, so that
// objects with arbitrary 64-bit slots fall into every fork.
func New() *BN {
	b := &BN{GenesisTime: time.Unix(1_600_000_000, 0), SlotDur: 12 * time.Second, SPE: 32}
	b.GenesisValidatorsRoot[0], b.GenesisValidatorsRoot[31] = 0x42, 0x24
	names := []string{"phase0", "altair", "bellatrix", "capella", "deneb", "electra", "fulu"}
	maxEpoch := ^uint64(0) / b.SPE
	for i, n := range names {
		b.Forks = append(b.Forks, Fork{Name: n, Version: eth2p0.Version{0xaa, 0, 0, byte(i)}, Epoch: eth2p0.Epoch(maxEpoch / uint64(len(names)) * uint64(i))})
	}
	return b
}

// NewGenesisForks is New with the first k+1 forks all scheduled at epoch 0 (as test networks and devnets start:
// every fork up to some recent one is active from genesis). The fork version in force at epoch 0 is then that of
// the last of them, while the genesis fork version stays the first one's.
func NewGenesisForks(k int) *BN {
	b := New()
	for i := 1; i <= k && i < len(b.Forks); i++ {
		b.Forks[i].Epoch = 0
	}
	return b
}

// NewCompact returns a fake node with small fork epochs (0,2,4,..) for slot-driven tests.
func NewCompact(genesis time.Time, slotDuration time.Duration, slotsPerEpoch uint64) *BN {
	b := New()
	b.GenesisTime, b.SlotDur, b.SPE = genesis, slotDuration, slotsPerEpoch
	for i := range b.Forks {
		b.Forks[i].Epoch = eth2p0.Epoch(2 * i)
	}
	return b
}

func (b *BN) log(s string) {
	b.mu.Lock()
	b.Calls = append(b.Calls, s)
	b.mu.Unlock()
}

func (b *BN) ForkAt(epoch eth2p0.Epoch) Fork {
	i := sort.Search(len(b.Forks), func(i int) bool { return b.Forks[i].Epoch > epoch }) - 1
	if i < 0 {
		i = 0
	}
	return b.Forks[i]
}

func (b *BN) ForkByName(name string) Fork {
	for _, f := range b.Forks {
		if f.Name == name {
			return f
		}
	}
	panic("HARNESS-ERROR: unknown fork " + name)
}

// ComputeDomain is the consensus-spec compute_domain.
func ComputeDomain(domainType eth2p0.DomainType, forkVersion eth2p0.Version, genesisValidatorsRoot eth2p0.Root) eth2p0.Domain {
	fd := eth2p0.ForkData{CurrentVersion: forkVersion, GenesisValidatorsRoot: genesisValidatorsRoot}
	root, err := fd.HashTreeRoot()
	if err != nil {
		panic("HARNESS-ERROR: fork data root: " + err.Error())
	}
	var d eth2p0.Domain
	copy(d[:4], domainType[:])
	copy(d[4:], root[:28])
	return d
}

func (b *BN) Genesis(context.Context, *eth2api.GenesisOpts) (*eth2api.Response[*eth2v1.Genesis], error) {
	return &eth2api.Response[*eth2v1.Genesis]{Data: &eth2v1.Genesis{GenesisTime: b.GenesisTime, GenesisValidatorsRoot: b.GenesisValidatorsRoot, GenesisForkVersion: b.Forks[0].Version}}, nil
}

func (b *BN) Spec(context.Context, *eth2api.SpecOpts) (*eth2api.Response[map[string]any], error) {
	if err := b.failOnly("spec"); err != nil {
		return nil, err
	}
	m := map[string]any{"SECONDS_PER_SLOT": b.SlotDur, "SLOTS_PER_EPOCH": b.SPE, "TARGET_AGGREGATORS_PER_COMMITTEE": uint64(16),
		// every member of a sync subcommittee is an aggregator (modulo = 512/4/128 = 1)
		"SYNC_COMMITTEE_SIZE": uint64(512), "SYNC_COMMITTEE_SUBNET_COUNT": uint64(4), "TARGET_AGGREGATORS_PER_SYNC_SUBCOMMITTEE": uint64(128)}
	for k, v := range DomainTypes {
		m[k] = v
	}
	for _, f := range b.Forks[1:] {
		m[upper(f.Name)+"_FORK_VERSION"] = f.Version
		m[upper(f.Name)+"_FORK_EPOCH"] = uint64(f.Epoch)
	}
	m["GENESIS_FORK_VERSION"] = b.Forks[0].Version
	return &eth2api.Response[map[string]any]{Data: m}, nil
}

func upper(s string) string {
	out := []byte(s)
	for i, c := range out {
		if c >= 'a' && c <= 'z' {
			out[i] = c - 32
		}
	}
	return string(out)
}

// Domain answers like production's httpAdapter: the voluntary-exit domain is always computed with
// the Capella fork version (EIP-7044), every other domain with the fork version of the epoch.
func (b *BN) Domain(_ context.Context, domainType eth2p0.DomainType, epoch eth2p0.Epoch) (eth2p0.Domain, error) {
	b.log("Domain")
	if err := b.failOnly("domain"); err != nil {
		return eth2p0.Domain{}, err
	}
	if domainType == DomainTypes["DOMAIN_VOLUNTARY_EXIT"] {
		return ComputeDomain(domainType, b.ForkByName("capella").Version, b.GenesisValidatorsRoot), nil
	}
	return ComputeDomain(domainType, b.ForkAt(epoch).Version, b.GenesisValidatorsRoot), nil
}

// GenesisDomain: genesis fork version and the zero validators root (builder domain, deposits).
func (b *BN) GenesisDomain(_ context.Context, domainType eth2p0.DomainType) (eth2p0.Domain, error) {
	b.log("GenesisDomain")
	if err := b.failOnly("genesis_domain"); err != nil {
		return eth2p0.Domain{}, err
	}
	// as the HTTP client computes it: the genesis fork version, and the chain's genesis validators root for
	// every domain type but the application (builder) one
	if domainType != DomainTypes["DOMAIN_APPLICATION_BUILDER"] {
		return ComputeDomain(domainType, b.Forks[0].Version, b.GenesisValidatorsRoot), nil
	}
	return ComputeDomain(domainType, b.Forks[0].Version, eth2p0.Root{}), nil
}

func (b *BN) Name() string    { return "fakebn" }
func (b *BN) Address() string { return "fakebn" }
func (b *BN) IsActive() bool  { return true }
func (b *BN) IsSynced() bool  { return true }

// Vals is the scripted active validator set (index -> group public key).
func (b *BN) SetValidators(v map[eth2p0.ValidatorIndex]eth2p0.BLSPubKey) {
	b.mu.Lock()
	b.vals = v
	b.mu.Unlock()
}

func (b *BN) ActiveValidators(context.Context) (eth2wrap.ActiveValidators, error) {
	b.mu.Lock()
	defer b.mu.Unlock()
	out := eth2wrap.ActiveValidators{}
	for k, v := range b.vals {
		out[k] = v
	}
	return out, nil
}

// ---- scripted duty tables (C15, C20)

// DutyTables are the beacon node's duty assignments.
type DutyTables struct {
	Att  map[eth2p0.Epoch]map[eth2p0.ValidatorIndex]eth2v1.AttesterDuty
	Pro  map[eth2p0.Epoch][]eth2v1.ProposerDuty
	Sync map[eth2p0.Epoch]map[eth2p0.ValidatorIndex]eth2v1.SyncCommitteeDuty
}

func NewDutyTables() *DutyTables {
	return &DutyTables{Att: map[eth2p0.Epoch]map[eth2p0.ValidatorIndex]eth2v1.AttesterDuty{}, Pro: map[eth2p0.Epoch][]eth2v1.ProposerDuty{}, Sync: map[eth2p0.Epoch]map[eth2p0.ValidatorIndex]eth2v1.SyncCommitteeDuty{}}
}

// SetDuties installs the tables; Fail schedules n failures for the named endpoint
// ("attester", "proposer", "sync", "validators"); Latency delays every duty call (virtual time).
func (b *BN) SetDuties(t *DutyTables) { b.mu.Lock(); b.duties = t; b.mu.Unlock() }

// MutateDuties changes the installed tables under the node's lock (a chain reorg changes assignments).
func (b *BN) MutateDuties(f func(t *DutyTables)) { b.mu.Lock(); f(b.duties); b.mu.Unlock() }
func (b *BN) Fail(endpoint string, n int) {
	b.mu.Lock()
	if b.fail == nil {
		b.fail = map[string]int{}
	}
	b.fail[endpoint] = n
	delete(b.failErr, endpoint)
	b.mu.Unlock()
}

// FailAs is Fail with the error value the endpoint returns (e.g. a typed *api.Error as an HTTP beacon
// node client reports a 5xx answer, or a wrapped context error).
func (b *BN) FailAs(endpoint string, n int, err error) {
	b.Fail(endpoint, n)
	b.mu.Lock()
	if b.failErr == nil {
		b.failErr = map[string]error{}
	}
	b.failErr[endpoint] = err
	b.mu.Unlock()
}
func (b *BN) SetLatency(d time.Duration) { b.mu.Lock(); b.latency = d; b.mu.Unlock() }

// CallCount returns how often an endpoint was called.
func (b *BN) CallCount(endpoint string) int {
	b.mu.Lock()
	defer b.mu.Unlock()
	n := 0
	for _, c := range b.Calls {
		if c == endpoint {
			n++
		}
	}
	return n
}

func (b *BN) enter(endpoint string) error {
	b.mu.Lock()
	b.Calls = append(b.Calls, endpoint)
	lat := b.latency
	failing := b.fail[endpoint] > 0
	if failing {
		b.fail[endpoint]--
	}
	b.mu.Unlock()
	if lat > 0 {
		time.Sleep(lat)
	}
	if failing {
		b.mu.Lock()
		e := b.failErr[endpoint]
		b.mu.Unlock()
		if e != nil {
			return e
		}
		return errScripted
	}
	return nil
}

// failOnly consumes one scheduled failure of the endpoint, if any (no latency, no call log): for endpoints
// that every component calls all the time and that only fail when a check scripts it (Fail("spec", n)).
func (b *BN) failOnly(endpoint string) error {
	b.mu.Lock()
	defer b.mu.Unlock()
	if b.fail[endpoint] > 0 {
		b.fail[endpoint]--
		if e := b.failErr[endpoint]; e != nil {
			return e
		}
		return errScripted
	}
	return nil
}

var errScripted = scriptedErr("fakebn: scripted failure")

type scriptedErr string

func (e scriptedErr) Error() string { return string(e) }

func want(indices []eth2p0.ValidatorIndex) func(eth2p0.ValidatorIndex) bool {
	if len(indices) == 0 {
		return func(eth2p0.ValidatorIndex) bool { return true }
	}
	set := map[eth2p0.ValidatorIndex]bool{}
	for _, i := range indices {
		set[i] = true
	}
	return func(i eth2p0.ValidatorIndex) bool { return set[i] }
}

func (b *BN) AttesterDuties(ctx context.Context, opts *eth2api.AttesterDutiesOpts) (*eth2api.Response[[]*eth2v1.AttesterDuty], error) {
	resp, err := b.attesterDuties(ctx, opts)
	if h := b.AfterAnswer; h != nil && err == nil {
		h("attester", opts.Epoch)
	}
	return resp, err
}

func (b *BN) attesterDuties(_ context.Context, opts *eth2api.AttesterDutiesOpts) (*eth2api.Response[[]*eth2v1.AttesterDuty], error) {
	if err := b.enter("attester"); err != nil {
		b.record("attester", opts.Epoch, false)
		return nil, err
	}
	b.record("attester", opts.Epoch, true)
	b.mu.Lock()
	defer b.mu.Unlock()
	var out []*eth2v1.AttesterDuty
	w := want(opts.Indices)
	if b.LeakForeign {
		w = want(nil)
	}
	var keys []eth2p0.ValidatorIndex
	for k := range b.duties.Att[opts.Epoch] {
		keys = append(keys, k)
	}
	sort.Slice(keys, func(i, j int) bool { return keys[i] < keys[j] })
	for _, k := range keys {
		if w(k) {
			d := b.duties.Att[opts.Epoch][k]
			out = append(out, &d)
		}
	}
	return &eth2api.Response[[]*eth2v1.AttesterDuty]{Data: out, Metadata: map[string]any{"epoch": uint64(opts.Epoch)}}, nil
}

// AttestationData answers with data that is a pure function of (slot, committee index).
func (b *BN) AttestationData(_ context.Context, opts *eth2api.AttestationDataOpts) (*eth2api.Response[*eth2p0.AttestationData], error) {
	if err := b.enter("attestation_data"); err != nil {
		return nil, err
	}
	var root, src, tgt eth2p0.Root
	root[0], root[1], root[2] = byte(opts.Slot), byte(opts.Slot>>8), 0xad
	src[0], tgt[0] = 0x51, 0x7a
	epoch := eth2p0.Epoch(uint64(opts.Slot) / b.SPE)
	var srcEpoch eth2p0.Epoch
	if epoch > 0 {
		srcEpoch = epoch - 1
	}
	return &eth2api.Response[*eth2p0.AttestationData]{Data: &eth2p0.AttestationData{
		Slot: opts.Slot, Index: opts.CommitteeIndex, BeaconBlockRoot: root,
		Source: &eth2p0.Checkpoint{Epoch: srcEpoch, Root: src}, Target: &eth2p0.Checkpoint{Epoch: epoch, Root: tgt},
	}}, nil
}

func (b *BN) ProposerDuties(ctx context.Context, opts *eth2api.ProposerDutiesOpts) (*eth2api.Response[[]*eth2v1.ProposerDuty], error) {
	resp, err := b.proposerDuties(ctx, opts)
	if h := b.AfterAnswer; h != nil && err == nil {
		h("proposer", opts.Epoch)
	}
	return resp, err
}

func (b *BN) proposerDuties(_ context.Context, opts *eth2api.ProposerDutiesOpts) (*eth2api.Response[[]*eth2v1.ProposerDuty], error) {
	if err := b.enter("proposer"); err != nil {
		b.record("proposer", opts.Epoch, false)
		return nil, err
	}
	b.record("proposer", opts.Epoch, true)
	b.mu.Lock()
	defer b.mu.Unlock()
	var out []*eth2v1.ProposerDuty
	w := want(opts.Indices)
	if b.LeakForeign {
		w = want(nil)
	}
	for _, d := range b.duties.Pro[opts.Epoch] {
		if w(d.ValidatorIndex) {
			c := d
			out = append(out, &c)
		}
	}
	return &eth2api.Response[[]*eth2v1.ProposerDuty]{Data: out, Metadata: map[string]any{"epoch": uint64(opts.Epoch)}}, nil
}

func (b *BN) SyncCommitteeDuties(ctx context.Context, opts *eth2api.SyncCommitteeDutiesOpts) (*eth2api.Response[[]*eth2v1.SyncCommitteeDuty], error) {
	resp, err := b.syncCommitteeDuties(ctx, opts)
	if h := b.AfterAnswer; h != nil && err == nil {
		h("sync", opts.Epoch)
	}
	return resp, err
}

func (b *BN) syncCommitteeDuties(_ context.Context, opts *eth2api.SyncCommitteeDutiesOpts) (*eth2api.Response[[]*eth2v1.SyncCommitteeDuty], error) {
	if err := b.enter("sync"); err != nil {
		b.record("sync", opts.Epoch, false)
		return nil, err
	}
	b.record("sync", opts.Epoch, true)
	b.mu.Lock()
	defer b.mu.Unlock()
	var out []*eth2v1.SyncCommitteeDuty
	w := want(opts.Indices)
	var keys []eth2p0.ValidatorIndex
	for k := range b.duties.Sync[opts.Epoch] {
		keys = append(keys, k)
	}
	sort.Slice(keys, func(i, j int) bool { return keys[i] < keys[j] })
	for _, k := range keys {
		if w(k) {
			d := b.duties.Sync[opts.Epoch][k]
			d.ValidatorSyncCommitteeIndices = append([]eth2p0.CommitteeIndex{}, d.ValidatorSyncCommitteeIndices...)
			out = append(out, &d)
		}
	}
	return &eth2api.Response[[]*eth2v1.SyncCommitteeDuty]{Data: out, Metadata: map[string]any{"epoch": uint64(opts.Epoch)}}, nil
}

// ---- scheduler support (C15)

// ValInfo scripts one validator's life cycle.
type ValInfo struct {
	PubKey          eth2p0.BLSPubKey
	ActivationEpoch eth2p0.Epoch
	ExitEpoch       eth2p0.Epoch // first epoch in which it is no longer active
}

// CallRecord is one duty-resolution call with its outcome.
type CallRecord struct {
	Endpoint string
	Epoch    eth2p0.Epoch
	At       time.Time
	OK       bool
}

func (b *BN) SetValInfos(v map[eth2p0.ValidatorIndex]ValInfo) {
	b.mu.Lock()
	b.infos = v
	b.mu.Unlock()
}

func (b *BN) epochNow() eth2p0.Epoch {
	if time.Now().Before(b.GenesisTime) {
		return 0
	}
	return eth2p0.Epoch(uint64(time.Since(b.GenesisTime)/b.SlotDur) / b.SPE)
}

func (b *BN) NodeSyncing(context.Context, *eth2api.NodeSyncingOpts) (*eth2api.Response[*eth2v1.SyncState], error) {
	return &eth2api.Response[*eth2v1.SyncState]{Data: &eth2v1.SyncState{IsSyncing: false}}, nil
}

// CompleteValidators reports every cluster validator with the status it has at the current (virtual) time.
func (b *BN) CompleteValidators(context.Context) (eth2wrap.CompleteValidators, error) {
	if err := b.enter("validators"); err != nil {
		b.record("validators", 0, false)
		return nil, err
	}
	b.record("validators", 0, true)
	now := b.epochNow()
	b.mu.Lock()
	defer b.mu.Unlock()
	out := eth2wrap.CompleteValidators{}
	for idx, info := range b.infos {
		st := eth2v1.ValidatorStateActiveOngoing
		switch {
		case now < info.ActivationEpoch:
			st = eth2v1.ValidatorStatePendingQueued
		case now >= info.ExitEpoch:
			st = eth2v1.ValidatorStateExitedUnslashed
		}
		out[idx] = &eth2v1.Validator{Index: idx, Balance: 32000000000, Status: st, Validator: &eth2p0.Validator{PublicKey: info.PubKey, ActivationEpoch: info.ActivationEpoch, ExitEpoch: info.ExitEpoch, EffectiveBalance: 32000000000, WithdrawalCredentials: make([]byte, 32)}}
	}
	return out, nil
}

func (b *BN) record(endpoint string, epoch eth2p0.Epoch, ok bool) {
	b.mu.Lock()
	b.Records = append(b.Records, CallRecord{endpoint, epoch, time.Now(), ok})
	b.mu.Unlock()
}

// SetDutiesCache / *DutiesCache mirror the production client wrappers: the scheduler asks the
// client, the client asks the registered (real) DutiesCache.
func (b *BN) SetDutiesCache(p func(context.Context, eth2p0.Epoch, []eth2p0.ValidatorIndex) (eth2wrap.ProposerDutyWithMeta, error),
	a func(context.Context, eth2p0.Epoch, []eth2p0.ValidatorIndex) (eth2wrap.AttesterDutyWithMeta, error),
	s func(context.Context, eth2p0.Epoch, []eth2p0.ValidatorIndex) (eth2wrap.SyncDutyWithMeta, error)) {
	b.proCache, b.attCache, b.syncCache = p, a, s
}

func (b *BN) ProposerDutiesCache(ctx context.Context, e eth2p0.Epoch, idx []eth2p0.ValidatorIndex) (eth2wrap.ProposerDutyWithMeta, error) {
	r, err := b.proCache(ctx, e, idx)
	return r, err
}

func (b *BN) AttesterDutiesCache(ctx context.Context, e eth2p0.Epoch, idx []eth2p0.ValidatorIndex) (eth2wrap.AttesterDutyWithMeta, error) {
	return b.attCache(ctx, e, idx)
}

func (b *BN) SyncCommDutiesCache(ctx context.Context, e eth2p0.Epoch, idx []eth2p0.ValidatorIndex) (eth2wrap.SyncDutyWithMeta, error) {
	return b.syncCache(ctx, e, idx)
}
