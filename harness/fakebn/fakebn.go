// Package fakebn is a scripted beacon node: a struct embedding a nil eth2wrap.Client that
// implements only what the components under test call (Genesis, Spec, Domain, GenesisDomain, ...).
// Anything else panics, so a silent wrong default is impossible. Domains are computed with the
// consensus-spec compute_domain over the fake node's own fork schedule.
package fakebn

import (
	"context"
	"sort"
	"sync"
	"time"

	eth2api "github.com/attestantio/go-eth2-client/api"
	eth2v1 "github.com/attestantio/go-eth2-client/api/v1"
	eth2p0 "github.com/attestantio/go-eth2-client/spec/phase0"

	"github.com/obolnetwork/charon/app/eth2wrap"
)

type Fork struct {
	Name    string
	Version eth2p0.Version
	Epoch   eth2p0.Epoch
}

// DomainTypes are the consensus-spec domain type constants.
var DomainTypes = map[string]eth2p0.DomainType{
	"DOMAIN_BEACON_PROPOSER":                {0, 0, 0, 0},
	"DOMAIN_BEACON_ATTESTER":                {1, 0, 0, 0},
	"DOMAIN_RANDAO":                         {2, 0, 0, 0},
	"DOMAIN_DEPOSIT":                        {3, 0, 0, 0},
	"DOMAIN_VOLUNTARY_EXIT":                 {4, 0, 0, 0},
	"DOMAIN_SELECTION_PROOF":                {5, 0, 0, 0},
	"DOMAIN_AGGREGATE_AND_PROOF":            {6, 0, 0, 0},
	"DOMAIN_SYNC_COMMITTEE":                 {7, 0, 0, 0},
	"DOMAIN_SYNC_COMMITTEE_SELECTION_PROOF": {8, 0, 0, 0},
	"DOMAIN_CONTRIBUTION_AND_PROOF":         {9, 0, 0, 0},
	"DOMAIN_APPLICATION_BUILDER":            {0, 0, 0, 1},
}

type BN struct {
	eth2wrap.Client // nil

	GenesisTime           time.Time
	GenesisValidatorsRoot eth2p0.Root
	SlotDur               time.Duration
	SPE                   uint64
	Forks                 []Fork // ascending epochs, first at epoch 0

	mu    sync.Mutex
	Calls []string
	vals  map[eth2p0.ValidatorIndex]eth2p0.BLSPubKey
}

// New returns a fake node whose fork epochs are spread over the whole epoch range, so that
// objects with arbitrary 64-bit slots fall into every fork.
func New() *BN {
	b := &BN{GenesisTime: time.Unix(1_600_000_000, 0), SlotDur: 12 * time.Second, SPE: 32}
	b.GenesisValidatorsRoot[0], b.GenesisValidatorsRoot[31] = 0x42, 0x24
	names := []string{"phase0", "altair", "bellatrix", "capella", "deneb", "electra", "fulu"}
	maxEpoch := ^uint64(0) / b.SPE
	for i, n := range names {
		b.Forks = append(b.Forks, Fork{Name: n, Version: eth2p0.Version{0xaa, 0, 0, byte(i)}, Epoch: eth2p0.Epoch(maxEpoch / uint64(len(names)) * uint64(i))})
	}
	return b
}

// NewCompact returns a fake node with small fork epochs (0,2,4,..) for slot-driven tests.
func NewCompact(genesis time.Time, slotDuration time.Duration, slotsPerEpoch uint64) *BN {
	b := New()
	b.GenesisTime, b.SlotDur, b.SPE = genesis, slotDuration, slotsPerEpoch
	for i := range b.Forks {
		b.Forks[i].Epoch = eth2p0.Epoch(2 * i)
	}
	return b
}

func (b *BN) log(s string) {
	b.mu.Lock()
	b.Calls = append(b.Calls, s)
	b.mu.Unlock()
}

func (b *BN) ForkAt(epoch eth2p0.Epoch) Fork {
	i := sort.Search(len(b.Forks), func(i int) bool { return b.Forks[i].Epoch > epoch }) - 1
	if i < 0 {
		i = 0
	}
	return b.Forks[i]
}

func (b *BN) ForkByName(name string) Fork {
	for _, f := range b.Forks {
		if f.Name == name {
			return f
		}
	}
	panic("HARNESS-ERROR: unknown fork " + name)
}

// ComputeDomain is the consensus-spec compute_domain.
func ComputeDomain(domainType eth2p0.DomainType, forkVersion eth2p0.Version, genesisValidatorsRoot eth2p0.Root) eth2p0.Domain {
	fd := eth2p0.ForkData{CurrentVersion: forkVersion, GenesisValidatorsRoot: genesisValidatorsRoot}
	root, err := fd.HashTreeRoot()
	if err != nil {
		panic("HARNESS-ERROR: fork data root: " + err.Error())
	}
	var d eth2p0.Domain
	copy(d[:4], domainType[:])
	copy(d[4:], root[:28])
	return d
}

func (b *BN) Genesis(context.Context, *eth2api.GenesisOpts) (*eth2api.Response[*eth2v1.Genesis], error) {
	return &eth2api.Response[*eth2v1.Genesis]{Data: &eth2v1.Genesis{GenesisTime: b.GenesisTime, GenesisValidatorsRoot: b.GenesisValidatorsRoot, GenesisForkVersion: b.Forks[0].Version}}, nil
}

func (b *BN) Spec(context.Context, *eth2api.SpecOpts) (*eth2api.Response[map[string]any], error) {
	m := map[string]any{"SECONDS_PER_SLOT": b.SlotDur, "SLOTS_PER_EPOCH": b.SPE}
	for k, v := range DomainTypes {
		m[k] = v
	}
	for _, f := range b.Forks[1:] {
		m[upper(f.Name)+"_FORK_VERSION"] = f.Version
		m[upper(f.Name)+"_FORK_EPOCH"] = uint64(f.Epoch)
	}
	m["GENESIS_FORK_VERSION"] = b.Forks[0].Version
	return &eth2api.Response[map[string]any]{Data: m}, nil
}

func upper(s string) string {
	out := []byte(s)
	for i, c := range out {
		if c >= 'a' && c <= 'z' {
			out[i] = c - 32
		}
	}
	return string(out)
}

// Domain answers like production's httpAdapter: the voluntary-exit domain is always computed with
// the Capella fork version (EIP-7044), every other domain with the fork version of the epoch.
func (b *BN) Domain(_ context.Context, domainType eth2p0.DomainType, epoch eth2p0.Epoch) (eth2p0.Domain, error) {
	b.log("Domain")
	if domainType == DomainTypes["DOMAIN_VOLUNTARY_EXIT"] {
		return ComputeDomain(domainType, b.ForkByName("capella").Version, b.GenesisValidatorsRoot), nil
	}
	return ComputeDomain(domainType, b.ForkAt(epoch).Version, b.GenesisValidatorsRoot), nil
}

// GenesisDomain: genesis fork version and the zero validators root (builder domain, deposits).
func (b *BN) GenesisDomain(_ context.Context, domainType eth2p0.DomainType) (eth2p0.Domain, error) {
	b.log("GenesisDomain")
	return ComputeDomain(domainType, b.Forks[0].Version, eth2p0.Root{}), nil
}

func (b *BN) Name() string    { return "fakebn" }
func (b *BN) Address() string { return "fakebn" }
func (b *BN) IsActive() bool  { return true }
func (b *BN) IsSynced() bool  { return true }

// Vals is the scripted active validator set (index -> group public key).
func (b *BN) SetValidators(v map[eth2p0.ValidatorIndex]eth2p0.BLSPubKey) {
	b.mu.Lock()
	b.vals = v
	b.mu.Unlock()
}

func (b *BN) ActiveValidators(context.Context) (eth2wrap.ActiveValidators, error) {
	b.mu.Lock()
	defer b.mu.Unlock()
	out := eth2wrap.ActiveValidators{}
	for k, v := range b.vals {
		out[k] = v
	}
	return out, nil
}
