package qbft

import (
	"context"
	"fmt"
	"testing"

	"google.golang.org/protobuf/proto"

	"github.com/obolnetwork/charon/core"
	pbv1 "github.com/obolnetwork/charon/core/corepb/v1"
	"github.com/obolnetwork/charon/zzverif/vstat"
)

// FuzzC05Handle is the coverage-guided, byte-level companion of TestC05Handle (thorough tier only).
// The corpus starts from valid wire messages of every shape; the fuzzer mutates the bytes. Since
// nobody can forge a member's signature, a message that the production handler accepts may only
// consist of signed parts (top-level message, justifications) that the harness itself signed, all
// for one duty, and every value hash it mentions must be the consensus hash of an attached value;
// a rejected message must leave no instance and no buffered message behind.
func FuzzC05Handle(f *testing.F) {
	vstat.Rule("C05", "native fuzzing: coverage-guided mutations of the bytes of valid wire messages of every shape; oracle: an accepted message consists only of parts the harness signed, for one duty, with every referenced value attached; a rejected one touches no state; non-trivial = the bytes parse as a wire message")
	ctx := context.Background()
	ns := []int{3, 4, 6}
	universe := map[int]map[string]bool{}
	// A part is identified by its signed content (the known fields without the signature): a signature
	// cannot be forged, so an accepted part's content must be one the harness signed under that member's
	// key; the signature bytes themselves may differ (ECDSA signatures are malleable: (r, n-s) with the
	// recovery bit flipped is an equally valid signature of the same member over the same content).
	det := func(m *pbv1.QBFTMsg) string {
		c := &pbv1.QBFTMsg{Type: m.GetType(), PeerIdx: m.GetPeerIdx(), Round: m.GetRound(), PreparedRound: m.GetPreparedRound(),
			ValueHash: m.GetValueHash(), PreparedValueHash: m.GetPreparedValueHash()}
		if m.GetDuty() != nil {
			c.Duty = &pbv1.Duty{Slot: m.GetDuty().GetSlot(), Type: m.GetDuty().GetType()}
		}
		b, err := proto.MarshalOptions{Deterministic: true}.Marshal(c)
		if err != nil {
			return "ERR"
		}
		return string(b)
	}
	duties := []core.Duty{{Slot: 3, Type: core.DutyAttester}, {Slot: 4, Type: core.DutyProposer}}
	for ni, n := range ns {
		universe[n] = map[string]bool{}
		for _, shape := range shapes {
			for _, duty := range duties {
				for sender := int64(0); sender < int64(n); sender++ {
					b := buildBase(shape, n, duty, sender)
					universe[n][det(b.msg.GetMsg())] = true
					for _, j := range b.msg.GetJustification() {
						universe[n][det(j)] = true
					}
					if sender == 0 {
						raw, _ := proto.Marshal(b.msg)
						f.Add(raw, uint8(ni))
					}
				}
			}
		}
	}
	f.Fuzz(func(t *testing.T, raw []byte, sel uint8) {
		n := ns[int(sel)%len(ns)]
		m := new(pbv1.QBFTConsensusMsg)
		if err := proto.Unmarshal(raw, m); err != nil {
			vstat.Case("", false, "fuzz_unparseable")
			return
		}
		c, _ := newConsensusForHandle(n)
		var herr error
		func() {
			defer func() {
				if r := recover(); r != nil {
					t.Fatalf("PANIC in handle: %v\ninput %q", r, raw)
				}
			}()
			_, _, herr = c.handle(ctx, "peer", m)
		}()
		inst, buf := bufState(c)
		if herr != nil {
			if inst != 0 || buf != 0 {
				t.Fatalf("STATE TOUCHED: rejected message (err %v) left instances=%d buffered=%d\ninput %q", herr, inst, buf, raw)
			}
			vstat.Case(fmt.Sprintf("fz/%x", raw), true, "fuzz_rejected")
			return
		}
		// accepted
		parts := append([]*pbv1.QBFTMsg{m.GetMsg()}, m.GetJustification()...)
		hashes := map[string]bool{}
		for _, v := range m.GetValues() {
			inner, err := v.UnmarshalNew()
			if err != nil {
				continue
			}
			if h, err := hashProto(inner); err == nil {
				hashes[string(h[:])] = true
			}
		}
		for i, p := range parts {
			if p == nil {
				t.Fatalf("ACCEPTED a message with a nil part %d\ninput %q", i, raw)
			}
			if !universe[n][det(p)] {
				t.Fatalf("ACCEPTED a part whose content nobody signed (part %d: %v)\ninput %q", i, p, raw)
			}
			if !proto.Equal(p.GetDuty(), m.GetMsg().GetDuty()) {
				t.Fatalf("ACCEPTED a justification for another duty (part %d: %v vs %v)\ninput %q", i, p.GetDuty(), m.GetMsg().GetDuty(), raw)
			}
			for _, h := range [][]byte{p.GetValueHash(), p.GetPreparedValueHash()} {
				if len(h) == 32 && string(h) != string(zero32) && !hashes[string(h)] {
					t.Fatalf("ACCEPTED a message that references a value which is not attached (part %d)\ninput %q", i, raw)
				}
			}
		}
		vstat.Case(fmt.Sprintf("fz/%x", raw), true, "fuzz_accepted")
	})
}
