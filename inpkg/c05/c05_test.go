// C05 — consensus acts only on authentic, well-formed peer messages. (in-package overlay test of
// core/consensus/qbft; references only identifiers the package's own tests use: handle, signMsg,
// hashProto and the Consensus fields pubkeys / deadliner / gaterFunc / mutable.instances)
package qbft

import (
	"bytes"
	"context"
	"crypto/sha256"
	"fmt"
	"github.com/decred/dcrd/dcrec/secp256k1/v4/ecdsa"
	"github.com/libp2p/go-libp2p/core/peer"
	"github.com/obolnetwork/charon/p2p"
	"github.com/obolnetwork/charon/zzverif/fakebn"
	"github.com/obolnetwork/charon/zzverif/memnet"
	"sort"
	"strings"
	"sync"
	"testing"
	"time"

	eth2v1 "github.com/attestantio/go-eth2-client/api/v1"
	eth2p0 "github.com/attestantio/go-eth2-client/spec/phase0"
	k1 "github.com/decred/dcrd/dcrec/secp256k1/v4"
	"google.golang.org/protobuf/proto"
	"google.golang.org/protobuf/types/known/anypb"
	"pgregory.net/rapid"

	"github.com/obolnetwork/charon/core"
	"github.com/obolnetwork/charon/core/consensus/instance"
	pbv1 "github.com/obolnetwork/charon/core/corepb/v1"
	"github.com/obolnetwork/charon/core/qbft"
	"github.com/obolnetwork/charon/zzverif/vstat"
)

func TestMain(m *testing.M) { vstat.Main(m) }

const ruleC05 = "valid wire messages of every type built and signed with the package's own signMsg (PRE-PREPARE with ROUND-CHANGE+PREPARE justification, ROUND-CHANGE with PREPARE certificate, DECIDED with COMMITs, n in {3,4,6}); one drawn alteration: any leaf of QBFTMsg at top level or inside a justification (type, duty.slot, duty.type, peer_idx, round, prepared_round, value_hash, prepared_value_hash, signature) x {+1, bit flip, swap with sibling}, validly re-signed rule violations (foreign duty justification, wrong signer, bad type/round/peer index, missing referenced value, count limits, gated or expired duty, nil parts), bytes / type URL of a referenced value, arbitrary bytes; " +
	"oracle: unaltered -> nil and the duty's receive buffer grows by exactly one; altered -> error, no receive buffer and no instance created, no panic; non-trivial = altered message that still parses as QBFTConsensusMsg; distinct by (shape, nesting level, field, kind)"

type fakeDeadliner struct {
	expired map[core.Duty]bool
	ch      chan core.Duty
}

func (d *fakeDeadliner) Add(duty core.Duty) core.DeadlineStatus {
	if d.expired[duty] {
		return core.DeadlineExpired
	}
	if duty.Type == core.DutyExit || duty.Type == core.DutyBuilderRegistration {
		return core.DeadlineExempt
	}
	return core.DeadlineScheduled
}
func (d *fakeDeadliner) C() <-chan core.Duty { return d.ch }

var keyCache = map[int][]*k1.PrivateKey{}

func keysFor(n int) []*k1.PrivateKey {
	if ks, ok := keyCache[n]; ok {
		return ks
	}
	var ks []*k1.PrivateKey
	for i := 0; i < n; i++ {
		h := sha256.Sum256([]byte(fmt.Sprintf("verif-c05-key-%d-%d", n, i)))
		ks = append(ks, k1.PrivKeyFromBytes(h[:]))
	}
	keyCache[n] = ks
	return ks
}

var (
	gaterOnce sync.Once
	gaterFn   core.DutyGaterFunc
	gaterBN   *fakebn.BN
)

// productionGater is core.NewDutyGater over the scripted beacon node with the clock fixed at slot 100
// (2 future epochs allowed): the component's real notion of "allowed duty".
func productionGater() core.DutyGaterFunc {
	gaterOnce.Do(func() {
		gaterBN = fakebn.New()
		now := gaterBN.GenesisTime.Add(100 * gaterBN.SlotDur)
		g, err := core.NewDutyGater(context.Background(), gaterBN, core.WithDutyGaterForT(&testing.T{}, func() time.Time { return now }, 2))
		if err != nil {
			panic("HARNESS-ERROR: gater: " + err.Error())
		}
		gaterFn = g
	})
	return gaterFn
}

// firstGatedSlot is the first slot beyond the gater's window.
func firstGatedSlot() uint64 {
	productionGater()
	return (100/gaterBN.SPE + 3) * gaterBN.SPE
}

var peersCache = map[int][]p2p.Peer{}

func peersFor(n int) []p2p.Peer {
	if ps, ok := peersCache[n]; ok {
		return ps
	}
	var ps []p2p.Peer
	for i, k := range keysFor(n) {
		id, err := p2p.PeerIDFromKey(k.PubKey())
		if err != nil {
			panic("HARNESS-ERROR: peer id: " + err.Error())
		}
		ps = append(ps, p2p.Peer{ID: id, Index: i, Name: fmt.Sprintf("node%d", i)})
	}
	peersCache[n] = ps
	return ps
}

// newConsensusForHandle builds member 0's component with the production constructor (it is never started: only its
// receive handler is called), so that everything the handler may consult (peers, keys, gater, deadliner) is set
// as in production.
func newConsensusForHandle(n int) (*Consensus, *fakeDeadliner) {
	dl := &fakeDeadliner{expired: map[core.Duty]bool{}, ch: make(chan core.Duty)}
	gater := productionGater()
	peers := peersFor(n)
	c, err := NewConsensus(context.Background(), gaterBN, memnet.New().Host(peers[0].ID), new(p2p.Sender), peers, keysFor(n)[0], dl, gater, func(*pbv1.SniffedConsensusInstance) {}, false)
	if err != nil {
		panic("HARNESS-ERROR: NewConsensus: " + err.Error())
	}
	if c.mutable.instances == nil {
		c.mutable.instances = make(map[core.Duty]*instance.IO[Msg])
	}
	return c, dl
}

// senderOf draws the transport-level sender of a frame: somebody outside the cluster, the member the message
// names as its source, or another member (a relayed / replayed frame).
func senderOf(rt *rapid.T, n int, m *pbv1.QBFTConsensusMsg) peer.ID {
	peers := peersFor(n)
	switch rapid.IntRange(0, 3).Draw(rt, "transportSender") {
	case 0:
		return "peer"
	case 1, 2:
		if idx := m.GetMsg().GetPeerIdx(); idx >= 0 && int(idx) < n {
			return peers[idx].ID
		}
		return "peer"
	default:
		return peers[rapid.IntRange(0, n-1).Draw(rt, "senderMember")].ID
	}
}

func bufState(c *Consensus) (instances int, buffered int) {
	c.mutable.Lock()
	defer c.mutable.Unlock()
	for _, inst := range c.mutable.instances {
		instances++
		buffered += len(inst.RecvBuffer)
	}
	return
}

// value builds a proposal value (an UnsignedDataSet proto wrapped in Any) and its consensus hash.
func value(variant byte) (*anypb.Any, [32]byte) {
	var root eth2p0.Root
	root[0] = variant
	set := core.UnsignedDataSet{
		core.PubKey("0x" + fmt.Sprintf("%096x", int(variant))): core.AttestationData{
			Data: eth2p0.AttestationData{Slot: 7, Index: 1, BeaconBlockRoot: root, Source: &eth2p0.Checkpoint{Epoch: 1}, Target: &eth2p0.Checkpoint{Epoch: 2}},
			Duty: eth2v1.AttesterDuty{Slot: 7, ValidatorIndex: 3, CommitteeIndex: 1, CommitteeLength: 8, CommitteesAtSlot: 2},
		},
	}
	pb, err := core.UnsignedDataSetToProto(set)
	if err != nil {
		panic("HARNESS-ERROR: " + err.Error())
	}
	h, err := hashProto(pb)
	if err != nil {
		panic("HARNESS-ERROR: " + err.Error())
	}
	a, err := anypb.New(pb)
	if err != nil {
		panic("HARNESS-ERROR: " + err.Error())
	}
	return a, h
}

func signed(typ qbft.MsgType, duty core.Duty, peer int64, round int64, vh []byte, pr int64, pvh []byte, key *k1.PrivateKey) *pbv1.QBFTMsg {
	m := &pbv1.QBFTMsg{Type: int64(typ), Duty: core.DutyToProto(duty), PeerIdx: peer, Round: round, ValueHash: vh, PreparedRound: pr, PreparedValueHash: pvh}
	s, err := signMsg(m, key)
	if err != nil {
		panic("HARNESS-ERROR: " + err.Error())
	}
	return s
}

func resign(m *pbv1.QBFTMsg, key *k1.PrivateKey) *pbv1.QBFTMsg {
	s, err := signMsg(m, key)
	if err != nil {
		panic("HARNESS-ERROR: " + err.Error())
	}
	return s
}

type base struct {
	shape string
	n     int
	duty  core.Duty
	msg   *pbv1.QBFTConsensusMsg
}

var zero32 = make([]byte, 32)

func quorum(n int) int { return (2*n + 2) / 3 }

// buildBase returns a valid wire message of the requested shape.
func buildBase(shape string, n int, duty core.Duty, sender int64) base {
	keys := keysFor(n)
	vA, hA := value('a')
	vB, hB := value('b')
	q := quorum(n)
	var msg *pbv1.QBFTMsg
	var just []*pbv1.QBFTMsg
	var values []*anypb.Any
	switch shape {
	case "preprepare_r1":
		msg = signed(qbft.MsgPrePrepare, duty, sender, 1, hA[:], 0, zero32, keys[sender])
		values = []*anypb.Any{vA}
	case "prepare":
		msg = signed(qbft.MsgPrepare, duty, sender, 2, hA[:], 0, zero32, keys[sender])
		values = []*anypb.Any{vA}
	case "commit":
		msg = signed(qbft.MsgCommit, duty, sender, 1, hB[:], 0, zero32, keys[sender])
		values = []*anypb.Any{vB}
	case "roundchange_null":
		msg = signed(qbft.MsgRoundChange, duty, sender, 2, zero32, 0, zero32, keys[sender])
	case "roundchange_prepared":
		msg = signed(qbft.MsgRoundChange, duty, sender, 3, zero32, 2, hA[:], keys[sender])
		for i := 0; i < q; i++ {
			just = append(just, signed(qbft.MsgPrepare, duty, int64(i), 2, hA[:], 0, zero32, keys[i]))
		}
		values = []*anypb.Any{vA}
	case "roundchange_prepared_bare": // well-formed on the wire (whether it is justified is for the algorithm to decide)
		msg = signed(qbft.MsgRoundChange, duty, sender, 3, zero32, 2, hB[:], keys[sender])
		values = []*anypb.Any{vB}
	case "preprepare_justified":
		msg = signed(qbft.MsgPrePrepare, duty, sender, 3, hA[:], 0, zero32, keys[sender])
		for i := 0; i < q; i++ {
			if i == 0 {
				just = append(just, signed(qbft.MsgRoundChange, duty, int64(i), 3, zero32, 2, hA[:], keys[i]))
			} else {
				just = append(just, signed(qbft.MsgRoundChange, duty, int64(i), 3, zero32, 0, zero32, keys[i]))
			}
		}
		for i := 0; i < q; i++ {
			just = append(just, signed(qbft.MsgPrepare, duty, int64(i), 2, hA[:], 0, zero32, keys[i]))
		}
		values = []*anypb.Any{vA}
	case "prepare_carrying_prepares", "commit_carrying_commits":
		// message types that need no justification may still carry sub-messages: the state machine counts every
		// buffered sub-message as its author's vote, so they are checked like any other (honest members do not send
		// these; validly signed, they are well-formed)
		typ := qbft.MsgPrepare
		if shape == "commit_carrying_commits" {
			typ = qbft.MsgCommit
		}
		msg = signed(typ, duty, sender, 2, hA[:], 0, zero32, keys[sender])
		for i := 0; i < q; i++ {
			if int64(i) != sender {
				just = append(just, signed(typ, duty, int64(i), 2, hA[:], 0, zero32, keys[i]))
			}
		}
		values = []*anypb.Any{vA}
	case "decided":
		msg = signed(qbft.MsgDecided, duty, sender, 2, hB[:], 0, zero32, keys[sender])
		for i := 0; i < q; i++ {
			just = append(just, signed(qbft.MsgCommit, duty, int64(i), 2, hB[:], 0, zero32, keys[i]))
		}
		values = []*anypb.Any{vB}
	default:
		panic("HARNESS-ERROR: shape " + shape)
	}
	return base{shape: shape, n: n, duty: duty, msg: &pbv1.QBFTConsensusMsg{Msg: msg, Justification: just, Values: values}}
}

var shapes = []string{"preprepare_r1", "prepare", "commit", "roundchange_null", "roundchange_prepared", "roundchange_prepared_bare", "preprepare_justified", "decided", "prepare_carrying_prepares", "commit_carrying_commits"}
var leafFields = []string{"type", "duty.slot", "duty.type", "peer_idx", "round", "prepared_round", "value_hash", "prepared_value_hash", "signature"}
var leafKinds = []string{"plus1", "bitflip", "swap"}

// alterLeaf changes one leaf of m in place (no re-signing). It reports false if the alteration
// would leave the message unchanged.
func alterLeaf(m *pbv1.QBFTMsg, field, kind string, n int, bit int) bool {
	flip := func(b []byte) ([]byte, bool) {
		if len(b) == 0 {
			return []byte{1}, true
		}
		c := append([]byte{}, b...)
		c[bit%len(c)] ^= 1 << uint(bit%8)
		return c, true
	}
	switch field {
	case "type":
		switch kind {
		case "plus1":
			m.Type++
		case "bitflip":
			m.Type ^= 1 << uint(bit%3)
		default:
			m.Type, m.Round = m.Round, m.Type
			return m.Type != m.Round
		}
	case "duty.slot":
		switch kind {
		case "plus1":
			m.Duty.Slot++
		case "bitflip":
			m.Duty.Slot ^= 1 << uint(bit%9)
		default:
			old := m.Duty.Slot
			m.Duty.Slot = uint64(m.Duty.Type)
			m.Duty.Type = int32(old)
			return m.Duty.Slot != old
		}
	case "duty.type":
		switch kind {
		case "plus1":
			m.Duty.Type++
		case "bitflip":
			m.Duty.Type ^= 1 << uint(bit%4)
		default:
			old := m.Duty.Type
			m.Duty.Type = int32(core.DutyProposer)
			if old == m.Duty.Type {
				m.Duty.Type = int32(core.DutyAttester)
			}
		}
	case "peer_idx":
		switch kind {
		case "plus1":
			m.PeerIdx = (m.PeerIdx + 1) % int64(n)
		case "bitflip":
			m.PeerIdx ^= 1 << uint(bit%3)
		default:
			old := m.PeerIdx
			m.PeerIdx = m.Round % int64(n)
			return old != m.PeerIdx
		}
	case "round":
		switch kind {
		case "plus1":
			m.Round++
		case "bitflip":
			m.Round ^= 1 << uint(bit%4)
		default:
			old := m.Round
			m.Round, m.PreparedRound = m.PreparedRound, m.Round
			return old != m.Round
		}
	case "prepared_round":
		switch kind {
		case "plus1":
			m.PreparedRound++
		case "bitflip":
			m.PreparedRound ^= 1 << uint(bit%4)
		default:
			old := m.PreparedRound
			m.PreparedRound = m.PeerIdx + 1
			return old != m.PreparedRound
		}
	case "value_hash":
		switch kind {
		case "plus1":
			c := append([]byte{}, m.ValueHash...)
			if len(c) == 0 {
				c = make([]byte, 32)
			}
			c[len(c)-1]++
			m.ValueHash = c
		case "bitflip":
			m.ValueHash, _ = flip(m.ValueHash)
		default:
			if string(m.ValueHash) == string(m.PreparedValueHash) {
				return false
			}
			m.ValueHash, m.PreparedValueHash = m.PreparedValueHash, m.ValueHash
		}
	case "prepared_value_hash":
		switch kind {
		case "plus1":
			c := append([]byte{}, m.PreparedValueHash...)
			if len(c) == 0 {
				c = make([]byte, 32)
			}
			c[len(c)-1]++
			m.PreparedValueHash = c
		case "bitflip":
			m.PreparedValueHash, _ = flip(m.PreparedValueHash)
		default:
			_, h := value('b')
			if string(m.PreparedValueHash) == string(h[:]) {
				return false
			}
			m.PreparedValueHash = h[:]
		}
	case "signature":
		switch kind {
		case "plus1":
			c := append([]byte{}, m.Signature...)
			c[10]++
			m.Signature = c
		case "bitflip":
			m.Signature, _ = flip(m.Signature)
		default:
			m.Signature = append([]byte{}, m.Signature[1:]...)
			m.Signature = append(m.Signature, 0)
		}
	}
	return true
}

func TestC05Handle(t *testing.T) {
	vstat.Rule("C05", ruleC05)
	vstat.Assume("a flipped value byte that decodes to a proto.Equal message is the same value and asserts nothing; ECDSA malleability is not generated")
	ctx := context.Background()
	rapid.Check(t, func(rt *rapid.T) {
		n := rapid.SampledFrom([]int{3, 4, 6}).Draw(rt, "n")
		shape := shapes[rapid.IntRange(0, len(shapes)-1).Draw(rt, "shape")]
		duty := core.Duty{Slot: uint64(rapid.IntRange(1, 50).Draw(rt, "slot")), Type: rapid.SampledFrom([]core.DutyType{core.DutyAttester, core.DutyProposer, core.DutyAggregator, core.DutySyncContribution}).Draw(rt, "dutyType")}
		sender := int64(rapid.IntRange(0, n-1).Draw(rt, "sender"))
		b := buildBase(shape, n, duty, sender)
		keys := keysFor(n)

		// positive control on a fresh component
		c, _ := newConsensusForHandle(n)
		_, _, err := c.handle(ctx, senderOf(rt, n, b.msg), proto.Clone(b.msg).(*pbv1.QBFTConsensusMsg))
		if err != nil {
			rt.Fatalf("valid %s message rejected: %v", shape, err)
		}
		if inst, buf := bufState(c); inst != 1 || buf != 1 || len(c.getRecvBufferForVerif(duty)) != 1 {
			rt.Fatalf("valid %s message: instances=%d buffered=%d, want 1/1", shape, inst, buf)
		}

		// one alteration on a fresh component
		c, dl := newConsensusForHandle(n)
		m := proto.Clone(b.msg).(*pbv1.QBFTConsensusMsg)
		kind := rapid.IntRange(0, 21).Draw(rt, "alteration")
		baseInst, baseBuf := 0, 0 // what the component holds before the message under test arrives
		level, field, how := "top", "", ""
		parses := true
		totalityOnly := false
		var raw []byte
		switch {
		case kind < 9: // leaf alteration without re-signing
			target := m.Msg
			if len(m.Justification) > 0 && rapid.Bool().Draw(rt, "nested") {
				j := rapid.IntRange(0, len(m.Justification)-1).Draw(rt, "just")
				target = m.Justification[j]
				level = "just"
			}
			field = leafFields[rapid.IntRange(0, len(leafFields)-1).Draw(rt, "field")]
			how = leafKinds[rapid.IntRange(0, 2).Draw(rt, "how")]
			if !alterLeaf(target, field, how, n, rapid.IntRange(0, 255).Draw(rt, "bit")) {
				rt.Skip("alteration is the identity")
			}
		case kind == 9: // validly signed justification for another duty
			if len(m.Justification) == 0 {
				rt.Skip("no justification")
			}
			j := rapid.IntRange(0, len(m.Justification)-1).Draw(rt, "just")
			other := proto.Clone(m.Justification[j]).(*pbv1.QBFTMsg)
			if rapid.Bool().Draw(rt, "slotOrType") {
				other.Duty.Slot++
			} else {
				other.Duty.Type = int32(core.DutyRandao)
			}
			m.Justification[j] = resign(other, keys[other.PeerIdx])
			level, field, how = "just", "duty", "resigned_other_duty"
		case kind == 10: // signed by another member than peer_idx claims
			target := &m.Msg
			if len(m.Justification) > 0 && rapid.Bool().Draw(rt, "nested") {
				target = &m.Justification[rapid.IntRange(0, len(m.Justification)-1).Draw(rt, "just")]
				level = "just"
			}
			wrong := ((*target).PeerIdx + 1 + int64(rapid.IntRange(0, n-2).Draw(rt, "wrongSigner"))) % int64(n)
			*target = resign(*target, keys[wrong])
			field, how = "signature", "resigned_wrong_signer"
		case kind == 11 && rapid.IntRange(0, 3).Draw(rt, "oddHash") == 0:
			// validly re-signed part (top level or a justification) whose value hash has an odd length
			// (1..31, 33..64 bytes). Whether such a message is taken or refused is not asserted — the member
			// did sign it — but receiving it must not crash the handler (it runs without recover).
			target := &m.Msg
			if len(m.Justification) > 0 && rapid.Bool().Draw(rt, "nested") {
				target = &m.Justification[rapid.IntRange(0, len(m.Justification)-1).Draw(rt, "just")]
				level = "just"
			}
			cl := proto.Clone(*target).(*pbv1.QBFTMsg)
			l := rapid.SampledFrom([]int{1, 2, 16, 31, 33, 48, 64}).Draw(rt, "hashLen")
			h := bytes.Repeat([]byte{0xab}, l)
			if rapid.Bool().Draw(rt, "preparedHash") {
				cl.PreparedValueHash = h
				if cl.PreparedRound == 0 {
					cl.PreparedRound = 1
				}
			} else {
				cl.ValueHash = h
			}
			*target = resign(cl, keys[cl.PeerIdx])
			field, how = "hash_length", fmt.Sprintf("resigned_hash_len_%d", l)
			totalityOnly = true
		case kind == 11: // validly signed but violating a field rule
			cl := proto.Clone(m.Msg).(*pbv1.QBFTMsg)
			how = rapid.SampledFrom([]string{"type0", "type6", "round0", "round_neg", "prepared_round_neg", "duty_type0", "duty_type_big", "peer_out_of_range"}).Draw(rt, "rule")
			signer := keys[cl.PeerIdx]
			switch how {
			case "type0":
				cl.Type = 0
			case "type6":
				cl.Type = 6
			case "round0":
				cl.Round = 0
			case "round_neg":
				cl.Round = -1
			case "prepared_round_neg":
				cl.PreparedRound = -1
			case "duty_type0":
				cl.Duty.Type = 0
			case "duty_type_big":
				cl.Duty.Type = 99
			case "peer_out_of_range":
				cl.PeerIdx = int64(n)
			}
			m.Msg = resign(cl, signer)
			field = "rule"
		case kind == 12: // referenced value missing
			if len(m.Values) == 0 {
				rt.Skip("no values")
			}
			switch rapid.IntRange(0, 2).Draw(rt, "missingHow") {
			case 0:
				m.Values = nil
				field, how = "values", "removed"
			default:
				// validly re-signed top-level message that references a value which is not attached
				// (in value_hash or prepared_value_hash), without justifications that reference it too
				cl := proto.Clone(m.Msg).(*pbv1.QBFTMsg)
				ghost := sha256.Sum256([]byte(fmt.Sprintf("unattached-%d", rapid.IntRange(0, 1000).Draw(rt, "ghost"))))
				if rapid.Bool().Draw(rt, "ghostPrepared") {
					cl.PreparedValueHash = ghost[:]
					if cl.PreparedRound == 0 {
						cl.PreparedRound = 1
					}
					how = "resigned_prepared_value_unattached"
				} else {
					cl.ValueHash = ghost[:]
					how = "resigned_value_unattached"
				}
				m.Msg = resign(cl, keys[cl.PeerIdx])
				m.Justification = nil
				field = "values"
			}
		case kind == 13: // referenced value bytes / type url altered
			if len(m.Values) == 0 {
				rt.Skip("no values")
			}
			v := proto.Clone(m.Values[0]).(*anypb.Any)
			if vk := rapid.IntRange(0, 8).Draw(rt, "typeURL"); vk == 0 {
				v.TypeUrl += "x"
				how = "type_url"
			} else if vk >= 7 {
				// the value travels wrapped in one or two more envelopes: what is attached is then an
				// envelope, not the data the signed hash stands for
				for depth := rapid.IntRange(1, 2).Draw(rt, "wrapDepth"); depth > 0; depth-- {
					w, err := anypb.New(v)
					if err != nil {
						rt.Fatalf("HARNESS-ERROR: wrap: %v", err)
					}
					v = w
				}
				how = "value_wrapped_in_envelope"
			} else if vk <= 2 {
				// well-formed extra fields the message type does not know, appended or prepended: bytes of
				// the value changed, so its hash must no longer match what was signed
				extras := [][]byte{
					{0xc0, 0x3e, 0x07},                   // field 1000, varint 7
					{0xca, 0x3e, 0x03, 'x', 'y', 'z'},    // field 1001, bytes "xyz"
					{0xd5, 0x3e, 0x01, 0x02, 0x03, 0x04}, // field 1002, fixed32
				}
				e := extras[rapid.IntRange(0, len(extras)-1).Draw(rt, "unknownField")]
				if rapid.Bool().Draw(rt, "prepend") {
					v.Value = append(append([]byte{}, e...), v.Value...)
				} else {
					v.Value = append(append([]byte{}, v.Value...), e...)
				}
				how = "unknown_field_added"
			} else {
				i := rapid.IntRange(0, len(v.Value)-1).Draw(rt, "byte")
				orig := proto.Clone(v).(*anypb.Any)
				v.Value = append([]byte{}, v.Value...)
				v.Value[i] ^= 1 << uint(rapid.IntRange(0, 7).Draw(rt, "vbit"))
				how = "value_byte"
				if a, err1 := v.UnmarshalNew(); err1 == nil {
					if o, err2 := orig.UnmarshalNew(); err2 == nil && proto.Equal(a, o) {
						rt.Skip("altered bytes decode to the same value")
					}
				}
			}
			m.Values[0] = v
			field = "value"
		case kind == 14: // amplification limits
			if rapid.Bool().Draw(rt, "justOrValues") {
				j := signed(qbft.MsgPrepare, duty, 0, 2, zero32, 0, zero32, keys[0])
				for len(m.Justification) <= 2*n {
					m.Justification = append(m.Justification, j)
				}
				how = "too_many_justifications"
			} else {
				for i := 0; len(m.Values) <= 2*(len(m.Justification)+1); i++ {
					v, _ := value(byte('c' + i))
					m.Values = append(m.Values, v)
				}
				how = "too_many_values"
			}
			field = "limits"
		case kind == 15: // duty not allowed / expired
			if rapid.IntRange(0, 3).Draw(rt, "exemptDuty") == 0 {
				// a duty type that never expires (exit, builder registration): no consensus runs for it and
				// nothing would ever collect an instance created for it; validly signed, no justifications
				cl := proto.Clone(m.Msg).(*pbv1.QBFTMsg)
				cl.Duty.Type = int32(rapid.SampledFrom([]core.DutyType{core.DutyExit, core.DutyBuilderRegistration}).Draw(rt, "exemptType"))
				m.Msg = resign(cl, keys[cl.PeerIdx])
				m.Justification = nil
				how = "never_expiring_duty"
			} else if rapid.Bool().Draw(rt, "gateOrExpire") {
				cl := proto.Clone(m.Msg).(*pbv1.QBFTMsg)
				// beyond the gater window (also far beyond, including values that are negative when read as
				// signed integers), validly signed, no justifications
				cl.Duty.Slot = firstGatedSlot() + uint64(rapid.IntRange(0, 5000).Draw(rt, "beyond"))
				if rapid.IntRange(0, 2).Draw(rt, "hugeSlot") == 0 {
					cl.Duty.Slot = rapid.SampledFrom([]uint64{1 << 63, 1<<63 + 40, 1<<63 + 1<<62, ^uint64(0), ^uint64(0) - 31, 1 << 62, 1 << 32, 1<<63 - 1}).Draw(rt, "hugeSlotValue")
				}
				m.Msg = resign(cl, keys[cl.PeerIdx])
				m.Justification = nil
				how = "gated"
			} else {
				how = "expired"
				if rapid.Bool().Draw(rt, "expiresAfterFirstMessage") {
					// the duty expires while the node already holds state for it: an earlier, valid message
					// was taken in time; the deadline passes (nothing has collected the instance yet); then
					// this message arrives. It is the same message from the same or (if drawn) another member.
					first := proto.Clone(b.msg).(*pbv1.QBFTConsensusMsg)
					if _, _, err := c.handle(ctx, "peer", first); err != nil {
						rt.Fatalf("valid %s message rejected: %v", shape, err)
					}
					baseInst, baseBuf = bufState(c)
					if rapid.Bool().Draw(rt, "otherSenderAfterExpiry") {
						other := (sender + 1) % int64(n)
						m = proto.Clone(buildBase(shape, n, duty, other).msg).(*pbv1.QBFTConsensusMsg)
					}
					how = "expired_after_an_accepted_message"
				}
				dl.expired[duty] = true
			}
			field = "duty"
		case kind == 20 || kind == 21: // a signature borrowed from another part of the same message
			if len(m.Justification) == 0 {
				rt.Skip("no justification")
			}
			level, field = "just", "signature"
			switch rapid.IntRange(0, 3).Draw(rt, "borrow") {
			case 0: // one justification carries the signature of another part (content untouched)
				j := rapid.IntRange(0, len(m.Justification)-1).Draw(rt, "just")
				parts := append([]*pbv1.QBFTMsg{m.Msg}, m.Justification...)
				k := rapid.IntRange(0, len(parts)-1).Draw(rt, "from")
				if bytes.Equal(parts[k].Signature, m.Justification[j].Signature) {
					rt.Skip("same signature")
				}
				m.Justification[j].Signature = append([]byte{}, parts[k].Signature...)
				how = "signature_of_a_sibling"
			case 1, 2: // a forged twin: a verified part repeated with one signed field changed, its signature kept
				k := rapid.IntRange(0, len(m.Justification)-1).Draw(rt, "twinOf")
				twin := proto.Clone(m.Justification[k]).(*pbv1.QBFTMsg)
				switch rapid.IntRange(0, 3).Draw(rt, "twinField") {
				case 0:
					twin.PeerIdx = (twin.PeerIdx + 1 + int64(rapid.IntRange(0, n-2).Draw(rt, "twinPeer"))) % int64(n)
				case 1:
					twin.Type = twin.Type%5 + 1
				case 2:
					twin.Round++
				default:
					_, h := value('c')
					if len(twin.ValueHash) > 0 {
						twin.ValueHash = h[:]
					} else {
						twin.PreparedValueHash = h[:]
					}
					av, _ := value('c')
					m.Values = append(m.Values, av)
				}
				if len(m.Justification)+1 > 2*n {
					rt.Skip("no room for a twin within the count limit")
				}
				pos := k + 1
				if rapid.Bool().Draw(rt, "twinAtEnd") {
					pos = len(m.Justification)
				}
				m.Justification = append(m.Justification[:pos], append([]*pbv1.QBFTMsg{twin}, m.Justification[pos:]...)...)
				how = "forged_twin_with_borrowed_signature"
			default: // the outer message carries a justification's signature
				j := rapid.IntRange(0, len(m.Justification)-1).Draw(rt, "just")
				if bytes.Equal(m.Msg.Signature, m.Justification[j].Signature) {
					rt.Skip("same signature")
				}
				m.Msg.Signature = append([]byte{}, m.Justification[j].Signature...)
				level, how = "top", "signature_of_a_justification"
			}
		case kind == 16: // nil parts
			how = rapid.SampledFrom([]string{"nil_msg", "nil_duty", "nil_justification", "nil_value", "garbage_value"}).Draw(rt, "nil")
			switch how {
			case "nil_msg":
				m.Msg = nil
			case "nil_duty":
				m.Msg.Duty = nil
			case "nil_justification":
				m.Justification = append(m.Justification, nil)
			case "nil_value":
				m.Values = append([]*anypb.Any{nil}, m.Values...)
			case "garbage_value":
				m.Values = append(m.Values, &anypb.Any{TypeUrl: "type.googleapis.com/core.corepb.v1.UnsignedDataSet", Value: []byte{0xff, 0xff, 0xff}})
			}
			field = "nil"
		default: // arbitrary bytes offered as a wire message
			raw = rapid.SliceOfN(rapid.Byte(), 0, 200).Draw(rt, "raw")
			if rapid.Bool().Draw(rt, "mutateValid") {
				good, _ := proto.Marshal(b.msg)
				raw = append([]byte{}, good...)
				if len(raw) > 0 {
					k := rapid.IntRange(1, 4).Draw(rt, "nFlips")
					for i := 0; i < k; i++ {
						raw[rapid.IntRange(0, len(raw)-1).Draw(rt, "pos")] ^= byte(rapid.IntRange(1, 255).Draw(rt, "xor"))
					}
				}
			}
			m = new(pbv1.QBFTConsensusMsg)
			if err := proto.Unmarshal(raw, m); err != nil {
				parses = false
			} else if proto.Equal(m, b.msg) {
				rt.Skip("bytes decode to the unaltered message")
			} else if semanticallySame(m, b.msg) {
				rt.Skip("only unreferenced / unknown parts differ")
			} else if partsSubset(m, b.msg) {
				// a flipped tag or length can turn a whole justification (or value) into an unknown field:
				// what is left consists of unaltered, validly signed parts — no signed field was altered
				rt.Skip("whole parts dropped, the remaining ones are unaltered")
			}
			field, how = "raw", "bytes"
		}
		if !parses {
			vstat.Case("", false, "raw_unparseable")
			return
		}
		if (kind < 9 || field == "raw") && authenticVariant(m, b.msg, n) {
			// every part still carries the unaltered signed content of a part of the valid message and a
			// signature that is (another encoding of) a valid signature of the member it names: e.g. the
			// recovery byte 1 written as 28, or whole justifications dropped. No signed field was altered.
			rt.Skip("altered bytes are another valid form of the same signed parts")
		}
		var herr error
		from := senderOf(rt, n, m)
		// in a quarter of the cases the receive deadline passes while the message is being verified: the context's
		// Err() turns non-nil at a drawn poll (the handler polls it between justifications). Whatever the handler
		// does then, an altered message must not get in.
		hctx := ctx
		if rapid.IntRange(0, 3).Draw(rt, "deadlineDuringVerification") == 0 {
			hctx = newPollCtx(rapid.IntRange(0, len(m.GetJustification())+3).Draw(rt, "expiresAtPoll"))
			how += "+receive_deadline_mid_verification"
		}
		func() {
			defer func() {
				if r := recover(); r != nil {
					rt.Fatalf("PANIC in handle for %s/%s/%s/%s: %v", shape, level, field, how, r)
				}
			}()
			_, _, herr = c.handle(hctx, from, m)
		}()
		inst, buf := bufState(c)
		if totalityOnly {
			vstat.Case(fmt.Sprintf("%s/%s/%s/%s/n%d/s%d/%v", shape, level, field, how, n, sender, duty), true, "level:"+level, "field:"+field, "kind:odd_hash_length", cls05("odd_hash_accepted", herr == nil))
			return
		}
		if herr == nil {
			rt.Fatalf("ACCEPTED: altered %s message (%s.%s, %s) was accepted by handle: %v\n differs from the valid message in: %s", shape, level, field, how, m, diffParts(m, b.msg))
		}
		if inst != baseInst || buf != baseBuf {
			rt.Fatalf("STATE TOUCHED: rejected %s message (%s.%s, %s; err %v) left instances=%d buffered=%d (before it: %d / %d)", shape, level, field, how, herr, inst, buf, baseInst, baseBuf)
		}
		vstat.Case(fmt.Sprintf("%s/%s/%s/%s/n%d/s%d/%v/%x", shape, level, field, how, n, sender, duty, sha256.Sum256([]byte(m.String()))), true, "level:"+level, "field:"+field, "kind:"+how, "shape:"+shape)
		if vstat.WantSample(field + ":" + how) {
			vstat.Sample(field+":"+how, map[string]any{"shape": shape, "n": n, "level": level, "field": field, "kind": how, "error": herr.Error()})
		}
	})
}

// semanticallySame reports whether two wire messages have equal signed parts and the same decoded
// values (flipped bytes may only have touched an ignored part: a top-level unknown field, the host
// prefix of a type URL, a non-canonical encoding of the same value).
func semanticallySame(a, b *pbv1.QBFTConsensusMsg) bool {
	canon := func(m *pbv1.QBFTConsensusMsg) string {
		out := ""
		det := func(x proto.Message) string {
			bb, err := proto.MarshalOptions{Deterministic: true}.Marshal(x)
			if err != nil {
				return "ERR"
			}
			return string(bb)
		}
		if m.GetMsg() == nil {
			return "NILMSG"
		}
		out += det(m.GetMsg()) + "|"
		for _, j := range m.GetJustification() {
			if j == nil {
				return "NILJUST"
			}
			out += det(j) + "|"
		}
		var hs []string
		for _, v := range m.GetValues() {
			if v == nil {
				return "NILVALUE"
			}
			inner, err := v.UnmarshalNew()
			if err != nil {
				return "BADVALUE"
			}
			h, err := hashProto(inner)
			if err != nil {
				return "BADVALUE"
			}
			hs = append(hs, string(h[:]))
		}
		sort.Strings(hs)
		return out + strings.Join(hs, ",")
	}
	return canon(a) == canon(b)
}

// getRecvBufferForVerif reads the duty's buffer without creating it.
func (c *Consensus) getRecvBufferForVerif(duty core.Duty) chan Msg {
	c.mutable.Lock()
	defer c.mutable.Unlock()
	if inst, ok := c.mutable.instances[duty]; ok {
		return inst.RecvBuffer
	}
	return nil
}

// diffParts names the parts in which two wire messages differ (for failure reports).
func diffParts(a, b *pbv1.QBFTConsensusMsg) string {
	var out []string
	if !proto.Equal(a.GetMsg(), b.GetMsg()) {
		out = append(out, fmt.Sprintf("msg (%v vs %v)", a.GetMsg(), b.GetMsg()))
	}
	if len(a.GetJustification()) != len(b.GetJustification()) {
		out = append(out, fmt.Sprintf("justification count %d vs %d", len(a.GetJustification()), len(b.GetJustification())))
	} else {
		for i := range a.GetJustification() {
			if !proto.Equal(a.GetJustification()[i], b.GetJustification()[i]) {
				out = append(out, fmt.Sprintf("justification[%d] (%v vs %v)", i, a.GetJustification()[i], b.GetJustification()[i]))
			}
		}
	}
	if len(a.GetValues()) != len(b.GetValues()) {
		out = append(out, fmt.Sprintf("value count %d vs %d", len(a.GetValues()), len(b.GetValues())))
	} else {
		for i := range a.GetValues() {
			if !proto.Equal(a.GetValues()[i], b.GetValues()[i]) {
				out = append(out, fmt.Sprintf("values[%d] (%d vs %d bytes, type %q vs %q)", i, len(a.GetValues()[i].GetValue()), len(b.GetValues()[i].GetValue()), a.GetValues()[i].GetTypeUrl(), b.GetValues()[i].GetTypeUrl()))
			}
		}
	}
	if len(a.ProtoReflect().GetUnknown()) != len(b.ProtoReflect().GetUnknown()) {
		out = append(out, "unknown fields")
	}
	return strings.Join(out, "; ")
}

// partsSubset reports whether a consists of b's top-level message and a sub-multiset of b's
// justifications and values, each unaltered.
func partsSubset(a, b *pbv1.QBFTConsensusMsg) bool {
	if a.GetMsg() == nil || !proto.Equal(a.GetMsg(), b.GetMsg()) {
		return false
	}
	usedJ := make([]bool, len(b.GetJustification()))
	for _, j := range a.GetJustification() {
		found := false
		for i, o := range b.GetJustification() {
			if !usedJ[i] && j != nil && proto.Equal(j, o) {
				usedJ[i], found = true, true
				break
			}
		}
		if !found {
			return false
		}
	}
	usedV := make([]bool, len(b.GetValues()))
	for _, v := range a.GetValues() {
		found := false
		for i, o := range b.GetValues() {
			if !usedV[i] && v != nil && proto.Equal(v, o) {
				usedV[i], found = true, true
				break
			}
		}
		if !found {
			return false
		}
	}
	return true
}

// signedContent is a part without its signature, deterministically encoded.
func signedContent(p *pbv1.QBFTMsg) string {
	c, ok := proto.Clone(p).(*pbv1.QBFTMsg)
	if !ok || c == nil {
		return "NIL"
	}
	c.Signature = nil
	b, err := proto.MarshalOptions{Deterministic: true}.Marshal(c)
	if err != nil {
		return "ERR"
	}
	return string(b)
}

// validSigIndependent verifies a part's signature for the member it names with the secp256k1 library
// directly (not through the repository's k1util), accepting both encodings of the recovery byte.
func validSigIndependent(p *pbv1.QBFTMsg, n int) bool {
	sig := p.GetSignature()
	if len(sig) != 65 || p.GetPeerIdx() < 0 || p.GetPeerIdx() >= int64(n) {
		return false
	}
	c, _ := proto.Clone(p).(*pbv1.QBFTMsg)
	c.Signature = nil
	digest, err := hashProto(c)
	if err != nil {
		return false
	}
	v := sig[64]
	if v >= 27 {
		v -= 27
	}
	if v > 1 {
		return false
	}
	compact := append([]byte{27 + v}, sig[:64]...)
	pub, _, err := ecdsa.RecoverCompact(compact, digest[:])
	if err != nil {
		return false
	}
	return pub.IsEqual(keysFor(n)[p.GetPeerIdx()].PubKey())
}

// authenticVariant reports whether a differs from the valid message b only in the encoding of
// signatures and/or by lacking whole justifications or values.
func authenticVariant(a, b *pbv1.QBFTConsensusMsg, n int) bool {
	if a.GetMsg() == nil || signedContent(a.GetMsg()) != signedContent(b.GetMsg()) || !validSigIndependent(a.GetMsg(), n) {
		return false
	}
	used := make([]bool, len(b.GetJustification()))
	for _, j := range a.GetJustification() {
		if j == nil {
			return false
		}
		found := false
		for i, o := range b.GetJustification() {
			if !used[i] && signedContent(j) == signedContent(o) {
				used[i], found = true, true
				break
			}
		}
		if !found || !validSigIndependent(j, n) {
			return false
		}
	}
	// the attached values must be exactly the valid message's (a missing referenced value is an alteration)
	if len(a.GetValues()) != len(b.GetValues()) {
		return false
	}
	usedV := make([]bool, len(b.GetValues()))
	for _, v := range a.GetValues() {
		found := false
		for i, o := range b.GetValues() {
			if !usedV[i] && v != nil && proto.Equal(v, o) {
				usedV[i], found = true, true
				break
			}
		}
		if !found {
			return false
		}
	}
	return true
}

func cls05(name string, on bool) string {
	if on {
		return name
	}
	return ""
}

// pollCtx is a context whose deadline passes at the k-th time somebody asks for its error.
type pollCtx struct {
	context.Context
	mu   sync.Mutex
	left int
	done chan struct{}
}

func newPollCtx(k int) *pollCtx {
	return &pollCtx{Context: context.Background(), left: k, done: make(chan struct{})}
}

func (p *pollCtx) Err() error {
	p.mu.Lock()
	defer p.mu.Unlock()
	if p.left > 0 {
		p.left--
		return nil
	}
	select {
	case <-p.done:
	default:
		close(p.done)
	}
	return context.DeadlineExceeded
}

func (p *pollCtx) Done() <-chan struct{} { return p.done }
