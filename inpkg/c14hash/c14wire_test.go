// C14 (consensus wire part) — structurally odd consensus messages from a peer never crash the receive
// handler. The duty data checks of C14 push bytes through the partial-signature and decided-value paths;
// the third way peer bytes enter a node is the consensus wire message itself. Fields that the sender
// controls and signs (hash fields of any length, rounds, types) are drawn freely, the message is validly
// signed with the sender's key, and the production handler must return (accept or refuse), not panic.
package qbft

import (
	"context"
	"crypto/sha256"
	"fmt"
	"testing"

	k1 "github.com/decred/dcrd/dcrec/secp256k1/v4"
	"pgregory.net/rapid"

	"github.com/obolnetwork/charon/core"
	"github.com/obolnetwork/charon/core/consensus/instance"
	pbv1 "github.com/obolnetwork/charon/core/corepb/v1"
	"github.com/obolnetwork/charon/zzverif/vstat"
)

func TestMain(m *testing.M) { vstat.Main(m) }

type wireDeadliner struct{}

func (wireDeadliner) Add(core.Duty) core.DeadlineStatus { return core.DeadlineScheduled }
func (wireDeadliner) C() <-chan core.Duty               { return nil }

func TestC14ConsensusWireTotality(t *testing.T) {
	vstat.Rule("C14", "consensus wire: validly signed consensus messages (all five types, 0..3 validly signed justifications) whose sender-controlled fields are drawn freely: hash fields of length 0..64, rounds and prepared rounds in -2..5, peer index inside the cluster; the production handler must not panic; non-trivial = a hash field whose length is neither 0 nor 32")
	ctx := context.Background()
	rapid.Check(t, func(rt *rapid.T) {
		n := rapid.IntRange(3, 6).Draw(rt, "n")
		var keys []*k1.PrivateKey
		c := &Consensus{}
		c.pubkeys = map[int64]*k1.PublicKey{}
		for i := 0; i < n; i++ {
			h := sha256.Sum256([]byte(fmt.Sprintf("verif-c14wire-%d-%d", n, i)))
			k := k1.PrivKeyFromBytes(h[:])
			keys = append(keys, k)
			c.pubkeys[int64(i)] = k.PubKey()
		}
		c.deadliner = wireDeadliner{}
		c.gaterFunc = func(core.Duty) bool { return true }
		c.mutable.instances = make(map[core.Duty]*instance.IO[Msg])
		duty := core.Duty{Slot: uint64(rapid.IntRange(1, 20).Draw(rt, "slot")), Type: core.DutyAttester}
		odd := false
		hash := func(label string) []byte {
			l := rapid.SampledFrom([]int{0, 32, 32, 1, 2, 16, 31, 33, 48, 64}).Draw(rt, label)
			if l != 0 && l != 32 {
				odd = true
			}
			b := make([]byte, l)
			for i := range b {
				b[i] = byte(0xa0 + i)
			}
			return b
		}
		mk := func(label string) *pbv1.QBFTMsg {
			peer := int64(rapid.IntRange(0, n-1).Draw(rt, label+"Peer"))
			m := &pbv1.QBFTMsg{
				Type:              int64(rapid.IntRange(1, 5).Draw(rt, label+"Type")),
				Duty:              core.DutyToProto(duty),
				PeerIdx:           peer,
				Round:             int64(rapid.IntRange(-2, 5).Draw(rt, label+"Round")),
				PreparedRound:     int64(rapid.IntRange(-2, 5).Draw(rt, label+"PreparedRound")),
				ValueHash:         hash(label + "ValueHashLen"),
				PreparedValueHash: hash(label + "PreparedHashLen"),
			}
			s, err := signMsg(m, keys[peer])
			if err != nil {
				panic("HARNESS-ERROR: sign: " + err.Error())
			}
			return s
		}
		msg := &pbv1.QBFTConsensusMsg{Msg: mk("top")}
		for j := rapid.IntRange(0, 3).Draw(rt, "justifications"); j > 0; j-- {
			msg.Justification = append(msg.Justification, mk("just"))
		}
		var err error
		func() {
			defer func() {
				if r := recover(); r != nil {
					rt.Fatalf("CRASH: the consensus receive handler panicked on a validly signed message from a cluster member: %v\nmessage: %v", r, msg)
				}
			}()
			_, _, err = c.handle(ctx, "peer", msg)
		}()
		vstat.Case(fmt.Sprintf("wire/%v", msg), odd, "consensus_wire", clsW("wire_odd_hash_length", odd), clsW("wire_accepted", err == nil))
	})
}

func clsW(name string, on bool) string {
	if on {
		return name
	}
	return ""
}
