// C14 (consensus hash part) — equal duty data sets give equal consensus value hashes on every node,
// however the set was built. In-package overlay test of core/consensus/qbft (uses hashProto, as the
// package's own tests do).
package qbft

import (
	"fmt"
	"testing"

	eth2v1 "github.com/attestantio/go-eth2-client/api/v1"
	eth2p0 "github.com/attestantio/go-eth2-client/spec/phase0"
	"pgregory.net/rapid"

	"github.com/obolnetwork/charon/core"
	"github.com/obolnetwork/charon/zzverif/vstat"
)

func TestC14ConsensusHashDeterministic(t *testing.T) {
	vstat.Rule("C14", "consensus hash: unsigned data sets with 2..8 validators built in two drawn insertion orders, converted with UnsignedDataSetToProto and hashed with the consensus package's hashProto, 20 times each: all hashes equal; distinct by (size, orders)")
	rapid.Check(t, func(rt *rapid.T) {
		n := rapid.IntRange(2, 8).Draw(rt, "validators")
		entry := func(i int) (core.PubKey, core.UnsignedData) {
			var root eth2p0.Root
			root[0] = byte(i)
			return core.PubKey(fmt.Sprintf("0x%096x", i+1)), core.AttestationData{
				Data: eth2p0.AttestationData{Slot: 9, Index: eth2p0.CommitteeIndex(i), BeaconBlockRoot: root, Source: &eth2p0.Checkpoint{Epoch: 1}, Target: &eth2p0.Checkpoint{Epoch: 2}},
				Duty: eth2v1.AttesterDuty{Slot: 9, ValidatorIndex: eth2p0.ValidatorIndex(i), CommitteeIndex: eth2p0.CommitteeIndex(i), CommitteeLength: 8, CommitteesAtSlot: 4},
			}
		}
		build := func(order []int) core.UnsignedDataSet {
			set := core.UnsignedDataSet{}
			for _, i := range order {
				k, v := entry(i)
				set[k] = v
			}
			return set
		}
		idx := make([]int, n)
		for i := range idx {
			idx[i] = i
		}
		o1 := rapid.Permutation(idx).Draw(rt, "order1")
		o2 := rapid.Permutation(idx).Draw(rt, "order2")
		var first [32]byte
		for round := 0; round < 20; round++ {
			for _, o := range [][]int{o1, o2} {
				pb, err := core.UnsignedDataSetToProto(build(o))
				if err != nil {
					rt.Fatalf("HARNESS-ERROR: %v", err)
				}
				h, err := hashProto(pb)
				if err != nil {
					rt.Fatalf("HARNESS-ERROR: %v", err)
				}
				if first == [32]byte{} {
					first = h
				} else if h != first {
					rt.Fatalf("NON-DETERMINISTIC CONSENSUS HASH: the same %d-validator data set hashed to %x and %x (insertion orders %v / %v)", n, first[:6], h[:6], o1, o2)
				}
			}
		}
		vstat.Case(fmt.Sprintf("hash/%d/%v/%v", n, o1, o2), true, "consensus_hash")
		if vstat.WantSample("consensus_hash") {
			vstat.Sample("consensus_hash", map[string]any{"validators": n, "order1": o1, "order2": o2, "hash": fmt.Sprintf("%x", first[:8])})
		}
	})
}
