// C14 (decided value part) — whatever value a cluster member gets decided, no node crashes on it.
//
// Consensus values travel as protobuf Any: a member that leads a round can have every honest node decide a
// value of any registered message type, or a data set whose entries are not what the duty type calls for.
// The decide callbacks (type dispatch in Subscribe / SubscribePriority, UnsignedDataSetFromProto, the duty
// store) run inside the instance goroutine without recover, so a panic there takes the process down on
// every node at once. Here production Consensus components run over the in-memory libp2p stand-in inside a
// synctest bubble; the round-1 leader proposes (through the production propose path, so everything is
// signed and hashed by production code) a drawn odd value, the others propose ordinary ones, every node's
// subscribers are the production duty store and a priority recorder. The oracle is survival: a panic in a
// component goroutine ends the test binary, which the driver reports as the violation.
package qbft

import (
	"context"
	"crypto/sha256"
	"encoding/json"
	"fmt"
	"sort"
	"sync"
	"testing"
	"testing/synctest"
	"time"

	k1 "github.com/decred/dcrd/dcrec/secp256k1/v4"
	"github.com/libp2p/go-libp2p/core/peer"
	"google.golang.org/protobuf/proto"
	"pgregory.net/rapid"

	"github.com/obolnetwork/charon/core"
	"github.com/obolnetwork/charon/core/consensus/protocols"
	"github.com/obolnetwork/charon/core/consensus/timer"
	pbv1 "github.com/obolnetwork/charon/core/corepb/v1"
	"github.com/obolnetwork/charon/core/dutydb"
	"github.com/obolnetwork/charon/p2p"
	"github.com/obolnetwork/charon/zzverif/fakebn"
	"github.com/obolnetwork/charon/zzverif/memnet"
	"github.com/obolnetwork/charon/zzverif/valgen"
	"github.com/obolnetwork/charon/zzverif/vstat"
)

var decideKinds = map[core.DutyType]string{
	core.DutyAttester:         "AttestationData",
	core.DutyProposer:         "VersionedProposal",
	core.DutyAggregator:       "VersionedAggregatedAttestation",
	core.DutySyncContribution: "SyncContribution",
}

func goodSet(t *testing.T, typ core.DutyType, seed int64, entries int) *pbv1.UnsignedDataSet {
	set := core.UnsignedDataSet{}
	for i := 0; i < entries; i++ {
		set[core.PubKey(fmt.Sprintf("0x%096x", i+1))] = valgen.Unsigned(t, valgen.KindByName(decideKinds[typ]), seed+int64(i))
	}
	pb, err := core.UnsignedDataSetToProto(set)
	if err != nil {
		panic("HARNESS-ERROR: " + err.Error())
	}
	return pb
}

func TestC14DecidedValueTotality(t *testing.T) {
	vstat.Rule("C14", "decided value: 4 production consensus components over the in-memory network on virtual time, subscribers = the production duty store (dutydb.Store) and a priority recorder; the round-1 leader proposes through the production path a drawn value: an ordinary data set (control), a priority result for a data duty / a data set for the info-sync duty, another registered message type, or a data set in which one or all entries are truncated / garbage / empty / JSON null / the encoding of another duty type's data; the others propose ordinary values; no node may panic (a panic ends the test binary); non-trivial = an odd value was decided by at least one node")
	rapid.Check(t, func(rt *rapid.T) {
		rapid.SyncTest(rt, func(rt *rapid.T) { runDecidedValue(t, rt) })
	})
}

func runDecidedValue(t *testing.T, rt *rapid.T) {
	const n = 4
	types := []core.DutyType{core.DutyAttester, core.DutyProposer, core.DutyAggregator, core.DutySyncContribution, core.DutyInfoSync}
	typ := types[rapid.IntRange(0, len(types)-1).Draw(rt, "dutyType")]
	slot := uint64(rapid.IntRange(1, 40).Draw(rt, "slot"))
	duty := core.Duty{Slot: slot, Type: typ}
	seed := int64(rapid.IntRange(1, 1<<20).Draw(rt, "valueSeed"))

	ordinary := func(i int) proto.Message {
		if typ == core.DutyInfoSync {
			return &pbv1.PriorityResult{Topics: []*pbv1.PriorityTopicResult{}}
		}
		return goodSet(t, typ, seed+int64(100*i), 1+i%2)
	}
	otherType := func() core.DutyType {
		for {
			o := types[rapid.IntRange(0, 3).Draw(rt, "otherDataType")]
			if o != typ {
				return o
			}
		}
	}
	shape := rapid.SampledFrom([]string{"ordinary", "priority_vs_data", "other_message_type", "one_bad_entry", "all_bad_entries", "other_duty_types_set"}).Draw(rt, "leaderValue")
	badBytes := func(valid []byte) []byte {
		switch rapid.IntRange(0, 7).Draw(rt, "badKind") {
		case 6, 7: // the value's JSON form with one top-level member null or missing (structurally incomplete)
			base := typ
			if typ == core.DutyInfoSync {
				base = types[0]
			}
			set, err := core.UnsignedDataSetFromProto(base, &pbv1.UnsignedDataSet{Set: map[string][]byte{"0x" + fmt.Sprintf("%096x", 1): valid}})
			if err != nil {
				return []byte("{}")
			}
			for _, v := range set {
				js, err := json.Marshal(v)
				if err != nil {
					return []byte("{}")
				}
				var obj map[string]json.RawMessage
				if json.Unmarshal(js, &obj) != nil || len(obj) == 0 {
					return js
				}
				var keys []string
				for k := range obj {
					keys = append(keys, k)
				}
				sort.Strings(keys)
				k := keys[rapid.IntRange(0, len(keys)-1).Draw(rt, "jsonMember")]
				if rapid.Bool().Draw(rt, "nullOrMissing") {
					obj[k] = json.RawMessage("null")
				} else {
					delete(obj, k)
				}
				out, _ := json.Marshal(obj)
				return out
			}
			return []byte("{}")
		case 0:
			return nil
		case 1:
			return []byte("null")
		case 2:
			return valid[:rapid.IntRange(0, len(valid)-1).Draw(rt, "truncateAt")]
		case 3:
			return rapid.SliceOfN(rapid.Byte(), 1, 64).Draw(rt, "garbage")
		case 4: // the valid encoding of another duty type's data
			for _, b := range goodSet(t, otherType(), seed+7, 1).GetSet() {
				return b
			}
			return nil
		default:
			return []byte("{}")
		}
	}
	var odd proto.Message
	switch shape {
	case "ordinary":
		odd = ordinary(0)
	case "priority_vs_data":
		if typ == core.DutyInfoSync {
			odd = goodSet(t, otherType(), seed, 1)
		} else {
			odd = &pbv1.PriorityResult{Topics: []*pbv1.PriorityTopicResult{{}}}
		}
	case "other_message_type":
		odd = []proto.Message{core.DutyToProto(duty), &pbv1.QBFTMsg{Round: 1}, &pbv1.ParSignedDataSet{Set: map[string]*pbv1.ParSignedData{"0x01": {Data: []byte("x")}}}, &pbv1.UnsignedDataSet{}}[rapid.IntRange(0, 3).Draw(rt, "otherMessage")]
	case "other_duty_types_set":
		if typ == core.DutyInfoSync {
			odd = goodSet(t, core.DutyAttester, seed, 2)
		} else {
			odd = goodSet(t, otherType(), seed, 2)
		}
	default:
		base := types[0]
		if typ != core.DutyInfoSync {
			base = typ
		}
		pb := goodSet(t, base, seed, 2+rapid.IntRange(0, 1).Draw(rt, "extraEntries"))
		first := true
		for k, v := range pb.GetSet() {
			if shape == "all_bad_entries" || first {
				pb.Set[k] = badBytes(v)
			}
			first = false
		}
		odd = pb
	}

	// half of the cases run with the opt-in comparison of the leader's attestation data with the node's own
	// (it reads the leader's decoded value on the consensus goroutine, before anything is decided)
	compareOn := rapid.Bool().Draw(rt, "compareAttestations")
	var peers []p2p.Peer
	idxOf := map[peer.ID]int{}
	for i := 0; i < n; i++ {
		id, err := p2p.PeerIDFromKey(wireKey(n, i).PubKey())
		if err != nil {
			panic("HARNESS-ERROR: " + err.Error())
		}
		peers = append(peers, p2p.Peer{ID: id, Index: i, Name: fmt.Sprintf("node%d", i)})
		idxOf[id] = i
	}
	bn := fakebn.New()
	net := memnet.New()
	ctx, cancel := context.WithCancel(context.Background())
	stop := make(chan struct{})
	var wg sync.WaitGroup
	net.OnFrame = func(fr *memnet.Frame) {
		wg.Add(1)
		go func() {
			defer wg.Done()
			select {
			case <-time.After(time.Duration(1+idxOf[fr.To]) * time.Millisecond):
				net.Deliver(fr)
			case <-stop:
				net.Drop(fr)
			}
		}()
	}
	var mu sync.Mutex
	stored, storeErrs, priorities := 0, 0, 0
	var comps []*Consensus
	for i := 0; i < n; i++ {
		c, err := NewConsensus(ctx, bn, net.Host(peers[i].ID), new(p2p.Sender), peers, wireKey(n, i), wireDeadliner{}, func(core.Duty) bool { return true }, func(*pbv1.SniffedConsensusInstance) {}, compareOn)
		if err != nil {
			panic("HARNESS-ERROR: NewConsensus: " + err.Error())
		}
		c.timerFunc = func(d core.Duty) timer.RoundTimer { return timer.NewIncreasingRoundTimerWithDuty(d) }
		db := dutydb.NewMemDB(wireDeadliner{})
		c.Subscribe(func(ctx context.Context, d core.Duty, set core.UnsignedDataSet) error {
			err := db.Store(ctx, d, set)
			mu.Lock()
			if err != nil {
				storeErrs++
			} else {
				stored++
			}
			mu.Unlock()
			return err
		})
		c.SubscribePriority(func(_ context.Context, _ core.Duty, res *pbv1.PriorityResult) error {
			_ = res.GetTopics()
			mu.Lock()
			priorities++
			mu.Unlock()
			return nil
		})
		c.Start(ctx)
		comps = append(comps, c)
	}
	lead := int(leader(duty, 1, n))
	// Half of the cases: one member other than the round-1 leader also sends structurally odd consensus
	// messages, validly signed with its own key: any type number (also 0, negative, beyond the last type),
	// hash fields of any length, odd rounds, with or without (equally odd) justifications. The nodes that
	// receive them must cope: they are at most f = 1 members' messages, so every other node still has to get
	// the leader's value decided (a node whose instance dies on such a message is not handling it safely).
	oddSender := -1
	oddSent := 0
	if rapid.Bool().Draw(rt, "oddMember") {
		oddSender = (lead + 1 + rapid.IntRange(0, n-2).Draw(rt, "oddSender")) % n
		mk := func(label string) *pbv1.QBFTMsg {
			// a plausible message first (fields the receive checks let through) ...
			m := &pbv1.QBFTMsg{
				Type:          int64(rapid.IntRange(1, 5).Draw(rt, label+"Type")),
				Duty:          core.DutyToProto(duty),
				PeerIdx:       int64(oddSender),
				Round:         int64(rapid.IntRange(1, 3).Draw(rt, label+"Round")),
				PreparedRound: int64(rapid.IntRange(0, 2).Draw(rt, label+"PreparedRound")),
			}
			if rapid.Bool().Draw(rt, label+"HasValueHash") {
				m.ValueHash = make([]byte, 32)
			}
			if m.PreparedRound > 0 {
				m.PreparedValueHash = make([]byte, 32)
			}
			// ... then one or two oddities
			for k := rapid.IntRange(1, 2).Draw(rt, label+"Oddities"); k > 0; k-- {
				switch rapid.IntRange(0, 4).Draw(rt, label+"Oddity") {
				case 0:
					m.Type = int64(rapid.SampledFrom([]int{-1, 0, 6, 6, 7, 8, 255}).Draw(rt, label+"OddType"))
				case 1:
					m.ValueHash = make([]byte, rapid.SampledFrom([]int{1, 31, 33, 64}).Draw(rt, label+"OddHashLen"))
				case 2:
					m.PreparedValueHash = make([]byte, rapid.SampledFrom([]int{1, 31, 33, 64}).Draw(rt, label+"OddPreparedHashLen"))
				case 3:
					m.Round = int64(rapid.SampledFrom([]int{-1, 0, 1 << 40}).Draw(rt, label+"OddRound"))
				default:
					m.PreparedRound = int64(rapid.SampledFrom([]int{-1, 5, 1 << 40}).Draw(rt, label+"OddPreparedRound"))
				}
			}
			sm, err := signMsg(m, wireKey(n, oddSender))
			if err != nil {
				panic("HARNESS-ERROR: sign: " + err.Error())
			}
			return sm
		}
		for k := rapid.IntRange(1, 4).Draw(rt, "oddMessages"); k > 0; k-- {
			msg := &pbv1.QBFTConsensusMsg{Msg: mk("odd")}
			for j := rapid.SampledFrom([]int{0, 0, 0, 1, 2}).Draw(rt, "oddJustifications"); j > 0; j-- {
				msg.Justification = append(msg.Justification, mk("oddJust"))
			}
			for to := 0; to < n; to++ {
				if to != oddSender {
					net.Inject(peers[oddSender].ID, peers[to].ID, protocols.QBFTv2ProtocolID, msg)
					oddSent++
				}
			}
		}
		synctest.Wait()
	}
	for i := 0; i < n; i++ {
		wg.Add(1)
		go func() {
			defer wg.Done()
			v := ordinary(i)
			if i == lead {
				v = odd
			}
			_ = comps[i].propose(ctx, duty, v)
		}()
	}
	// round 1 decides within a few virtual milliseconds; leave room for a round change
	time.Sleep(3 * time.Second)
	synctest.Wait()
	close(stop)
	cancel()
	wg.Wait()
	synctest.Wait()
	mu.Lock()
	defer mu.Unlock()
	// (with the comparison on, members whose own attestation data differs from the leader's legitimately do not
	// vote: the two liveness clauses below only hold with the comparison off)
	compareBlocks := compareOn && typ == core.DutyAttester
	if shape == "ordinary" && typ != core.DutyInfoSync && oddSender >= 0 && stored+storeErrs < n-1 && !compareBlocks {
		rt.Fatalf("NOT HANDLED SAFELY: member %d sent %d structurally odd (validly signed) consensus messages; the leader's ordinary %s data set then reached the duty store of only %d of the %d other nodes", oddSender, oddSent, typ, stored+storeErrs, n-1)
	}
	if shape == "ordinary" && typ != core.DutyInfoSync && oddSender < 0 && stored+storeErrs < n && !compareBlocks {
		// positive control: the harness does reach the decide callbacks (the store may still refuse a
		// generated value for reasons of its own, e.g. an aggregate with several committee bits)
		rt.Fatalf("CONTROL: an ordinary %s data set proposed by the leader reached the duty store of %d of %d nodes", typ, stored+storeErrs, n)
	}
	decidedSomething := stored+storeErrs+priorities > 0
	vstat.Case(fmt.Sprintf("decided/%s/%s/%d/%d", typ, shape, slot, seed), shape != "ordinary" && decidedSomething, "decided_value", "decided_value_shape:"+shape, "decided_value_duty:"+typ.String(), clsW("odd_wire_messages_from_one_member", oddSender >= 0), clsW("decided_value_store_refused", storeErrs > 0), clsW("decided_value_stored", stored > 0), clsW("attestation_comparison_on", compareOn))
	if shape != "ordinary" && vstat.WantSample("decided_value:"+shape) {
		vstat.Sample("decided_value:"+shape, map[string]any{"duty": duty.String(), "leader_value": shape, "stored_by_nodes": stored, "store_refused_by_nodes": storeErrs, "priority_callbacks": priorities})
	}
}

var (
	wireKeyMu sync.Mutex
	wireKeys  = map[[2]int]*k1.PrivateKey{}
)

func wireKey(n, i int) *k1.PrivateKey {
	wireKeyMu.Lock()
	defer wireKeyMu.Unlock()
	if k, ok := wireKeys[[2]int{n, i}]; ok {
		return k
	}
	h := sha256.Sum256([]byte(fmt.Sprintf("verif-c14decide-%d-%d", n, i)))
	k := k1.PrivKeyFromBytes(h[:])
	wireKeys[[2]int{n, i}] = k
	return k
}
