// C11 — key-generation ceremony yields one consistent threshold key per validator.
//
// In-package check of the production FROST ceremony (runFrostParallel) in two harnesses:
//
//   - TestC11FrostSchedules: a harness fTransport whose two round barriers are opened node by node
//     in a drawn order with exactly one node running at a time (every completion order, including a
//     node that has finished round 2 before another one has even received its round 1 results),
//     plus a fully concurrent mode;
//   - TestC11FrostP2P: the production transport newFrostP2P on production bcast components over an
//     in-memory libp2p stand-in inside a synctest bubble; every frame really travels as bytes and is
//     delivered (or duplicated) in a drawn order.
//
// Oracle: dkgoracle.Check on what every node returned, followed by the production post-processing
// of dkg.go (signLockHash/aggLockHashSig, signDepositMsgs/aggDepositData, signValidatorRegistrations/
// aggValidatorRegistrations) fed with every node's partial signatures, with negatives.
package dkg

import (
	"context"
	"crypto/sha256"
	"fmt"
	"sort"
	"strings"
	"sync"
	"testing"
	"testing/synctest"
	"time"

	"github.com/coinbase/kryptology/pkg/dkg/frost"
	"github.com/coinbase/kryptology/pkg/sharing"
	k1 "github.com/decred/dcrd/dcrec/secp256k1/v4"
	"github.com/libp2p/go-libp2p/core/peer"
	"pgregory.net/rapid"

	"github.com/obolnetwork/charon/cluster"
	"github.com/obolnetwork/charon/core"
	"github.com/obolnetwork/charon/dkg/bcast"
	"github.com/obolnetwork/charon/dkg/share"
	"github.com/obolnetwork/charon/eth2util"
	"github.com/obolnetwork/charon/eth2util/deposit"
	"github.com/obolnetwork/charon/eth2util/registration"
	"github.com/obolnetwork/charon/p2p"
	"github.com/obolnetwork/charon/tbls"
	"github.com/obolnetwork/charon/tbls/tblsconv"
	"github.com/obolnetwork/charon/zzverif/dkgoracle"
	"github.com/obolnetwork/charon/zzverif/memnet"
	"github.com/obolnetwork/charon/zzverif/vstat"

	eth2p0 "github.com/attestantio/go-eth2-client/spec/phase0"
)

func TestMain(m *testing.M) { vstat.Main(m) }

const c11Rule = "a case is one complete ceremony (drawn n in 3..8, threshold 2..n, 1..4 validators, drawn order in which nodes start and are let through the two round barriers / drawn frame delivery order) judged on every node's returned shares; " +
	"non-trivial when the ceremony succeeded and (threshold < n or validators > 1 or the completion order differs from node order); fingerprint = n, t, validators, transport, schedule"

type cfg struct {
	n, t, v int
}

func drawCfg(rt *rapid.T, maxN, maxV int) cfg {
	var c cfg
	c.n = rapid.IntRange(3, maxN).Draw(rt, "n")
	c.t = rapid.IntRange(2, c.n).Draw(rt, "t")
	c.v = rapid.IntRange(1, maxV).Draw(rt, "validators")
	return c
}

// ---------------------------------------------------------------------------------------------
// (a) scheduling transport

type evt struct {
	node  int // 0-based
	round int // 1, 2 = arrived at the barrier of that round; 3 = finished
}

type schedTP struct {
	mu       sync.Mutex
	n        int
	r1casts  map[msgKey]frost.Round1Bcast
	r1shares map[uint32]map[msgKey]sharing.ShamirShare
	r2casts  map[msgKey]frost.Round2Bcast
	gate1    []chan struct{}
	gate2    []chan struct{}
	events   chan evt
}

func newSchedTP(n int) *schedTP {
	tp := &schedTP{
		n:        n,
		r1casts:  map[msgKey]frost.Round1Bcast{},
		r1shares: map[uint32]map[msgKey]sharing.ShamirShare{},
		r2casts:  map[msgKey]frost.Round2Bcast{},
		events:   make(chan evt, 4*n),
	}
	for i := 0; i < n; i++ {
		tp.gate1 = append(tp.gate1, make(chan struct{}))
		tp.gate2 = append(tp.gate2, make(chan struct{}))
	}
	return tp
}

// nodeTP is the transport handed to one node.
type nodeTP struct {
	tp   *schedTP
	node int
}

func (n nodeTP) Round1(ctx context.Context, casts map[msgKey]frost.Round1Bcast, shares map[msgKey]sharing.ShamirShare) (map[msgKey]frost.Round1Bcast, map[msgKey]sharing.ShamirShare, error) {
	tp := n.tp
	tp.mu.Lock()
	for k, c := range casts {
		tp.r1casts[k] = c
	}
	for k, s := range shares {
		m := tp.r1shares[k.TargetID]
		if m == nil {
			m = map[msgKey]sharing.ShamirShare{}
			tp.r1shares[k.TargetID] = m
		}
		m[k] = s
	}
	tp.mu.Unlock()
	tp.events <- evt{n.node, 1}
	select {
	case <-tp.gate1[n.node]:
	case <-ctx.Done():
		return nil, nil, ctx.Err()
	}
	tp.mu.Lock()
	defer tp.mu.Unlock()
	// what the production transport hands over: every node's broadcast (own included) and the
	// shares addressed to this node; fresh maps per node.
	outC := map[msgKey]frost.Round1Bcast{}
	for k, c := range tp.r1casts {
		outC[k] = c
	}
	outS := map[msgKey]sharing.ShamirShare{}
	for k, s := range tp.r1shares[uint32(n.node+1)] {
		outS[k] = s
	}
	return outC, outS, nil
}

func (n nodeTP) Round2(ctx context.Context, casts map[msgKey]frost.Round2Bcast) (map[msgKey]frost.Round2Bcast, error) {
	tp := n.tp
	tp.mu.Lock()
	for k, c := range casts {
		tp.r2casts[k] = c
	}
	tp.mu.Unlock()
	tp.events <- evt{n.node, 2}
	select {
	case <-tp.gate2[n.node]:
	case <-ctx.Done():
		return nil, ctx.Err()
	}
	tp.mu.Lock()
	defer tp.mu.Unlock()
	out := map[msgKey]frost.Round2Bcast{}
	for k, c := range tp.r2casts {
		out[k] = c
	}
	return out, nil
}

type nodeResult struct {
	shares []share.Share
	err    error
}

func TestC11FrostSchedules(t *testing.T) {
	vstat.Rule("C11", c11Rule)
	vstat.Assume("crypto/rand inside FROST is not seedable: a replayed case repeats the configuration and the schedule, not the key material; the algebraic oracle does not depend on the key material")
	maxN := vstat.EnvInt("VERIF_C11_MAXN", 8)
	rapid.Check(t, func(rt *rapid.T) {
		c := drawCfg(rt, maxN, 4)
		concurrent := rapid.IntRange(0, 9).Draw(rt, "concurrent") == 0
		dkgCtx := fmt.Sprintf("ctx-%d", rapid.IntRange(0, 1<<20).Draw(rt, "dkgctx"))

		tp := newSchedTP(c.n)
		ctx, cancel := context.WithCancel(context.Background())
		defer cancel()
		res := make([]nodeResult, c.n)
		start := func(i int) {
			go func() {
				sh, err := runFrostParallel(ctx, nodeTP{tp, i}, uint32(c.v), uint32(c.n), uint32(c.t), uint32(i+1), dkgCtx)
				res[i] = nodeResult{sh, err}
				tp.events <- evt{i, 3}
			}()
		}

		var order []string
		state := make([]int, c.n) // 0 not started, 1 at barrier 1, 2 at barrier 2, 3 done, -1 running
		arrived := map[int]int{}  // round -> nodes that have submitted their messages
		finished := 0
		wait := func() {
			e := <-tp.events
			state[e.node] = e.round
			if e.round == 3 {
				finished++
			} else {
				arrived[e.round]++
			}
		}
		if concurrent {
			for i := 0; i < c.n; i++ {
				start(i)
			}
			seen := 0
			for finished < c.n {
				wait()
				seen++
				if arrived[1] == c.n {
					arrived[1] = -1 << 30
					for i := 0; i < c.n; i++ {
						close(tp.gate1[i])
					}
				}
				if arrived[2] == c.n {
					arrived[2] = -1 << 30
					for i := 0; i < c.n; i++ {
						close(tp.gate2[i])
					}
				}
				if res0 := firstErr(res); res0 != nil && finished > 0 {
					cancel()
				}
			}
			order = []string{"concurrent"}
		} else {
			open1, open2 := false, false
			for finished < c.n {
				if arrived[1] == c.n {
					open1 = true
				}
				if arrived[2] == c.n {
					open2 = true
				}
				// enabled actions: start an unstarted node; let a node through an open barrier.
				var acts []evt
				for i := 0; i < c.n; i++ {
					switch {
					case state[i] == 0:
						acts = append(acts, evt{i, 0})
					case state[i] == 1 && open1:
						acts = append(acts, evt{i, 1})
					case state[i] == 2 && open2:
						acts = append(acts, evt{i, 2})
					}
				}
				if len(acts) == 0 {
					// A node failed before reaching a barrier: nobody can proceed.
					cancel()
					rt.Fatalf("CEREMONY FAILED without any fault: n=%d t=%d v=%d: %v (schedule %v)", c.n, c.t, c.v, firstErr(res), order)
				}
				a := acts[rapid.IntRange(0, len(acts)-1).Draw(rt, "act")]
				state[a.node] = -1
				switch a.round {
				case 0:
					order = append(order, fmt.Sprintf("s%d", a.node))
					start(a.node)
				case 1:
					order = append(order, fmt.Sprintf("a%d", a.node))
					close(tp.gate1[a.node])
				case 2:
					order = append(order, fmt.Sprintf("b%d", a.node))
					close(tp.gate2[a.node])
				}
				wait() // exactly one node runs at a time: wait until it blocks again or finishes
				if state[a.node] == 3 && res[a.node].err != nil {
					cancel()
					rt.Fatalf("CEREMONY FAILED without any fault: n=%d t=%d v=%d node %d: %v (schedule %v)", c.n, c.t, c.v, a.node, res[a.node].err, order)
				}
			}
		}
		if err := firstErr(res); err != nil {
			rt.Fatalf("CEREMONY FAILED without any fault: n=%d t=%d v=%d: %v", c.n, c.t, c.v, err)
		}
		judge(rt, c, "sched", order, res)
	})
}

func firstErr(res []nodeResult) error {
	for _, r := range res {
		if r.err != nil {
			return r.err
		}
	}
	return nil
}

// ---------------------------------------------------------------------------------------------
// oracle

func inOrder(order []string, prefix string) bool {
	last := -1
	for _, o := range order {
		if strings.HasPrefix(o, prefix) {
			var i int
			fmt.Sscanf(o[len(prefix):], "%d", &i)
			if i < last {
				return false
			}
			last = i
		}
	}
	return true
}

func judge(rt *rapid.T, c cfg, transport string, order []string, res []nodeResult) {
	perNode := make([][]share.Share, c.n)
	for i := range res {
		perNode[i] = res[i].shares
	}
	maxSub := 40
	st, bad := dkgoracle.Check(c.n, c.t, c.v, perNode, maxSub, func(k int) int { return rapid.IntRange(0, k-1).Draw(rt, "subset") })
	if bad != "" {
		rt.Fatalf("%s  [n=%d t=%d v=%d transport=%s schedule=%v]", bad, c.n, c.t, c.v, transport, order)
	}
	if msg := postProcess(rt, c, perNode); msg != "" {
		rt.Fatalf("%s  [n=%d t=%d v=%d transport=%s schedule=%v]", msg, c.n, c.t, c.v, transport, order)
	}

	reordered := !(inOrder(order, "s") && inOrder(order, "a") && inOrder(order, "b")) || transport != "sched"
	nontrivial := c.t < c.n || c.v > 1 || reordered
	classes := []string{
		"transport:" + transport,
		fmt.Sprintf("n:%d", c.n), fmt.Sprintf("t_eq_n:%v", c.t == c.n), fmt.Sprintf("validators:%d", c.v),
		fmt.Sprintf("cfg:n%d_t%d", c.n, c.t),
	}
	if st.AllSubsets {
		classes = append(classes, "all_t_subsets")
	} else {
		classes = append(classes, "drawn_t_subsets")
	}
	if reordered {
		classes = append(classes, "completion_order_not_node_order")
	}
	vstat.Count("t_subsets_checked", int64(st.Subsets))
	vstat.Case(fmt.Sprintf("%d/%d/%d/%s/%v", c.n, c.t, c.v, transport, order), nontrivial, classes...)
	if vstat.WantSample(transport) {
		vstat.Sample(transport, map[string]any{"n": c.n, "threshold": c.t, "validators": c.v, "transport": transport, "schedule": order,
			"t_subsets_checked": st.Subsets, "group_key_validator0": fmt.Sprintf("%x", perNode[0][0].PubKey[:8])})
	}
}

// postProcess runs the signing and aggregation steps dkg.Run performs on the ceremony output, with
// every node's partial signatures exchanged faithfully (what the exchanger delivers), on every node.
func postProcess(rt *rapid.T, c cfg, perNode [][]share.Share) string {
	hash := sha256.Sum256([]byte(fmt.Sprintf("lock-%d", rapid.IntRange(0, 1<<20).Draw(rt, "lockhash"))))
	lockData := map[core.PubKey][]core.ParSignedData{}
	for i := 0; i < c.n; i++ {
		set, err := signLockHash(i+1, perNode[i], hash[:])
		if err != nil {
			return fmt.Sprintf("signLockHash node %d: %v", i, err)
		}
		if len(set) != c.v {
			return fmt.Sprintf("LOCK HASH PARTIALS: node %d signed for %d validators, want %d", i, len(set), c.v)
		}
		for pk, ps := range set {
			lockData[pk] = append(lockData[pk], ps)
		}
	}
	byPK := func(node int) map[core.PubKey]share.Share {
		m := map[core.PubKey]share.Share{}
		for _, sh := range perNode[node] {
			pk, _ := core.PubKeyFromBytes(sh.PubKey[:])
			m[pk] = sh
		}
		return m
	}
	for node := 0; node < c.n; node++ {
		sig, pks, err := aggLockHashSig(lockData, byPK(node), hash[:])
		if err != nil {
			return fmt.Sprintf("LOCK HASH AGGREGATION REJECTS HONEST PARTIALS at node %d: %v", node, err)
		}
		if len(pks) != c.n*c.v {
			return fmt.Sprintf("LOCK HASH AGGREGATION: %d public shares used, want %d", len(pks), c.n*c.v)
		}
		if err := tbls.VerifyAggregate(pks, sig, hash[:]); err != nil {
			return fmt.Sprintf("LOCK HASH AGGREGATE INVALID at node %d: %v", node, err)
		}
		// independent: the public shares used are exactly every node's public share of every validator.
		want := map[tbls.PublicKey]bool{}
		for _, sh := range perNode[node] {
			for _, ps := range sh.PublicShares {
				want[ps] = true
			}
		}
		for _, pk := range pks {
			if !want[pk] {
				return fmt.Sprintf("LOCK HASH AGGREGATION used a key that is nobody's public share at node %d", node)
			}
			delete(want, pk)
		}
		if len(want) != 0 {
			return fmt.Sprintf("LOCK HASH AGGREGATION left out %d public shares at node %d", len(want), node)
		}
	}
	// negative: one partial replaced by a signature of another node's share under the victim's index.
	{
		vIdx := rapid.IntRange(0, c.v-1).Draw(rt, "neg_val")
		victim := rapid.IntRange(0, c.n-1).Draw(rt, "neg_victim")
		other := (victim + 1 + rapid.IntRange(0, c.n-2).Draw(rt, "neg_other")) % c.n
		pk, _ := core.PubKeyFromBytes(perNode[0][vIdx].PubKey[:])
		forged := map[core.PubKey][]core.ParSignedData{}
		for k, v := range lockData {
			forged[k] = append([]core.ParSignedData(nil), v...)
		}
		kind := rapid.SampledFrom([]string{"other_share", "other_hash", "other_validator"}).Draw(rt, "neg_kind")
		var sig tbls.Signature
		switch kind {
		case "other_share":
			sig, _ = tbls.Sign(perNode[other][vIdx].SecretShare, hash[:])
		case "other_hash":
			h2 := sha256.Sum256(hash[:])
			sig, _ = tbls.Sign(perNode[victim][vIdx].SecretShare, h2[:])
		case "other_validator":
			if c.v < 2 {
				sig, _ = tbls.Sign(perNode[other][vIdx].SecretShare, hash[:])
			} else {
				sig, _ = tbls.Sign(perNode[victim][(vIdx+1)%c.v].SecretShare, hash[:])
			}
		}
		for j, ps := range forged[pk] {
			if ps.ShareIdx == victim+1 {
				forged[pk][j] = core.NewPartialSignature(tblsconv.SigToCore(sig), victim+1)
			}
		}
		if _, _, err := aggLockHashSig(forged, byPK(0), hash[:]); err == nil {
			return fmt.Sprintf("LOCK HASH AGGREGATION ACCEPTS A FORGED PARTIAL (%s) for validator %d share index %d", kind, vIdx, victim+1)
		}
		vstat.Count("neg:"+kind, 1)
	}

	// deposit data and builder registrations: threshold aggregation over every node's partials.
	network := eth2util.Goerli.Name
	addrs := make([]string, c.v)
	for i := range addrs {
		addrs[i] = fmt.Sprintf("0x%040x", 0xabc0+i)
	}
	amount := eth2p0.Gwei(32_000_000_000)
	depData := map[core.PubKey][]core.ParSignedData{}
	var depMsgs map[core.PubKey]eth2p0.DepositMessage
	regData := map[core.PubKey][]core.ParSignedData{}
	var regMsgs map[core.PubKey]core.VersionedSignedValidatorRegistration
	fv, err := eth2util.NetworkToForkVersionBytes(network)
	if err != nil {
		panic("HARNESS-ERROR: fork version: " + err.Error())
	}
	// a drawn subset of at least t nodes contributes (the exchanger waits for all, a subset is the
	// stronger requirement the property states: any t shares suffice).
	contrib := rapid.IntRange(c.t, c.n).Draw(rt, "contributors")
	perm := rapid.Permutation(seq(c.n)).Draw(rt, "contrib_perm")[:contrib]
	sort.Ints(perm)
	for _, i := range perm {
		set, msgs, err := signDepositMsgs(perNode[i], i+1, addrs, network, amount, false)
		if err != nil {
			return fmt.Sprintf("signDepositMsgs node %d: %v", i, err)
		}
		depMsgs = msgs
		for pk, ps := range set {
			depData[pk] = append(depData[pk], ps)
		}
		rset, rmsgs, err := signValidatorRegistrations(perNode[i], i+1, addrs, registration.DefaultGasLimit, fv)
		if err != nil {
			return fmt.Sprintf("signValidatorRegistrations node %d: %v", i, err)
		}
		regMsgs = rmsgs
		for pk, ps := range rset {
			regData[pk] = append(regData[pk], ps)
		}
	}
	node := rapid.IntRange(0, c.n-1).Draw(rt, "agg_node")
	dds, err := aggDepositData(depData, perNode[node], depMsgs, network)
	if err != nil {
		return fmt.Sprintf("DEPOSIT DATA AGGREGATION FAILS with partials of nodes %v at node %d: %v", perm, node, err)
	}
	if len(dds) != c.v {
		return fmt.Sprintf("DEPOSIT DATA: %d results, want %d", len(dds), c.v)
	}
	groupKeys := map[eth2p0.BLSPubKey]tbls.PublicKey{}
	for _, sh := range perNode[0] {
		groupKeys[eth2p0.BLSPubKey(sh.PubKey)] = sh.PubKey
	}
	for _, dd := range dds {
		gk, ok := groupKeys[dd.PublicKey]
		if !ok {
			return "DEPOSIT DATA for a key that is no group key of the ceremony"
		}
		root, err := deposit.GetMessageSigningRoot(eth2p0.DepositMessage{PublicKey: dd.PublicKey, WithdrawalCredentials: dd.WithdrawalCredentials, Amount: dd.Amount}, network)
		if err != nil {
			panic("HARNESS-ERROR: deposit root: " + err.Error())
		}
		if err := tbls.Verify(gk, root[:], tbls.Signature(dd.Signature)); err != nil {
			return fmt.Sprintf("DEPOSIT DATA SIGNATURE INVALID under the group key (partials of nodes %v): %v", perm, err)
		}
	}
	regs, err := aggValidatorRegistrations(regData, perNode[node], regMsgs, fv)
	if err != nil {
		return fmt.Sprintf("REGISTRATION AGGREGATION FAILS with partials of nodes %v at node %d: %v", perm, node, err)
	}
	if len(regs) != c.v {
		return fmt.Sprintf("REGISTRATIONS: %d results, want %d", len(regs), c.v)
	}
	for _, reg := range regs {
		gk, ok := groupKeys[reg.V1.Message.Pubkey]
		if !ok {
			return "REGISTRATION for a key that is no group key of the ceremony"
		}
		root, err := registration.GetMessageSigningRoot(reg.V1.Message, eth2p0.Version(fv))
		if err != nil {
			panic("HARNESS-ERROR: registration root: " + err.Error())
		}
		if err := tbls.Verify(gk, root[:], tbls.Signature(reg.V1.Signature)); err != nil {
			return fmt.Sprintf("REGISTRATION SIGNATURE INVALID under the group key (partials of nodes %v): %v", perm, err)
		}
	}
	return ""
}

func seq(n int) []int {
	s := make([]int, n)
	for i := range s {
		s[i] = i
	}
	return s
}

// ---------------------------------------------------------------------------------------------
// (b) production transport over memnet

var keyCache = map[int]*k1.PrivateKey{}
var keyMu sync.Mutex

func nodeKey(i int) *k1.PrivateKey {
	keyMu.Lock()
	defer keyMu.Unlock()
	if k, ok := keyCache[i]; ok {
		return k
	}
	h := sha256.Sum256([]byte(fmt.Sprintf("verif-c11-%d", i)))
	k := k1.PrivKeyFromBytes(h[:])
	keyCache[i] = k
	return k
}

func TestC11FrostP2P(t *testing.T) {
	vstat.Rule("C11", c11Rule)
	maxN := vstat.EnvInt("VERIF_C11_MAXN", 8)
	rapid.Check(t, func(rt *rapid.T) {
		rapid.SyncTest(rt, func(rt *rapid.T) { runP2P(rt, maxN) })
	})
}

func runP2P(rt *rapid.T, maxN int) {
	c := drawCfg(rt, maxN, 4)
	session := []byte(fmt.Sprintf("session-%d", rapid.IntRange(0, 1<<20).Draw(rt, "session")))
	// share index need not follow peer order in the abstract, but production derives both from the
	// operator order (ShareIdx = PeerIdx+1); that is what is generated.
	var peers []peer.ID
	peerMap := map[peer.ID]cluster.NodeIdx{}
	for i := 0; i < c.n; i++ {
		id, err := p2p.PeerIDFromKey(nodeKey(i).PubKey())
		if err != nil {
			panic("HARNESS-ERROR: peer id: " + err.Error())
		}
		peers = append(peers, id)
		peerMap[id] = cluster.NodeIdx{PeerIdx: i, ShareIdx: i + 1}
	}
	net := memnet.New()
	tps := make([]*frostP2P, c.n)
	for i := 0; i < c.n; i++ {
		h := net.Host(peers[i])
		caster := bcast.New(h, peers, nodeKey(i), session)
		tp, err := newFrostP2P(h, peerMap, caster, c.t, c.v)
		if err != nil {
			panic("HARNESS-ERROR: newFrostP2P: " + err.Error())
		}
		tps[i] = tp
	}
	ctx, cancel := context.WithCancel(context.Background())
	defer cancel()
	res := make([]nodeResult, c.n)
	var mu sync.Mutex
	done := 0
	startOrder := rapid.Permutation(seq(c.n)).Draw(rt, "start_order")
	lazyStart := rapid.Bool().Draw(rt, "lazy_start")
	started := 0
	startNext := func() {
		i := startOrder[started]
		started++
		go func() {
			sh, err := runFrostParallel(ctx, tps[i], uint32(c.v), uint32(c.n), uint32(c.t), uint32(i+1), string(session))
			mu.Lock()
			res[i] = nodeResult{sh, err}
			done++
			mu.Unlock()
		}()
		synctest.Wait()
	}
	if !lazyStart {
		for started < c.n {
			startNext()
		}
	}
	var order []string
	dups := 0
	finished := func() int { mu.Lock(); defer mu.Unlock(); return done }
	for steps := 0; finished() < c.n; steps++ {
		if steps > 20000 {
			panic("HARNESS-ERROR: ceremony over memnet did not finish in 20000 steps")
		}
		np := net.NPending()
		if started < c.n && (np == 0 || rapid.IntRange(0, 3).Draw(rt, "start_now") == 0) {
			startNext()
			continue
		}
		if np == 0 {
			mu.Lock()
			err := firstErr(res)
			mu.Unlock()
			rt.Fatalf("CEREMONY STUCK OR FAILED without any fault: n=%d t=%d v=%d finished=%d err=%v", c.n, c.t, c.v, finished(), err)
		}
		// frames are delivered in a drawn order; mostly near the head of the queue so that the run
		// makes progress like a network with bounded reordering, sometimes anywhere.
		var k int
		if rapid.IntRange(0, 3).Draw(rt, "far") == 0 {
			k = rapid.IntRange(0, np-1).Draw(rt, "frame")
		} else {
			k = rapid.IntRange(0, min(np-1, 3)).Draw(rt, "frame_near")
		}
		f := net.Take(k)
		net.Deliver(f)
		synctest.Wait()
		if len(order) < 60 {
			order = append(order, fmt.Sprintf("%d", k))
		}
		if rapid.IntRange(0, 24).Draw(rt, "dup") == 0 {
			net.Deliver(f) // duplicate delivery of the same bytes
			synctest.Wait()
			dups++
		}
	}
	for net.NPending() > 0 {
		net.Drop(net.Take(0))
	}
	synctest.Wait()
	if err := firstErr(res); err != nil {
		rt.Fatalf("CEREMONY FAILED without any fault: n=%d t=%d v=%d: %v", c.n, c.t, c.v, err)
	}
	if dups > 0 {
		vstat.Count("p2p_with_duplicate_frames", 1)
	}
	vstat.Max("frames_per_ceremony", int64(len(net.All)))
	judge(rt, c, "p2p", order, res)
}

// TestC11OddDealer: one member deals polynomials with one coefficient too many (it runs the ceremony with
// threshold t+1 while validating the others' messages against t, as a node built from a slightly different
// configuration would). A correct cluster does not finish such a ceremony: the other members refuse its round-1
// cast and nothing can be said. If the other members DO finish successfully, what they hold must satisfy the
// property: one group key, and every t of their secret shares sign validly for it (with a joint polynomial of
// degree t that needs t+1 shares).
func TestC11OddDealer(t *testing.T) {
	vstat.Rule("C11", "odd dealer: FROST over the in-memory network where one member deals with threshold t+1; asserts only if every other member finishes successfully: then any t of their secret shares must sign validly for the one group key they hold; non-trivial = the others finished")
	rapid.Check(t, func(rt *rapid.T) {
		rapid.SyncTest(rt, func(rt *rapid.T) { runOddDealer(rt) })
	})
}

func runOddDealer(rt *rapid.T) {
	n := rapid.IntRange(3, 5).Draw(rt, "n")
	th := rapid.IntRange(2, n-1).Draw(rt, "t")
	nv := rapid.IntRange(1, 2).Draw(rt, "validators")
	odd := rapid.IntRange(0, n-1).Draw(rt, "oddMember")
	// what the odd member does: deal polynomials with one coefficient too many, or append to its round-2 broadcast
	// a cast in the name of another member (with its own verification-key share)
	oddKind := rapid.SampledFrom([]string{"deals_with_threshold_plus_one", "spoofs_round2_cast_of_another_member"}).Draw(rt, "oddKind")
	victim := (odd + 1 + rapid.IntRange(0, n-2).Draw(rt, "victim")) % n
	session := []byte(fmt.Sprintf("session-odd-%d", rapid.IntRange(0, 1<<20).Draw(rt, "session")))
	var peers []peer.ID
	peerMap := map[peer.ID]cluster.NodeIdx{}
	for i := 0; i < n; i++ {
		id, err := p2p.PeerIDFromKey(nodeKey(i).PubKey())
		if err != nil {
			panic("HARNESS-ERROR: peer id: " + err.Error())
		}
		peers = append(peers, id)
		peerMap[id] = cluster.NodeIdx{PeerIdx: i, ShareIdx: i + 1}
	}
	net := memnet.New()
	tps := make([]*frostP2P, n)
	for i := 0; i < n; i++ {
		h := net.Host(peers[i])
		tp, err := newFrostP2P(h, peerMap, bcast.New(h, peers, nodeKey(i), session), th, nv)
		if err != nil {
			panic("HARNESS-ERROR: newFrostP2P: " + err.Error())
		}
		tps[i] = tp
	}
	ctx, cancel := context.WithCancel(context.Background())
	res := make([]nodeResult, n)
	var mu sync.Mutex
	done := map[int]bool{}
	for i := 0; i < n; i++ {
		nodeT := th
		var tp fTransport = tps[i]
		if i == odd && oddKind == "deals_with_threshold_plus_one" {
			nodeT = th + 1
		} else if i == odd {
			tp = spoofingTP{tps[i], uint32(odd + 1), uint32(victim + 1)}
		}
		go func() {
			sh, err := runFrostParallel(ctx, tp, uint32(nv), uint32(n), uint32(nodeT), uint32(i+1), string(session))
			mu.Lock()
			res[i] = nodeResult{sh, err}
			done[i] = true
			mu.Unlock()
		}()
	}
	synctest.Wait()
	othersDone := func() bool {
		mu.Lock()
		defer mu.Unlock()
		for i := 0; i < n; i++ {
			if i != odd && !done[i] {
				return false
			}
		}
		return true
	}
	for steps := 0; steps < 20000 && !othersDone() && net.NPending() > 0; steps++ {
		net.Deliver(net.Take(0))
		synctest.Wait()
	}
	finished := othersDone()
	cancel()
	for net.NPending() > 0 {
		net.Drop(net.Take(0))
	}
	synctest.Wait()
	time.Sleep(2 * time.Minute) // receive timeouts of parked stream handlers (virtual)
	synctest.Wait()
	mu.Lock()
	defer mu.Unlock()
	ok := finished
	for i := 0; i < n && ok; i++ {
		if i != odd && (res[i].err != nil || len(res[i].shares) != nv) {
			ok = false
		}
	}
	if !ok {
		vstat.Case("", false, "odd_dealer:ceremony_did_not_finish(nothing_to_judge)", "odd_kind_unfinished:"+oddKind)
		return
	}
	msg := []byte("verif-c11-odd-dealer")
	for v := 0; v < nv; v++ {
		var ref *tbls.PublicKey
		var members []int
		for i := 0; i < n; i++ {
			if i == odd {
				continue
			}
			pk := res[i].shares[v].PubKey
			if ref == nil {
				ref = &pk
			} else if *ref != pk {
				rt.Fatalf("GROUP KEY DIFFERS after a ceremony every regular member finished successfully (member %d dealt with threshold %d, the others %d)", odd, th+1, th)
			}
			members = append(members, i)
		}
		// every t-subset of the regular members (n <= 5: at most 6 subsets)
		var rec func(start int, cur []int)
		rec = func(start int, cur []int) {
			if len(cur) == th {
				sigs := map[int]tbls.Signature{}
				for _, i := range cur {
					s, err := tbls.Sign(res[i].shares[v].SecretShare, msg)
					if err != nil {
						rt.Fatalf("HARNESS-ERROR: sign: %v", err)
					}
					sigs[i+1] = s
				}
				agg, err := tbls.ThresholdAggregate(sigs)
				if err != nil || tbls.Verify(*ref, msg, agg) != nil {
					rt.Fatalf("T SHARES DO NOT SIGN: validator %d: the ceremony finished successfully on every regular member (n=%d t=%d, member %d dealt with threshold %d), but the secret shares of members %v do not produce a signature valid under the group key", v, n, th, odd, th+1, cur)
				}
				return
			}
			for i := start; i < len(members); i++ {
				rec(i+1, append(append([]int{}, cur...), members[i]))
			}
		}
		if len(members) >= th {
			rec(0, nil)
		}
		// every regular member's secret share belongs to the public share every regular member holds for it
		for _, i := range members {
			want, err := tbls.SecretToPublicKey(res[i].shares[v].SecretShare)
			if err != nil {
				rt.Fatalf("HARNESS-ERROR: %v", err)
			}
			for _, j := range members {
				if got := res[j].shares[v].PublicShares[i+1]; got != want {
					rt.Fatalf("SECRET/PUBLIC SHARE MISMATCH: validator %d: the ceremony finished successfully on every regular member (n=%d t=%d, member %d %s, victim %d), but the public share member %d holds for member %d does not belong to that member's secret share", v, n, th, odd, oddKind, victim, j, i)
				}
			}
		}
	}
	vstat.Case(fmt.Sprintf("odd/%d/%d/%d/%d/%s", n, th, nv, odd, oddKind), true, "odd_dealer:others_finished", "odd_kind:"+oddKind)
}

// spoofingTP is the transport of a member that appends to its own round-2 broadcast one cast per validator in the
// name of another member (carrying its own values).
type spoofingTP struct {
	fTransport
	self, victim uint32
}

func (s spoofingTP) Round2(ctx context.Context, casts map[msgKey]frost.Round2Bcast) (map[msgKey]frost.Round2Bcast, error) {
	out := map[msgKey]frost.Round2Bcast{}
	for k, c := range casts {
		out[k] = c
		if k.SourceID == s.self {
			k2 := k
			k2.SourceID = s.victim
			out[k2] = c
		}
	}
	return s.fTransport.Round2(ctx, out)
}
