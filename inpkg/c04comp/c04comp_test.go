// C04 (component level) — termination of the production consensus component with at most f crashed
// members under timely delivery.
//
// TestC04Random drives core/qbft.Run directly; the wrapper around it (core/consensus/qbft: value
// cache, wire message construction, signature and justification checks on receipt, leader function)
// takes part in liveness just as much: a ROUND-CHANGE built with the wrong prepared value, or a member
// that can no longer find its own proposal, stalls the instance although the state machine is right.
// Here n production Consensus components talk over the in-memory libp2p stand-in inside a synctest
// bubble (virtual time, real timers); up to f members crash after a drawn number of frames, i.e. also
// halfway through a broadcast. The increasing round timer is used (the default eager timer has the open
// finding recorded under C04 and would blur the bound).
package qbft

import (
	"context"
	"crypto/sha256"
	"fmt"
	"sort"
	"sync"
	"testing"
	"testing/synctest"
	"time"

	eth2v1 "github.com/attestantio/go-eth2-client/api/v1"
	eth2p0 "github.com/attestantio/go-eth2-client/spec/phase0"
	k1 "github.com/decred/dcrd/dcrec/secp256k1/v4"
	"github.com/libp2p/go-libp2p/core/peer"
	"pgregory.net/rapid"

	"github.com/obolnetwork/charon/core"
	"github.com/obolnetwork/charon/core/consensus/timer"
	pbv1 "github.com/obolnetwork/charon/core/corepb/v1"
	"github.com/obolnetwork/charon/p2p"
	"github.com/obolnetwork/charon/zzverif/fakebn"
	"github.com/obolnetwork/charon/zzverif/memnet"
	"github.com/obolnetwork/charon/zzverif/vstat"
)

func TestMain(m *testing.M) { vstat.Main(m) }

type stubDeadliner struct{}

func (stubDeadliner) Add(core.Duty) core.DeadlineStatus { return core.DeadlineScheduled }
func (stubDeadliner) C() <-chan core.Duty               { return nil }

var (
	compKeyMu sync.Mutex
	compKeys  = map[int]*k1.PrivateKey{}
)

func compKey(i int) *k1.PrivateKey {
	compKeyMu.Lock()
	defer compKeyMu.Unlock()
	if k, ok := compKeys[i]; ok {
		return k
	}
	h := sha256.Sum256([]byte(fmt.Sprintf("verif-c04comp-%d", i)))
	k := k1.PrivKeyFromBytes(h[:])
	compKeys[i] = k
	return k
}

func proposalOf(node int, slot uint64) core.UnsignedDataSet {
	var root eth2p0.Root
	root[0], root[1] = byte(node+1), 0xc4
	return core.UnsignedDataSet{
		core.PubKey("0x" + fmt.Sprintf("%096x", 7)): core.AttestationData{
			Data: eth2p0.AttestationData{Slot: eth2p0.Slot(slot), Index: 1, BeaconBlockRoot: root, Source: &eth2p0.Checkpoint{Epoch: 1}, Target: &eth2p0.Checkpoint{Epoch: 2}},
			Duty: eth2v1.AttesterDuty{Slot: eth2p0.Slot(slot), ValidatorIndex: 3, CommitteeIndex: 1, CommitteeLength: 8, CommitteesAtSlot: 2},
		},
	}
}

func TestC04Component(t *testing.T) {
	vstat.Rule("C04", "component level: n in 4..7 production consensus components (NewConsensus, Propose, increasing round timer) over the in-memory libp2p stand-in on virtual time; up to f members stop after a drawn number of outgoing frames (also halfway through a broadcast), members start within 20 ms, per-link latency 1..40 ms; every running member must decide (one value) within n+3 rounds of timeouts; non-trivial = a member stopped in the middle of a broadcast or a leader of rounds 1..2 stopped")
	vstat.Assume("component level uses the increasing round timer, not the default eager double-linear one (open finding eager_timer_split_doubling); the bound asserted is termination within n+3 rounds, weaker than the rotation bound TestC04Random asserts on the state machine")
	rapid.Check(t, func(rt *rapid.T) {
		rapid.SyncTest(rt, func(rt *rapid.T) { runComponent(rt) })
	})
}

func runComponent(rt *rapid.T) {
	n := rapid.IntRange(4, 7).Draw(rt, "n")
	f := (n - 1) / 3
	slot := uint64(rapid.IntRange(1, 40).Draw(rt, "slot"))
	duty := core.Duty{Slot: slot, Type: core.DutyAttester}
	nFaulty := rapid.IntRange(0, f).Draw(rt, "faulty")
	if nFaulty < f && rapid.IntRange(0, 2).Draw(rt, "fullF") != 0 {
		nFaulty = f
	}
	crashAfter := map[int]int{}
	for len(crashAfter) < nFaulty {
		// frames sent before the member stops: a broadcast is n-1 frames, so most draws stop inside one
		crashAfter[rapid.IntRange(0, n-1).Draw(rt, "faultyID")] = rapid.IntRange(0, 4*(n-1)).Draw(rt, "crashAfterFrames")
	}
	lat := make([][]time.Duration, n)
	for i := range lat {
		lat[i] = make([]time.Duration, n)
		for j := range lat[i] {
			lat[i][j] = time.Duration(rapid.IntRange(1, 40).Draw(rt, "latencyMs")) * time.Millisecond
		}
	}
	startOff := make([]time.Duration, n)
	for i := range startOff {
		startOff[i] = time.Duration(rapid.IntRange(0, 20).Draw(rt, "startMs")) * time.Millisecond
	}

	var peers []p2p.Peer
	idxOf := map[peer.ID]int{}
	for i := 0; i < n; i++ {
		id, err := p2p.PeerIDFromKey(compKey(i).PubKey())
		if err != nil {
			panic("HARNESS-ERROR: " + err.Error())
		}
		peers = append(peers, p2p.Peer{ID: id, Index: i, Name: fmt.Sprintf("node%d", i)})
		idxOf[id] = i
	}
	bn := fakebn.New()
	net := memnet.New()
	t0 := time.Now()
	ctx, cancel := context.WithCancel(context.Background())
	stop := make(chan struct{})
	var mu sync.Mutex
	sent := make([]int, n)
	crashed := make([]bool, n)
	midBroadcast := false
	var wg sync.WaitGroup
	var frameLog []string
	sentKinds := make([]map[[2]int64]bool, n) // per member: (round, message type) it has broadcast
	for i := range sentKinds {
		sentKinds[i] = map[[2]int64]bool{}
	}
	// An observer with the cluster's public keys (a production component on a network of its own, never started,
	// never proposing) is handed a copy of every frame a member sends: all members are honest here (they only
	// stop), so the receive path must take every one of them — "no message sent by an honest member is ever
	// rejected by another honest member", at the wire level. Its receive buffer holds 100 messages; once it is
	// full the hand-over ends with the context's timeout, which is not a rejection.
	observer, err := NewConsensus(ctx, bn, memnet.New().Host(peers[0].ID), new(p2p.Sender), peers, compKey(0), stubDeadliner{}, func(core.Duty) bool { return true }, func(*pbv1.SniffedConsensusInstance) {}, false)
	if err != nil {
		panic("HARNESS-ERROR: NewConsensus (observer): " + err.Error())
	}
	var rejected []string
	observe := func(fr *memnet.Frame, src, dst int) {
		m := new(pbv1.QBFTConsensusMsg)
		if fr.Decode(m) != nil {
			mu.Lock()
			rejected = append(rejected, fmt.Sprintf("%d->%d: frame does not parse", src, dst))
			mu.Unlock()
			return
		}
		wg.Add(1)
		go func() {
			defer wg.Done()
			octx, ocancel := context.WithTimeout(ctx, 2*time.Millisecond)
			defer ocancel()
			_, _, herr := observer.handle(octx, fr.From, m)
			if herr != nil && octx.Err() == nil {
				mu.Lock()
				rejected = append(rejected, fmt.Sprintf("+%dms %d->%d type %d round %d: %v", time.Since(t0)/time.Millisecond, src, dst, m.GetMsg().GetType(), m.GetMsg().GetRound(), herr))
				mu.Unlock()
			}
		}()
	}
	seenFrame := map[string]bool{}
	net.OnFrame = func(fr *memnet.Frame) {
		mu.Lock()
		src, dst := idxOf[fr.From], idxOf[fr.To]
		if key := fmt.Sprintf("%d/%x", src, fr.Req); !seenFrame[key] && !crashed[src] {
			seenFrame[key] = true // one copy of each broadcast is enough
			mu.Unlock()
			observe(fr, src, dst)
			mu.Lock()
		}
		{
			var m pbv1.QBFTConsensusMsg
			typ, rnd := int64(-1), int64(-1)
			if fr.Decode(&m) == nil && m.GetMsg() != nil {
				typ, rnd = m.GetMsg().GetType(), m.GetMsg().GetRound()
			}
			sentKinds[src][[2]int64{rnd, typ}] = true
			if len(frameLog) < 400 {
				frameLog = append(frameLog, fmt.Sprintf("+%dms %d->%d type%d r%d", time.Since(t0)/time.Millisecond, src, dst, typ, rnd))
			}
		}
		if k, faulty := crashAfter[src]; faulty && !crashed[src] && sent[src] >= k {
			crashed[src] = true
			if sent[src]%(n-1) != 0 {
				midBroadcast = true
			}
		}
		if crashed[src] || crashed[dst] {
			mu.Unlock()
			net.Drop(fr)
			return
		}
		sent[src]++
		d := lat[src][dst]
		mu.Unlock()
		wg.Add(1)
		go func() {
			defer wg.Done()
			select {
			case <-time.After(d):
				mu.Lock()
				dead := crashed[dst]
				mu.Unlock()
				if dead {
					net.Drop(fr)
					return
				}
				net.Deliver(fr)
			case <-stop:
				net.Drop(fr)
			}
		}()
	}
	type decision struct {
		at   time.Duration
		hash string
	}
	decided := map[int]decision{}
	var comps []*Consensus
	for i := 0; i < n; i++ {
		c, err := NewConsensus(ctx, bn, net.Host(peers[i].ID), new(p2p.Sender), peers, compKey(i), stubDeadliner{}, func(core.Duty) bool { return true }, func(*pbv1.SniffedConsensusInstance) {}, false)
		if err != nil {
			panic("HARNESS-ERROR: NewConsensus: " + err.Error())
		}
		c.timerFunc = func(d core.Duty) timer.RoundTimer { return timer.NewIncreasingRoundTimerWithDuty(d) }
		c.Subscribe(func(_ context.Context, d core.Duty, set core.UnsignedDataSet) error {
			pb, err := core.UnsignedDataSetToProto(set)
			if err != nil {
				return err
			}
			h, err := hashProto(pb)
			if err != nil {
				return err
			}
			mu.Lock()
			if _, ok := decided[i]; !ok {
				decided[i] = decision{time.Since(t0), fmt.Sprintf("%x", h[:6])}
			}
			mu.Unlock()
			return nil
		})
		c.Start(ctx)
		comps = append(comps, c)
	}
	propErr := make([]error, n)
	for i := 0; i < n; i++ {
		wg.Add(1)
		go func() {
			defer wg.Done()
			select {
			case <-time.After(startOff[i]):
			case <-stop:
				return
			}
			propErr[i] = comps[i].Propose(ctx, duty, proposalOf(i, slot))
		}()
	}
	// the members whose frames stop at 0 never say anything; leaders of the first rounds matter most
	leaderStopped := false
	for r := int64(1); r <= 2; r++ {
		if _, ok := crashAfter[int(leader(duty, r, n))]; ok {
			leaderStopped = true
		}
	}
	var bound time.Duration
	for r := int64(1); r <= int64(n+3); r++ {
		bound += timer.IncRoundStart + time.Duration(r)*timer.IncRoundIncrease
	}
	bound += time.Second
	deadline := time.Now().Add(bound)
	allDone := func() bool {
		mu.Lock()
		defer mu.Unlock()
		for i := 0; i < n; i++ {
			if _, faulty := crashAfter[i]; faulty {
				continue
			}
			if _, ok := decided[i]; !ok {
				return false
			}
		}
		return true
	}
	for time.Now().Before(deadline) && !allDone() {
		time.Sleep(50 * time.Millisecond)
		synctest.Wait()
	}
	ok := allDone()
	mu.Lock()
	snapshot := map[int]decision{}
	for k, v := range decided {
		snapshot[k] = v
	}
	var crashedList []int
	for i, c := range crashed {
		if c {
			crashedList = append(crashedList, i)
		}
	}
	mid := midBroadcast
	mu.Unlock()
	close(stop)
	cancel()
	wg.Wait()
	synctest.Wait()
	desc := fmt.Sprintf("n=%d duty=%v faulty(stop after frames)=%v crashed=%v leaders r1..3=%d,%d,%d", n, duty, crashAfter, crashedList, leader(duty, 1, n), leader(duty, 2, n), leader(duty, 3, n))
	if len(rejected) > 0 {
		rt.Fatalf("HONEST MESSAGE REJECTED (component): a production receive path refused a message that a member of an all-honest (crash-only) run sent: %s; %s", rejected[0], desc)
	}
	if !ok {
		var missing []int
		for i := 0; i < n; i++ {
			if _, faulty := crashAfter[i]; faulty {
				continue
			}
			if _, d := snapshot[i]; !d {
				missing = append(missing, i)
			}
		}
		// Structural signature of the recorded component-level finding: some running member decided — and
		// thereby left, the component stops a decided instance at once — while other running members never
		// do. What the leaver no longer sends (its own PREPARE or COMMIT if it decided before sending them,
		// DECIDED answers to later ROUND-CHANGEs) is exactly what the others lack after a member stopped in
		// the middle of a broadcast. A run in which no running member decides is a different failure.
		decidedRunning := 0
		for i := 0; i < n; i++ {
			if _, faulty := crashAfter[i]; faulty {
				continue
			}
			if _, d := snapshot[i]; d {
				decidedRunning++
			}
		}
		if decidedRunning > 0 && len(crashAfter) > 0 {
			var lacking []string
			for i := 0; i < n; i++ {
				if _, d := snapshot[i]; !d {
					continue
				}
				last := int64(0)
				for k := range sentKinds[i] {
					if k[0] > last {
						last = k[0]
					}
				}
				lacking = append(lacking, fmt.Sprintf("member %d decided (last round %d, sent PREPARE=%v COMMIT=%v there)", i, last, sentKinds[i][[2]int64{last, 2}], sentKinds[i][[2]int64{last, 3}]))
			}
			if vstat.IsKnown("C04", "component_decided_member_leaves", fmt.Sprintf("%s; %v; still undecided %v", desc, lacking, missing)) {
				vstat.Case("", false, "excluded:known_finding_component_decided_member_leaves")
				return
			}
		}
		var errs []string
		for i, e := range propErr {
			if e != nil {
				errs = append(errs, fmt.Sprintf("%d:%v", i, e))
			}
		}
		rt.Fatalf("NO TERMINATION (component): running members %v have not decided %v after the start (n+3 rounds of the increasing timer); %s; decided so far %v; Propose errors %v; frames %v", missing, bound, desc, snapshot, errs, frameLog)
	}
	vals := map[string]bool{}
	var latest time.Duration
	for i, d := range snapshot {
		if _, faulty := crashAfter[i]; faulty {
			continue
		}
		vals[d.hash] = true
		if d.at > latest {
			latest = d.at
		}
	}
	if len(vals) > 1 {
		rt.Fatalf("AGREEMENT (component): running members decided different values %v; %s", snapshot, desc)
	}
	var keys []int
	for k := range crashAfter {
		keys = append(keys, k)
	}
	sort.Ints(keys)
	vstat.Max("component_decision_ms", int64(latest/time.Millisecond))
	vstat.Case(fmt.Sprintf("comp/%d/%v/%v/%v", n, duty, crashAfter, lat), mid || leaderStopped, "component", fmt.Sprintf("component_n:%d", n), cls04("component_mid_broadcast_stop", mid), cls04("component_leader_stopped", leaderStopped), cls04("component_no_fault", len(crashAfter) == 0))
	if (mid || leaderStopped) && vstat.WantSample("component") {
		vstat.Sample("component", map[string]any{"n": n, "duty": duty.String(), "stop_after_frames": fmt.Sprint(crashAfter), "mid_broadcast": mid, "last_decision_ms": int64(latest / time.Millisecond)})
	}
}

func cls04(name string, on bool) string {
	if on {
		return name
	}
	return ""
}
