"""Per-property run configuration for ./check (what to build, which tests, how many cases) and the
metadata from which tools/gen_manifest.py writes MANIFEST.json."""

ENGINES = [
    {"name": "bubble", "path": "/verif/harness (rapid.Check -> rapid.SyncTest; synctest.Wait after every step)",
     "serves_properties": ["C16"], "kind_free_text": "property-based testing with a harness-owned schedule and virtual clock"},
]

NOT_APPLICABLE = {}

PROPS = {
    "C16": dict(
        kind="ext", pkg="./c16", level="exploration", engine="bubble",
        technique="model-based property testing (rapid state machine in a synctest bubble, reference model of pending duties)",
        level_text="Generated histories of Add / clock advance against the production deadliner on virtual time, compared step by step "
                   "with a reference model (status of every Add, exactly-once, not-early, deadline order, nothing missing at the end). "
                   "Exploration is the right level: the component is a small actor whose state space is covered densely by tens of thousands of short histories.",
        level_note="Trusts testing/synctest's virtual clock to behave like the real one; the consumer keeps reading and at most 8 duties share an instant "
                   "(documented 10-slot buffer); Add at exactly the deadline instant is treated as unspecified. TestC16Production takes each duty's deadline from the production deadline function (core.NewDutyDeadlineFunc) and states only the property about it.",
        runs={
            "quick": [dict(test="TestC16Deadliner", checks=30000), dict(test="TestC16ClockJumps", checks=20000), dict(test="TestC16Production", checks=6000)],
            "thorough": [dict(test="TestC16Deadliner", checks=400000, shards=12, timeout=1500), dict(test="TestC16ClockJumps", checks=400000, shards=4, timeout=1500), dict(test="TestC16Production", checks=200000, shards=2, timeout=1500)],
        },
    ),
    "C02": dict(
        kind="ext", pkg="./qbft", level="exploration", engine="qbftsim",
        technique="property-based schedule and adversary search (rapid + synctest) over the production qbft.Run state machine; history invariant: agreement",
        level_text="Randomly generated schedules (deliver/drop/duplicate/timer/late start) and Byzantine message templates against n real qbft.Run processes; "
                   "the oracle is the agreement invariant over all Decide calls. Search, not proof: it samples schedules and adversaries, with template acceptance rates reported.",
        level_note="Sources are authenticated by the transport (property C05); the adversary is limited to its own identities plus observed honest messages as justifications; "
                   "values/instances are int64 stand-ins for hashes/duties; Compare is the production default (nil).",
        runs={
            "quick": [dict(test="TestQBFTRandom", checks=10000, shards=3, env={"VERIF_ORACLE": "C02"}), dict(test="TestQBFTStaged", checks=10000, shards=3, env={"VERIF_ORACLE": "C02"})],
            "thorough": [dict(test="TestQBFTRandom", checks=150000, shards=10, timeout=3000, env={"VERIF_ORACLE": "C02", "VERIF_MAXEV": 1200}), dict(test="TestQBFTStaged", checks=150000, shards=6, timeout=3000, env={"VERIF_ORACLE": "C02", "VERIF_MAXEV": 600})],
        },
    ),
    "C03": dict(
        kind="ext", pkg="./qbft", level="exploration", engine="qbftsim",
        technique="property-based schedule and adversary search (rapid + synctest) over the production qbft.Run state machine; history invariant: validity/integrity of every Decide",
        level_text="Same generated runs as C02; the oracle checks every Decide call: at most one per process, non-zero, proposed by a designated leader "
                   "(an input value when nobody is Byzantine), backed by a quorum of distinct matching COMMITs that honest sources really sent.",
        level_note="As C02. 'Backed by' is read as: the qcommit argument contains a quorum of distinct-source COMMITs for the decided round and value (extra entries an adversary padded in are tolerated).",
        runs={
            "quick": [dict(test="TestQBFTRandom", checks=10000, shards=3, env={"VERIF_ORACLE": "C03"}), dict(test="TestQBFTStaged", checks=10000, shards=3, env={"VERIF_ORACLE": "C03"})],
            "thorough": [dict(test="TestQBFTRandom", checks=150000, shards=10, timeout=3000, env={"VERIF_ORACLE": "C03", "VERIF_MAXEV": 1200}), dict(test="TestQBFTStaged", checks=150000, shards=6, timeout=3000, env={"VERIF_ORACLE": "C03", "VERIF_MAXEV": 600})],
        },
    ),
    "C04": dict(
        kind="ext", pkg="./qbft", level="fault_enumeration", engine="qbftsim",
        extra_builds={"comp": dict(kind="inpkg", pkg="./core/consensus/qbft", overlay=[("c04comp", "core/consensus/qbft")], stamp=["memnet", "fakebn"])},
        technique="property-based fault injection (rapid + synctest virtual time): generated fault plans (silent / late / crash at time / crash inside k-th broadcast after a recipient subset) and latencies against production qbft.Run with production round timers",
        level_text="Generated fault plans and latency patterns on virtual time with the production round timer; oracle: every non-faulty member decides, "
                   "in a round <= R_fault + n, no honest message is rejected as unjust, agreement and validity hold. Fault enumeration because the quantifier is over crash points and fault sets; "
                   "the quick tier samples them, the thorough tier enumerates the (member, broadcast index, recipient subset) grid for n=4 and n=7.",
        level_note="Termination and the rotation bound are asserted for the timer GetRoundTimerFunc selects under the default feature set; opt-in timers only for safety/no-unjust (stalls reported as observations). "
                   "Leader rotation is the formula of core/consensus/qbft.leader re-stated in the harness. One open finding (eager_timer_split_doubling) is excluded by signature.",
        runs={
            "quick": [dict(test="TestC04Random", checks=15000, shards=4), dict(test="TestC04Grid", checks=1, shards=6, shrinktime="5s"), dict(test="TestC04KnownFinding", checks=3), dict(test="TestC04Component", bin="comp", checks=150, shards=3, shrinktime="20s")],
            "thorough": [dict(test="TestC04Random", checks=100000, shards=12, timeout=3000), dict(test="TestC04Grid", checks=8, shards=10, shrinktime="5s", timeout=3000), dict(test="TestC04KnownFinding", checks=3), dict(test="TestC04Component", bin="comp", checks=4000, shards=4, timeout=3000)],
        },
    ),
    "C07": dict(
        kind="ext", pkg="./c07", level="exploration", engine="bubble",
        technique="model-based property testing (rapid histories against a reference model of accepted shares per duty/validator/subcommittee)",
        level_text="Generated histories of internal/external batches with duplicates, equivocations, minority roots, rejected entries, expiries against the production MemDB; "
                   "every call's error, threshold triggers (exactly the matching group, exactly once) and internal fan-out are compared with a reference model.",
        level_note="Single-threaded histories (the bubble cannot pre-empt inside the store's mutex); signatures are opaque bytes (the store never verifies them); 2t>n; exempt-duty cap not reached.",
        runs={
            "quick": [dict(test="TestC07Model", checks=8000, shards=4), dict(test="TestC07Regression", mode="plain"), dict(test="TestC07Threads", checks=2000, shrinktime="20s"), dict(test="TestC07Interleave", checks=4000)],
            "thorough": [dict(test="TestC07Model", checks=150000, shards=12, timeout=3000), dict(test="TestC07Regression", mode="plain"),
                         dict(test="TestC07Threads", checks=6000, shards=3, race=True, timeout=3000), dict(test="TestC07Interleave", checks=100000, shards=2, timeout=3000)],
        },
    ),
    "C17": dict(
        kind="ext", pkg="./c17", level="exploration", engine="bubble",
        technique="model-based property testing (rapid histories in a synctest bubble, both implementations against one reference map)",
        level_text="Generated histories of concurrent Await goroutines, Store (equal / conflicting / partially failing sets), cancellation and expiry, applied to MemDB and MemDBV2; "
                   "after every step and quiescence each reader whose key is stored must have returned exactly the stored value and every other reader must still be blocked.",
        level_note="synctest.Wait() defines 'as soon as stored' (no goroutine can make progress any more); interleavings inside a mutex section are not controlled (race tier only).",
        runs={
            "quick": [dict(test="TestC17Model", checks=8000, shards=4), dict(test="TestC17Regression", mode="plain"), dict(test="TestC17Threads", checks=2000, shrinktime="20s")],
            "thorough": [dict(test="TestC17Model", checks=150000, shards=12, timeout=3000), dict(test="TestC17Regression", mode="plain"),
                         dict(test="TestC17Threads", checks=4000, shards=3, race=True, timeout=3000)],
        },
    ),
    "C06": dict(
        kind="ext", pkg="./c06", level="exploration", engine="bubble",
        technique="stateful model-based property testing (rapid operation histories in a synctest bubble against a reference model with probe-resolved partial applications)",
        level_text="Generated histories of Store / Await* / cancel / PubKeyByAttestation / expiry over a small overlapping key universe against the production MemDB; "
                   "the model predicts which stores must be rejected, which answers are allowed per key (uniqueness over time, only offered data), and that no query stays blocked after a successful store of its key.",
        level_note="Single-threaded histories with concurrent blocked queries (goroutines parked in Await*); lock-level interleavings are not controlled. "
                   "Order-dependent outcomes of multi-entry sets (Go map order) are accepted either way and the resulting state is learnt by probing.",
        runs={
            "quick": [dict(test="TestC06Model", checks=5000, shards=4), dict(test="TestC06RealDeadliner", checks=6000), dict(test="TestC06ExpiryBurst", checks=400), dict(test="TestC06ExpiryDuringStore", checks=3000)],
            "thorough": [dict(test="TestC06Model", checks=80000, shards=14, timeout=3000), dict(test="TestC06RealDeadliner", checks=200000, timeout=3000), dict(test="TestC06ExpiryBurst", checks=20000, timeout=3000), dict(test="TestC06ExpiryDuringStore", checks=200000, shards=2, timeout=3000)],
        },
    ),
    "C18": dict(
        kind="ext", pkg="./c18", level="exploration", engine="valgen",
        technique="property-based aliasing check: generated values of every core type pushed through each hand-over point, reflect walker scribbles over every reachable reference, later reads compared with a pristine snapshot, address sets of two holders must be disjoint",
        level_text="For dutydb, parsigdb, aggsigdb (both), sigagg, and the subscriber fan-out of parsigex (peer message over the in-memory libp2p stand-in) and of the validator API component: store -> mutate input -> read; read -> mutate result -> read again; two readers / two subscribers -> disjoint reachable addresses, "
                   "for generated values of every core data type and fork version.",
        level_note="TestC18Isolation runs single-threaded orders; TestC18Threads runs readers / writers / subscribers on real goroutines (race detector in the thorough tier, schedule not controlled); unexported fields and time.Time are treated as unreachable/immutable.",
        runs={
            "quick": [dict(test="TestC18Isolation", checks=900, shards=4), dict(test="TestC18Threads", checks=400, shrinktime="15s")],
            "thorough": [dict(test="TestC18Isolation", checks=12000, shards=13, timeout=3000), dict(test="TestC18Threads", checks=1000, shards=3, race=True, timeout=3000)],
        },
    ),
    "C05": dict(
        kind="inpkg", pkg="./core/consensus/qbft", overlay=[("c05", "core/consensus/qbft")], stamp=["memnet", "fakebn"], level="exploration", engine="overlay",
        technique="property-based mutation testing of wire messages (rapid): valid signed messages of every shape, one generated alteration each, oracle = rejected without touching any receive buffer; positive control on the unaltered message",
        level_text="In-package check of the production receive handler: for generated valid messages (all five types, with justifications and values) every drawn alteration of a signed leaf at either nesting level, "
                   "re-signed rule violations, altered / missing referenced values, count limits, gated / expired duties, nil parts and arbitrary bytes must be rejected with no buffer or instance created, while the unaltered message is accepted exactly once.",
        level_note="Runs as an overlay test inside core/consensus/qbft (no file is written to /repo); the component is built with the production constructor NewConsensus (never started) and only handle, signMsg, hashProto and the instance map are touched from inside the package; the transport-level sender and the receive deadline are drawn. "
                   "Base messages are built with signMsg rather than harvested from live runs; the decide-payload clause is covered by C01's cluster harness.",
        runs={
            "quick": [dict(test="TestC05Handle", checks=6000, shards=4)],
            "thorough": [dict(test="TestC05Handle", checks=150000, shards=10, timeout=3000), dict(test="FuzzC05Handle", mode="fuzz", fuzztime="300s", parallel=6, timeout=900)],
        },
    ),
    "C13": dict(
        kind="ext", pkg="./c13", level="exploration", engine="memnet",
        technique="property-based adversary search (rapid + synctest) against production bcast components over an in-memory libp2p stand-in; history invariant over all deliveries and all signatures seen on the wire",
        level_text="Production bcast.New components for the honest members, one member played by the harness with its real key; generated interleavings of honest broadcasts, per-receiver equivocating signature requests, "
                   "assembled / permuted / truncated / substituted signature lists (other id, payload, session), relays under the faulty identity, drops and duplicates. Oracle over every callback invocation.",
        level_note="One faulty member (any index); k1 signatures are real; the harness restates the signed digest to sign as the faulty member, a positive control fails as a harness error if that digest no longer matches production.",
        runs={
            "quick": [dict(test="TestC13Broadcast", checks=1200, shards=4), dict(test="TestC13PositiveControl", mode="plain")],
            "thorough": [dict(test="TestC13Broadcast", checks=40000, shards=16, timeout=3000), dict(test="TestC13PositiveControl", mode="plain")],
        },
    ),
    "C09": dict(
        kind="ext", pkg="./c09", level="exploration", engine="specsign",
        technique="property-based differential testing (rapid): generated values of every signed type and fork signed with an independent eth2 signing table and real threshold BLS shares, with generated corruptions; oracle = independent verification of what the aggregator publishes",
        level_text="For every Eth2SignedData type and fork version: honest threshold subsets must yield, at every subscriber, an object whose signature verifies under the group key for the harness's own (spec-derived) signing root, domain and epoch of the object's content, and whose content is what was signed; "
                   "any corrupted partial set must yield an error and no subscriber call.",
        level_note="Signing roots/domains come from the harness's table (specsign) and the fake beacon node's compute_domain, not from core/eth2signeddata.go; cryptographic negatives are statistical; pre-merge (phase0/altair) proposals are outside the signing flow of the pinned dependency and are skipped.",
        runs={
            "quick": [dict(test="TestC09Aggregate", checks=700, shards=4, shrinktime="10s")],
            "thorough": [dict(test="TestC09Aggregate", checks=8000, shards=16, timeout=3000)],
        },
    ),
    "C08": dict(
        kind="ext", pkg="./c08", level="exploration", engine="rapid",
        technique="property-based testing (rapid) of algebraic laws: recovery and aggregation round trips against the undivided key, all subsets for n<=7, with negative substitutions",
        level_text="For generated (n, t, secret, message): every subset of size >= t (exhaustive per case for n <= 7) recovers the secret and the group key and aggregates to exactly the undivided key's signature; "
                   "substituting a share from another split, a wrong index or another message must not verify.",
        level_note="herumi BLS is the trusted base; negatives are statistical; secrets come from drawn bytes through the package's insecure generators (the CSPRNG split is exercised too, the oracle is coefficient independent).",
        runs={
            "quick": [dict(test="TestC08Threshold", checks=60, shards=4)],
            "thorough": [dict(test="TestC08Threshold", checks=1500, shards=16, timeout=3000)],
        },
    ),
    "C10": dict(
        kind="ext", pkg="./c10", level="exploration", engine="specsign",
        technique="property-based mutation testing (rapid): valid submissions for every validator-API endpoint and peer messages for every duty type, signed with an independent eth2 signing table; one generated alteration; oracle decides from independently recomputed signing roots whether rejection is mandatory",
        level_text="Every signature-accepting entry point of the production validatorapi component and the production parsigex handler (over memnet, with NewEth2Verifier and NewDutyGater): the valid submission is admitted exactly once per subscriber, "
                   "every alteration that changes the signing root, the signature, the named validator, the agreed proposal payload, the claimed share or the admissibility of the duty is rejected before any subscriber runs.",
        level_note="Signing roots and domains come from specsign / fakebn; alterations of unsigned metadata assert nothing; pre-merge proposals are outside the signing flow; cryptographic negatives are statistical.",
        runs={
            "quick": [dict(test="TestC10ValidatorAPI", checks=500, shards=3, shrinktime="10s"), dict(test="TestC10PeerPath", checks=700, shards=2, shrinktime="10s"), dict(test="TestC10Batches", checks=300, shards=3, shrinktime="10s"), dict(test="TestC10PeerBatches", checks=500, shrinktime="10s")],
            "thorough": [dict(test="TestC10ValidatorAPI", checks=12000, shards=7, timeout=3000), dict(test="TestC10PeerPath", checks=20000, shards=5, timeout=3000), dict(test="TestC10Batches", checks=8000, shards=3, timeout=3000), dict(test="TestC10PeerBatches", checks=20000, shards=2, timeout=3000)],
        },
    ),
    "C01": dict(
        kind="ext", pkg="./c01", level="exploration", engine="memnet",
        technique="property-based whole-cluster simulation (rapid + synctest): real node stacks wired by core.Wire over an in-memory network, generated schedules / crashes / equivocating partial signatures; history invariant over everything handed to the broadcaster and the aggregate store, verified with an independent signing table",
        level_text="n production node stacks (consensus component, dutydb, validatorapi, parsigdb, parsigex, sigagg, aggsigdb, deadliners) on virtual time; the harness owns every frame and plays the validator clients. "
                   "Every object any node hands to Broadcaster.Broadcast or AggSigDB.Store, and every object its production broadcaster (core/bcast) then submits to the beacon node, must verify under the group key for the spec signing root of its own content, and all objects of one (duty, validator) must share one signing root.",
        level_note="The scheduler is a stub; the fetcher is the production one in half of the cases (per-node view of the beacon node), a stub otherwise; duties: attester, sync message, exit, and (with the production fetcher) randao + proposer, selection-proof + aggregator and sync-selection + sync-contribution (single-contribution wire format) end to end; every node's production broadcaster (core/bcast) submits to a recording beacon node. "
                   "Byzantine behaviour is partial-signature only (consensus adversaries: C02); lock-level races are not controlled; signing roots come from specsign.",
        runs={
            "quick": [dict(test="TestC01Cluster", checks=90, shards=8, shrinktime="15s")],
            "thorough": [dict(test="TestC01Cluster", checks=1500, shards=16, timeout=3400, env={"VERIF_MAXEV": 400})],
        },
    ),
    "C14": dict(
        kind="ext", pkg="./c14", level="exploration", engine="valgen",
        extra_builds={"hash": dict(kind="inpkg", pkg="./core/consensus/qbft", overlay=[("c14hash", "core/consensus/qbft")], stamp=["memnet", "fakebn", "valgen"])},
        technique="property-based round-trip and structural-mutation testing (rapid) over generated values of every core type and fork; totality oracle = no panic in any operation the receive / decide / store / re-encode paths apply to a decoded value; determinism checked against the consensus package's own hash",
        level_text="Round trips through JSON, SSZ and the protobuf set converters for every core data type and fork version (content, signing root, signature, share index, clone equality and disjointness, deterministic bytes, order-independent consensus hash); "
                   "structurally mutated / truncated / spliced / type-confused / arbitrary encodings are pushed through decode and every later operation of the real receive and decide paths, where any panic is a crash of the process.",
        level_note="The receive and decide paths are exercised by calling the production functions in production order (decode, eth2 verifier, parsigdb, sigagg, aggsigdb, broadcaster re-encode; decode, dutydb.Store, Await*, re-encode) rather than through live components in the value-level tests; envelope-level oddities go through the production parsigex stream handler over the in-memory network (TestC14PeerFrameTotality) and leader-proposed values through live consensus components and the production duty store (TestC14DecidedValueTotality, half of the cases with the attestation comparison on); "
                   "native coverage-guided fuzzing (FuzzC14Decode, byte level, corpus seeded with every valid encoding) only in the thorough tier; it cannot be pinned to VERIF_SEED, a crasher is saved as the replay file.",
        runs={
            "quick": [dict(test="TestC14RoundTrip", checks=700, shards=3), dict(test="TestC14Mutations", checks=1300, shards=5, shrinktime="10s"), dict(test="TestC14PeerFrameTotality", checks=3000, shrinktime="10s"),
                      dict(test="TestC14Regression|TestC14RegressionLegacyAttestation", mode="plain"), dict(test="TestC14ConsensusHashDeterministic", checks=400, bin="hash"), dict(test="TestC14ConsensusWireTotality", checks=3000, bin="hash"), dict(test="TestC14DecidedValueTotality", checks=250, bin="hash", shards=2)],
            "thorough": [dict(test="TestC14RoundTrip", checks=20000, shards=4, timeout=3000), dict(test="TestC14Mutations", checks=150000, shards=8, timeout=3000), dict(test="TestC14PeerFrameTotality", checks=200000, shards=2, timeout=3000),
                         dict(test="FuzzC14Decode", mode="fuzz", fuzztime="300s", parallel=6, timeout=900),
                         dict(test="TestC14Regression|TestC14RegressionLegacyAttestation", mode="plain"), dict(test="TestC14ConsensusHashDeterministic", checks=20000, bin="hash", timeout=3000), dict(test="TestC14ConsensusWireTotality", checks=200000, bin="hash", timeout=3000), dict(test="TestC14DecidedValueTotality", checks=8000, bin="hash", shards=4, timeout=3000)],
        },
    ),
    "C20": dict(
        kind="ext", pkg="./c20", level="exploration", engine="fakebn",
        technique="model-based property testing (rapid operation sequences against the production DutiesCache over a scripted beacon node; differential oracle = the beacon node's direct answer as a multiset)",
        level_text="Generated sequences of requests over overlapping / disjoint / repeated index sets and epochs, active-set updates, reorg invalidations with changed tables, trims, caller-side mutation of returned results and beacon errors; "
                   "every answer must equal the beacon node's own answer, invalidated or trimmed epochs must be fetched afresh, returned results are private copies.",
        level_note="Model sequences are single-threaded; concurrent callers are exercised by TestC20Threads on real goroutines (race detector in the thorough tier); duplicate indices inside one request and table changes without invalidation are outside the domain; metadata maps are not compared.",
        runs={
            "quick": [dict(test="TestC20Model", checks=8000, shards=4), dict(test="TestC20Regression", mode="plain"), dict(test="TestC20Threads", checks=1000, shrinktime="15s")],
            "thorough": [dict(test="TestC20Model", checks=200000, shards=12, timeout=3000), dict(test="TestC20Regression", mode="plain"), dict(test="TestC20Threads", checks=20000, shards=3, race=True, timeout=3000)],
        },
    ),
    "C15": dict(
        kind="ext", pkg="./c15", level="exploration", engine="fakebn",
        technique="model-based property testing on virtual time (rapid + synctest): production scheduler with production clock, delay function and duties cache over a scripted beacon node; history invariant over all subscriber calls against a reference model of the assignments",
        level_text="Generated assignments, validator life cycles, start slots, per-endpoint failure scripts and slow beacon calls (missed ticks); every trigger is checked (never twice, never early, only the beacon node's assignment to an active cluster validator) "
                   "and every ticked slot that began after its epoch was resolved must have triggered exactly the model's definition sets.",
        level_note="An epoch counts as resolved when its last resolution call first succeeds (observed on the fake beacon node); feature-gated paths (reorg handling, fetch-on-block, duties cache disabled) run in separate jobs with the safety clauses only; delays are allowed by the property, only duplication / alteration / loss after resolution are violations.",
        runs={
            "quick": [dict(test="TestC15Scheduler", checks=800, shards=4, shrinktime="15s"),
                      dict(test="TestC15Scheduler", checks=500, shrinktime="15s", env={"VERIF_C15_FEATURES": "fetch_att_on_block"}),
                      dict(test="TestC15Scheduler", checks=500, shrinktime="15s", env={"VERIF_C15_FEATURES": "sse_reorg_duties,fetch_att_on_block_with_delay,disable_duties_cache"})],
            "thorough": [dict(test="TestC15Scheduler", checks=40000, shards=12, timeout=3000),
                         dict(test="TestC15Scheduler", checks=30000, shards=2, timeout=3000, env={"VERIF_C15_FEATURES": "fetch_att_on_block"}),
                         dict(test="TestC15Scheduler", checks=30000, shards=2, timeout=3000, env={"VERIF_C15_FEATURES": "sse_reorg_duties,fetch_att_on_block_with_delay,disable_duties_cache"})],
        },
    ),
    "C19": dict(
        kind="ext", pkg="./c19", level="exploration", engine="bubble",
        technique="property-based fault injection on virtual time (rapid + synctest): scripted per-node outcomes and latencies behind the production multi-client; oracle computed from the script (earliest success time, error classes, call log)",
        level_text="Generated configurations of primaries / fallbacks with per-node outcome (success, each error class, context-respecting hang, hard hang) and latency, provide- and submit-style calls, caller cancellation; "
                   "the call must succeed with exactly one succeeding primary's value at the virtual time of the earliest success, consult fallbacks only on unavailability-class failures of all primaries, and return at the cancellation instant when nodes respect their context.",
        level_note="Mixed error classes assert nothing about fallback use (the implementation keys on the last error); a hung primary with no succeeding primary legitimately blocks; distinct latencies make completion order well defined.",
        runs={
            "quick": [dict(test="TestC19Multi", checks=15000, shards=4), dict(test="TestC19Multi", checks=8000, env={"GOMAXPROCS": "2"}), dict(test="TestC19Sequence", checks=4000, shards=2), dict(test="TestC19LazyCancel", checks=12, shrinktime="20s")],
            "thorough": [dict(test="TestC19Multi", checks=300000, shards=10, timeout=3000), dict(test="TestC19Multi", checks=150000, shards=2, timeout=3000, env={"GOMAXPROCS": "2"}), dict(test="TestC19Sequence", checks=150000, shards=4, timeout=3000), dict(test="TestC19LazyCancel", checks=150, timeout=3000)],
        },
    ),
    "C12": dict(
        kind="ext", pkg="./c12", level="exploration", engine="rapid",
        technique="property-based testing of the real create-cluster CLI with independent (spec-derived) verification of every artifact, plus structural mutation of valid locks: every JSON leaf x alteration must break decoding, hash or signature verification (exhaustive grid in the thorough tier)",
        level_text="Generated create-cluster configurations through cmd.New(): lock hashes and signatures, key-share / public-share correspondence, deposit data and builder registrations verified with harness-side spec signing, share recombination, combine output. "
                   "Tamper evidence: every leaf and array of valid locks of versions v1.0..v1.11 under representative alterations must be detected; decode / re-encode must preserve all hashes.",
        level_note="Fully verifiable (hash + signature) bases: harness-assembled locks of every version v1.0..v1.11, the committed examples v1.1, v1.2, v1.7 and cluster.NewForT v1.10, v1.11; the per-version golden locks give hash verification only. "
                   "Genesis fork versions of the test networks are restated in the harness; herumi BLS is trusted.",
        runs={
            "quick": [dict(test="TestC12Create", checks=30, shards=4, shrinktime="15s"), dict(test="TestC12Tamper", checks=4000), dict(test="TestC12ReEncode", mode="plain"), dict(test="TestC12ReEncodeForms", checks=3000), dict(test="TestC12Regression", mode="plain"), dict(test="TestC12ConfigRehash", checks=600)],
            "thorough": [dict(test="TestC12Create", checks=400, shards=14, timeout=3000), dict(test="TestC12Tamper", checks=100000, timeout=3000), dict(test="TestC12ReEncode", mode="plain"), dict(test="TestC12ReEncodeForms", checks=100000, timeout=3000), dict(test="TestC12Regression", mode="plain"), dict(test="TestC12ConfigRehash", checks=20000, timeout=3000)],
        },
    ),
    "C11": dict(
        kind="inpkg", pkg="./dkg", overlay=[("c11", "dkg")], stamp=["memnet", "dkgoracle"], level="exploration", engine="overlay+memnet",
        extra_builds={"pedersen": dict(kind="ext", pkg="./c11p")},
        technique="property-based testing of whole key-generation ceremonies (rapid; rapid.SyncTest for the networked variant): generated cluster size / threshold / validator count and generated round-completion or frame-delivery schedules, algebraic oracle over every node's returned shares (independent Lagrange interpolation in G1, threshold BLS sign/aggregate/verify over t-subsets) followed by the production lock-hash, deposit and registration aggregation with forged-partial negatives",
        level_text="Production runFrostParallel on (a) a scheduling transport that lets one node at a time through the round barriers in a drawn order and (b) the production newFrostP2P + bcast transport over an in-memory libp2p stand-in with drawn frame order and duplicates; "
                   "pedersen.RunDKG over the same stand-in on virtual time. Oracle: same group key and same n public shares everywhere, secret share i matches public share i, every (or 40 drawn) t-subset of public shares reconstructs the key and of secret shares signs for the group key, t-1 shares do not, "
                   "aggLockHashSig/aggDepositData/aggValidatorRegistrations accept the honest partials and produce signatures valid under the group keys, and reject a forged partial.",
        level_note="Runs as an overlay test inside package dkg (no file written to /repo). crypto/rand inside FROST/kyber cannot be seeded, so replay repeats configuration and schedule, not key material. In the scheduled variants partial signatures are exchanged by the harness faithfully; the whole command (dkg.Run on every member: definition, sync protocol, exchanger, ceremony, aggregation, lock / keystore files) runs in TestC11FullRun over loopback TCP on wall-clock time, where a ceremony that ends with an error is skipped (the property speaks of successful ceremonies) and a majority of failed ceremonies makes the run inconclusive. TestC11OddDealer lets one member misbehave (deals with threshold t+1 / spoofs a round-2 cast) and asserts only when every regular member finishes successfully.",
        runs={
            "quick": [dict(test="TestC11FrostSchedules", checks=40, shards=4, env={"VERIF_C11_MAXN": "8"}), dict(test="TestC11FrostP2P", checks=10, shards=4), dict(test="TestC11OddDealer", checks=12), dict(test="TestC11Pedersen", bin="pedersen", checks=25, shards=2),
                      dict(test="TestC11FullRun", bin="pedersen", checks=2, shards=3, shrinktime="1s", env={"VERIF_C11_FULL_MAXN": "4"})],
            "thorough": [dict(test="TestC11FrostSchedules", checks=400, shards=10, timeout=3000), dict(test="TestC11FrostP2P", checks=120, shards=6, timeout=3000), dict(test="TestC11OddDealer", checks=300, shards=2, timeout=3000), dict(test="TestC11Pedersen", bin="pedersen", checks=400, shards=6, timeout=3000, env={"VERIF_C11_MAXN": "8"}),
                         dict(test="TestC11FullRun", bin="pedersen", checks=12, shards=8, shrinktime="1s", timeout=3000, env={"VERIF_C11_FULL_MAXN": "6"})],
        },
    ),
}
