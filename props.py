"""Per-property run configuration for ./check (what to build, which tests, how many cases) and the
metadata from which tools/gen_manifest.py writes MANIFEST.json."""

ENGINES = [
    {"name": "bubble", "path": "/verif/harness (rapid.Check -> rapid.SyncTest; synctest.Wait after every step)",
     "serves_properties": ["C16"], "kind_free_text": "property-based testing with a harness-owned schedule and virtual clock"},
]

NOT_APPLICABLE = {}

PROPS = {
    "C16": dict(
        kind="ext", pkg="./c16", level="exploration", engine="bubble",
        technique="model-based property testing (rapid state machine in a synctest bubble, reference model of pending duties)",
        level_text="Generated histories of Add / clock advance against the production deadliner on virtual time, compared step by step "
                   "with a reference model (status of every Add, exactly-once, not-early, deadline order, nothing missing at the end). "
                   "Exploration is the right level: the component is a small actor whose state space is covered densely by tens of thousands of short histories.",
        level_note="Trusts testing/synctest's virtual clock to behave like the real one; the consumer keeps reading and at most 8 duties share an instant "
                   "(documented 10-slot buffer); Add at exactly the deadline instant is treated as unspecified.",
        runs={
            "quick": [dict(test="TestC16Deadliner", checks=30000)],
            "thorough": [dict(test="TestC16Deadliner", checks=400000, shards=16, timeout=1500)],
        },
    ),
}
